"""C05 translator: math.py -> Gen/AngleSites_gen.v.

Regenerated on every run (fail-closed):

  * angle_sites      every store to an attribute `_pitch` / `_yaw` / `_roll` anywhere under src/srctools, with its
                     right-hand side classified  Double360 | Single360 | CopyFromAngle | ConstZero | Other
                     (plus every setattr/__setattr__/__setstate__/__dict__ use that could write such a slot);
  * format_float_cfg the shape of the format_float pipeline (x+0.0?, '.{places}f', default places, zero stripping,
                     the '-0' -> '0' repair) and whether VecBase.__str__/AngleBase.__str__/join/repr use it with
                     default places and plain separators;
  * mut_events       census of object mutations in every method of Vec/Angle/Matrix and their base/frozen classes
                     (including the exec()-templates): which object is written (receiver, parameter, result of
                     self.copy(), fresh object ...) -> obligations "no method that can run on a frozen receiver
                     writes it" and "no method writes a parameter or the result of copy() of one".
"""
from __future__ import annotations

import ast
import re

from harness.common import SRC, TranslateError, ast_digest, src_text

FIELDS = ('_pitch', '_yaw', '_roll')
CLASSES = ('VecBase', 'FrozenVec', 'Vec', 'MatrixBase', 'FrozenMatrix', 'Matrix', 'AngleBase', 'FrozenAngle', 'Angle')
FROZEN_REACHABLE = ('VecBase', 'FrozenVec', 'MatrixBase', 'FrozenMatrix', 'AngleBase', 'FrozenAngle')
MUTABLE_CTORS = {'Py_Vec', 'Vec', 'Py_Angle', 'Angle', 'Py_Matrix', 'Matrix'}
FROZEN_CTORS = {'Py_FrozenVec', 'FrozenVec', 'Py_FrozenAngle', 'FrozenAngle', 'Py_FrozenMatrix', 'FrozenMatrix'}
# Names of methods / alternative constructors that return a NEW object in every class that defines them.  Not a list of
# spellings: computed from the source on every run (derive_fresh_names: least fixpoint over the result kinds read from the
# return statements, starting from constructor calls and X.__new__ only), so renaming or adding a helper needs no change here.
FRESH_DERIVED: set[str] = set()
# Names of methods that write their receiver / their first argument (a call of one is a mutation event in the caller).
# Computed from the source on every run (derive_mutators: least fixpoint over the census itself - a method writes its
# receiver when it stores to a slot of self, is an in-place operator, or calls such a method on self), so that renaming
# `_mat_mul` or adding an in-place helper can neither raise an alarm nor hide a write.
MUT_RECV: set[str] = set()
MUT_ARG0: set[str] = set()
OPERATOR_NAMES = ('add', 'sub', 'mul', 'truediv', 'floordiv', 'mod', 'pow', 'matmul', 'and', 'or', 'xor', 'lshift', 'rshift')
FRESH_USED: set[str] = set()        # names of FRESH_DERIVED that the census or the result kinds relied on


_CONSTS: dict[str, ast.AST] = {}        # module-level literal constants of the file being read (set by angle_sites)
_HELPERS: dict[str, ast.AST] = {}       # module-level functions / static methods whose body is a single `return expr`


def _is360(n: ast.AST) -> bool:
    if isinstance(n, ast.Name) and n.id in _CONSTS:
        n = _CONSTS[n.id]
    return isinstance(n, ast.Constant) and type(n.value) in (int, float) and n.value == 360


def _single_return_helpers(tree: ast.Module) -> dict[str, ast.AST]:
    """name -> returned expression, for functions (module level or in a class) whose body is only `return expr`;
    a name defined more than once is dropped."""
    seen: dict[str, int] = {}
    out: dict[str, ast.AST] = {}
    for n in ast.walk(tree):
        if isinstance(n, (ast.FunctionDef, ast.AsyncFunctionDef)):
            seen[n.name] = seen.get(n.name, 0) + 1
            body = [b for b in n.body if not (isinstance(b, ast.Expr) and isinstance(b.value, ast.Constant))]
            if len(body) == 1 and isinstance(body[0], ast.Return) and body[0].value is not None and isinstance(n, ast.FunctionDef):
                out[n.name] = body[0].value
    return {k: v for k, v in out.items() if seen[k] == 1}


def _single_bindings(fn: ast.AST | None) -> dict[str, ast.AST]:
    """Local names of a function that are bound exactly once, by a plain `name = expr` (not a parameter, no
    augmented assignment, not a loop/with/tuple target): their value can be substituted at a use."""
    if fn is None:
        return {}
    count: dict[str, int] = {}
    val: dict[str, ast.AST] = {}
    params = {a.arg for a in fn.args.posonlyargs + fn.args.args + fn.args.kwonlyargs}
    for node in ast.walk(fn):
        if isinstance(node, (ast.Global, ast.Nonlocal)):
            for n in node.names:
                count[n] = count.get(n, 0) + 2
        for t in _targets(node):
            if isinstance(t, ast.Name):
                count[t.id] = count.get(t.id, 0) + 1
                if isinstance(node, ast.Assign) and len(node.targets) == 1 and node.targets[0] is t:
                    val[t.id] = node.value
                elif isinstance(node, ast.AnnAssign) and node.target is t and node.value is not None:
                    val[t.id] = node.value
                else:
                    count[t.id] += 1
    return {n: v for n, v in val.items() if count.get(n) == 1 and n not in params}


def classify_rhs(v: ast.AST, env: dict[str, ast.AST] | None = None, depth: int = 0) -> str:
    """Kind of the value stored into an angle slot.  Locals bound once are replaced by their value, a module constant
    equal to 360 counts as 360, and a call of a helper whose body is a single `return expr` is classified by that
    expression (`_norm(v)` with `def _norm(x): return x % 360.0 % 360.0` is a double modulo)."""
    if depth > 6:
        return 'Other'
    if isinstance(v, ast.Name) and env and v.id in env:
        return classify_rhs(env[v.id], env, depth + 1)      # `p = e % 360 % 360; ang._pitch = p`
    if isinstance(v, ast.Call):
        f = v.func
        nm = f.id if isinstance(f, ast.Name) else f.attr if isinstance(f, ast.Attribute) and isinstance(f.value, ast.Name) else None
        if nm in _HELPERS:
            k = classify_rhs(_HELPERS[nm], None, depth + 1)
            return k if k in ('Double360', 'Single360') else 'Other'     # a copy/zero inside a helper says nothing about the argument
    if isinstance(v, ast.BinOp) and isinstance(v.op, ast.Mod) and _is360(v.right):
        return 'Double360' if classify_rhs(v.left, env, depth + 1) in ('Single360', 'Double360') else 'Single360'
    if isinstance(v, ast.Attribute) and v.attr in FIELDS and isinstance(v.value, ast.Name):
        return 'CopyFromAngle'
    if isinstance(v, ast.Constant) and type(v.value) in (int, float) and v.value == 0:
        return 'ConstZero'
    return 'Other'


def _walk_funcs(tree: ast.AST):
    """Yield (class_name or None, outermost function name or None, innermost function node or None, node)."""
    def walk(node, cls, fn, inner):
        for ch in ast.iter_child_nodes(node):
            if isinstance(ch, ast.ClassDef):
                yield from walk(ch, ch.name, None, None)
            elif isinstance(ch, (ast.FunctionDef, ast.AsyncFunctionDef)):
                yield cls, fn, inner, ch
                yield from walk(ch, cls, ch.name if fn is None else fn, ch)
            else:
                yield cls, fn, inner, ch
                yield from walk(ch, cls, fn, inner)
    yield from walk(tree, None, None, None)


def _targets(node: ast.AST):
    if isinstance(node, ast.Assign):
        for t in node.targets:
            yield from _flat(t)
    elif isinstance(node, (ast.AugAssign, ast.AnnAssign)):
        yield from _flat(node.target)
    elif isinstance(node, ast.Delete):
        for t in node.targets:
            yield from _flat(t)
    elif isinstance(node, (ast.For, ast.AsyncFor)):
        yield from _flat(node.target)
    elif isinstance(node, (ast.With, ast.AsyncWith)):
        for it in node.items:
            if it.optional_vars is not None:
                yield from _flat(it.optional_vars)
    elif isinstance(node, ast.NamedExpr):
        yield from _flat(node.target)


def _flat(t: ast.AST):
    if isinstance(t, (ast.Tuple, ast.List)):
        for e in t.elts:
            yield from _flat(e)
    elif isinstance(t, ast.Starred):
        yield from _flat(t.value)
    else:
        yield t


def _setattr_names(call: ast.Call, fn: ast.AST | None) -> list[str] | None:
    """The attribute names a `setattr(obj, name, value)` call can store to, when they are known: `name` is a string
    literal, or a variable bound ONLY as the target of a `for` loop (in the same function) over a literal tuple/list/set
    of strings or a module constant bound to one, with the call inside that loop."""
    if len(call.args) != 3 or call.keywords:
        return None
    n = call.args[1]
    if isinstance(n, ast.Constant) and isinstance(n.value, str):
        return [n.value]
    if not isinstance(n, ast.Name) or fn is None:
        return None
    binders = [x for x in ast.walk(fn) for t in _targets(x) if isinstance(t, ast.Name) and t.id == n.id]
    params = {a.arg for a in fn.args.posonlyargs + fn.args.args + fn.args.kwonlyargs} if isinstance(fn, (ast.FunctionDef, ast.AsyncFunctionDef)) else set()
    if len(binders) != 1 or not isinstance(binders[0], ast.For) or not isinstance(binders[0].target, ast.Name) or n.id in params:
        return None
    loop = binders[0]
    if not any(x is call for x in ast.walk(loop)) or any(x is call for b in loop.orelse for x in ast.walk(b)):
        return None
    it = loop.iter
    if isinstance(it, ast.Name) and it.id in _CONSTS:
        it = _CONSTS[it.id]
    if isinstance(it, ast.Call) and isinstance(it.func, ast.Name) and it.func.id in ('frozenset', 'set', 'tuple') and len(it.args) == 1 and not it.keywords:
        it = it.args[0]
    if isinstance(it, (ast.Tuple, ast.List, ast.Set)) and all(isinstance(e, ast.Constant) and isinstance(e.value, str) for e in it.elts):
        return [e.value for e in it.elts]
    return None


# ---------------------------------------------------------------------------------------------- angle stores
def angle_sites() -> tuple[list[tuple[str, str, int]], dict]:
    sites: list[tuple[str, str, int]] = []
    info: dict = {'other_files_with_angle_slots': []}
    files = sorted(p for p in SRC.rglob('*.py'))
    for p in files:
        text = p.read_text(encoding='utf8')
        rel = str(p.relative_to(SRC))
        if rel != 'math.py' and not re.search(r'_(pitch|yaw|roll)\b', text) and 'AngleBase' not in text:
            continue
        tree = ast.parse(text)
        if rel != 'math.py':
            info['other_files_with_angle_slots'].append(rel)
        _CONSTS.clear(); _CONSTS.update(_module_consts(tree))
        _HELPERS.clear(); _HELPERS.update(_single_return_helpers(tree))
        envs: dict[int, dict[str, ast.AST]] = {}
        for cls, fn, fnode, node in _walk_funcs(tree):
            if id(fnode) not in envs:
                envs[id(fnode)] = _single_bindings(fnode)
            for t in _targets(node):
                if isinstance(t, ast.Attribute) and t.attr in FIELDS:
                    where = f'{rel}:{cls}.{fn}:{t.attr}'
                    if isinstance(node, ast.Assign) and len(node.targets) == 1 and node.targets[0] is t:
                        sites.append((where, classify_rhs(node.value, envs[id(fnode)]), node.lineno))
                    elif isinstance(node, ast.Assign) and len(node.targets) == 1 and isinstance(node.targets[0], (ast.Tuple, ast.List)) \
                            and isinstance(node.value, (ast.Tuple, ast.List)) and len(node.value.elts) == len(node.targets[0].elts) \
                            and not any(isinstance(e, ast.Starred) for e in node.value.elts + node.targets[0].elts) \
                            and any(e is t for e in node.targets[0].elts):
                        # `a._pitch, a._yaw = p % 360 % 360, y % 360 % 360`: element-wise
                        rhs = node.value.elts[[e is t for e in node.targets[0].elts].index(True)]
                        sites.append((where, classify_rhs(rhs, envs[id(fnode)]), node.lineno))
                    elif isinstance(node, ast.AnnAssign) and node.value is None:
                        continue        # a bare annotation `_pitch: float` in a class body stores nothing
                    else:
                        sites.append((where, 'Other', node.lineno))
            if rel == 'math.py' and isinstance(node, ast.Call):
                f = node.func
                nm = f.id if isinstance(f, ast.Name) else f.attr if isinstance(f, ast.Attribute) else None
                if nm in ('setattr', '__setattr__', 'delattr', '__delattr__'):
                    # the matrix cell setter: setattr(self, _IND_TO_SLOT[item], ...)
                    ok = (nm == 'setattr' and len(node.args) == 3 and isinstance(node.args[1], ast.Subscript)
                          and isinstance(node.args[1].value, ast.Name) and node.args[1].value.id == '_IND_TO_SLOT')
                    # setattr(obj, name, value) with `name` a literal string or the variable of an enclosing
                    # `for name in <literal collection of strings>`: the loop form of the stores `obj.<name> = value`
                    names = _setattr_names(node, fnode) if isinstance(f, ast.Name) and nm == 'setattr' else None
                    if names is not None:
                        ok = True
                        for a in names:
                            if a in FIELDS:
                                v = node.args[2]
                                if isinstance(v, ast.Call) and isinstance(v.func, ast.Name) and v.func.id == 'getattr' and len(v.args) == 2 \
                                        and not v.keywords and ast.dump(v.args[1]) == ast.dump(node.args[1]) and isinstance(v.args[0], ast.Name):
                                    kind = 'CopyFromAngle'         # setattr(a, n, getattr(b, n)): the same slot of another object
                                else:
                                    kind = classify_rhs(v, envs[id(fnode)])
                                sites.append((f'{rel}:{cls}.{fn}:{a}', kind, node.lineno))
                    if not ok:
                        sites.append((f'{rel}:{cls}.{fn}:{nm}', 'Other', node.lineno))
            if rel == 'math.py' and isinstance(node, ast.Attribute) and node.attr in ('__dict__', '__setstate__'):
                sites.append((f'{rel}:{cls}.{fn}:{node.attr}', 'Other', node.lineno))
            if rel == 'math.py' and isinstance(node, ast.FunctionDef) and node.name == '__setstate__':
                sites.append((f'{rel}:{cls}.__setstate__', 'Other', node.lineno))
        if rel == 'math.py':
            # _IND_TO_SLOT must only name matrix cells
            found = False
            for n in tree.body:
                tgt = n.target if isinstance(n, ast.AnnAssign) else n.targets[0] if isinstance(n, ast.Assign) else None
                if isinstance(tgt, ast.Name) and tgt.id == '_IND_TO_SLOT':
                    found = True
                    if not isinstance(n.value, ast.Dict):
                        raise TranslateError('_IND_TO_SLOT is not a dict literal')
                    for v in n.value.values:
                        if not (isinstance(v, ast.Constant) and isinstance(v.value, str) and re.fullmatch(r'_[abc][abc]', v.value)):
                            raise TranslateError(f'_IND_TO_SLOT has a value that is not a matrix cell (line {v.lineno})')
            if not found:
                raise TranslateError('_IND_TO_SLOT not found')
    if not any(s[0].startswith('math.py:') for s in sites):
        raise TranslateError('no store to _pitch/_yaw/_roll found in math.py')
    return sites, info


# ---------------------------------------------------------------------------------------------- constructor dispatch
ARG_FORMS = ('FNumber', 'FSameClass', 'FOtherAngle', 'FVec', 'FFrozenVec', 'FIterable')
_LAST_CTOR_ROWS: list[tuple[str, str, str]] = []       # set by translate() before result_kinds() runs
_ALL_OBJECT_FORMS = {'FSameClass', 'FOtherAngle', 'FVec', 'FFrozenVec', 'FIterable'}


def _forms_of_class_name(name: str, own: str, in_new: bool, first: str) -> set[str] | None:
    """The argument forms (of ARG_FORMS) whose objects are instances of the class called `name`, seen from the
    constructor of class `own`; None when the name is not known."""
    bare = name[3:] if name.startswith('Py_') else name
    if in_new and name == first:
        return {'FSameClass'}
    if bare in ('int', 'float', 'bool', 'Real', 'Number', 'SupportsFloat'):
        return {'FNumber'}
    if bare == own:
        return {'FSameClass'}
    if bare in ('Angle', 'FrozenAngle'):
        return {'FOtherAngle'}
    if bare == 'AngleBase':
        return {'FSameClass', 'FOtherAngle'}
    if bare == 'VecBase':
        return {'FVec', 'FFrozenVec'}
    if bare == 'Vec':
        return {'FVec'}
    if bare == 'FrozenVec':
        return {'FFrozenVec'}
    if bare in ('Iterable', 'Iterator', 'Collection', 'Sequence'):
        return set(_ALL_OBJECT_FORMS) if bare == 'Iterable' else None
    if bare in ('str', 'bytes', 'MatrixBase', 'Matrix', 'FrozenMatrix', 'dict', 'NoneType'):
        return set()
    return None


def _form_test(t: ast.AST, form: str, param: str, own: str, in_new: bool, first: str) -> bool | None:
    """Value of a dispatch test for an argument of the given form (three-valued)."""
    if isinstance(t, ast.UnaryOp) and isinstance(t.op, ast.Not):
        v = _form_test(t.operand, form, param, own, in_new, first)
        return None if v is None else not v
    if isinstance(t, ast.BoolOp):
        vals = [_form_test(x, form, param, own, in_new, first) for x in t.values]
        if isinstance(t.op, ast.And):
            return False if any(v is False for v in vals) else None if any(v is None for v in vals) else True
        return True if any(v is True for v in vals) else None if any(v is None for v in vals) else False
    if isinstance(t, ast.Call) and isinstance(t.func, ast.Name) and t.func.id == 'isinstance' and len(t.args) == 2 and not t.keywords \
            and isinstance(t.args[0], ast.Name) and t.args[0].id == param:
        c = t.args[1]
        if isinstance(c, ast.Name) and c.id in _CONSTS:
            c = _CONSTS[c.id]
        names = c.elts if isinstance(c, ast.Tuple) else [c]
        acc: set[str] = set()
        for n in names:
            nm = n.id if isinstance(n, ast.Name) else n.attr if isinstance(n, ast.Attribute) else None
            fs = _forms_of_class_name(nm, own, in_new, first) if nm else None
            if fs is None:
                return None
            acc |= fs
        return form in acc
    return None


def angle_ctor_rows(tree: ast.Module) -> tuple[list[tuple[str, str, str]], dict]:
    """Angle.__init__ / FrozenAngle.__new__ run symbolically once per argument form (Num/AngleCtor.v): which branch the
    form takes and what that branch does - hands the argument back, or stores three values whose kinds are classified
    as for the store-site census (a slot copied unchanged counts as a copy only when it is read from the dispatched
    argument itself).  Anything not understood on the path of a form is AUnknown for that form (fail closed)."""
    _CONSTS.clear(); _CONSTS.update(_module_consts(tree))
    _HELPERS.clear(); _HELPERS.update(_single_return_helpers(tree))
    rows: list[tuple[str, str, str]] = []
    ctors: list[str] = []
    notes: dict[str, str] = {}
    for own in ('Angle', 'FrozenAngle'):
        cdef = next((c for c in tree.body if isinstance(c, ast.ClassDef) and c.name == own), None)
        if cdef is None:
            raise TranslateError(f'class {own} not found')
        defs = [f for f in cdef.body if isinstance(f, ast.FunctionDef) and f.name in ('__new__', '__init__') and not _is_stub(f)]
        cname = f'{own}.' + '+'.join(f.name for f in defs) if defs else f'{own}.<inherited constructor>'
        ctors.append(cname)
        if len(defs) != 1:
            rows += [(cname, fm, 'AUnknown') for fm in ARG_FORMS]
            notes[cname] = 'the class does not define exactly one of __new__ / __init__'
            continue
        fn = defs[0]
        in_new = fn.name == '__new__'
        params = [a.arg for a in fn.args.posonlyargs + fn.args.args]
        if len(params) < 2 or fn.args.vararg or fn.args.kwarg:
            rows += [(cname, fm, 'AUnknown') for fm in ARG_FORMS]
            notes[cname] = 'signature not understood'
            continue
        first, param = params[0], params[1]
        env = _single_bindings(fn)

        def kind_of(v: ast.AST) -> str:
            k = classify_rhs(v, env)
            if k == 'CopyFromAngle':
                w = v
                for _ in range(6):
                    if isinstance(w, ast.Name) and w.id in env:
                        w = env[w.id]
                if not (isinstance(w, ast.Attribute) and isinstance(w.value, ast.Name) and w.value.id == param):
                    return 'Other'          # a slot of some other object: nothing is known about it here
            return k

        def run(stmts: list[ast.stmt], form: str, obj: str | None, st: dict[str, str]):
            """-> (action or None for fall-through, obj, stores)"""
            for s_ in _nodoc(stmts):
                if isinstance(s_, ast.If):
                    v = _form_test(s_.test, form, param, own, in_new, first)
                    if v is None:
                        return 'AUnknown', obj, st
                    act, obj, st = run(s_.body if v else s_.orelse, form, obj, st)
                    if act is not None:
                        return act, obj, st
                    continue
                if isinstance(s_, ast.Return):
                    if s_.value is None or (isinstance(s_.value, ast.Constant) and s_.value.value is None):
                        return (('AStores', st) if not in_new else 'AUnknown'), obj, st
                    if in_new and isinstance(s_.value, ast.Name):
                        if s_.value.id == param:
                            return 'AReturnArg', obj, st
                        if s_.value.id == obj:
                            return ('AStores', st), obj, st
                    return 'AUnknown', obj, st
                if isinstance(s_, (ast.Assign, ast.AnnAssign)):
                    if isinstance(s_, ast.AnnAssign) and s_.value is None:
                        continue
                    tg = s_.targets if isinstance(s_, ast.Assign) else [s_.target]
                    if len(tg) != 1:
                        return 'AUnknown', obj, st
                    t = tg[0]
                    pairs: list[tuple[ast.AST, ast.AST]] = []
                    if isinstance(t, (ast.Tuple, ast.List)):
                        if isinstance(s_.value, (ast.Tuple, ast.List)) and len(s_.value.elts) == len(t.elts) \
                                and not any(isinstance(e, ast.Starred) for e in t.elts + s_.value.elts):
                            pairs = list(zip(t.elts, s_.value.elts))
                        elif all(isinstance(e, ast.Name) and e.id not in (param, obj, first) for e in t.elts):
                            continue            # unpacking into plain locals
                        else:
                            return 'AUnknown', obj, st
                    else:
                        pairs = [(t, s_.value)]
                    st = dict(st)
                    for tt, vv in pairs:
                        if isinstance(tt, ast.Name):
                            if tt.id in (param, first):
                                return 'AUnknown', obj, st          # the dispatched argument is rebound
                            if isinstance(vv, ast.Call) and isinstance(vv.func, ast.Attribute) and vv.func.attr == '__new__':
                                if obj is not None or not in_new:
                                    return 'AUnknown', obj, st
                                obj = tt.id
                            elif tt.id == obj:
                                return 'AUnknown', obj, st
                            continue
                        if isinstance(tt, ast.Attribute) and isinstance(tt.value, ast.Name) and tt.value.id == obj and tt.attr in FIELDS:
                            st[tt.attr] = kind_of(vv)
                            continue
                        return 'AUnknown', obj, st
                    continue
                if isinstance(s_, ast.Pass):
                    continue
                return 'AUnknown', obj, st                      # loops, try, with, raise, calls as statements, nested defs ...
            return None, obj, st

        for fm in ARG_FORMS:
            act, _, st = run(fn.body, fm, None if in_new else first, {})
            if act is None:
                act = ('AStores', st) if not in_new else 'AUnknown'
            if isinstance(act, tuple):
                st = act[1]
                act = f'(AStores {st["_pitch"]} {st["_yaw"]} {st["_roll"]})' if all(f in st for f in FIELDS) else 'AUnknown'
            rows.append((cname, fm, act))
    return rows, {'angle_ctor_notes': notes, 'angle_ctors': ctors}


# ---------------------------------------------------------------------------------------------- angle creations
ANGLE_CTORS = {'Angle', 'Py_Angle', 'FrozenAngle', 'Py_FrozenAngle'}
ANGLE_CLASSES = ('AngleBase', 'Angle', 'FrozenAngle')
SLOT_OF_PROP = {'pitch': '_pitch', 'yaw': '_yaw', 'roll': '_roll'}


def _stored_slot(t: ast.AST, name: str, setters: set[str]) -> str | None:
    """`name._pitch = ...` or (through a property setter of Angle that stores the slot) `name.pitch = ...`."""
    if isinstance(t, ast.Attribute) and isinstance(t.value, ast.Name) and t.value.id == name:
        if t.attr in FIELDS:
            return t.attr
        if t.attr in setters:
            return SLOT_OF_PROP[t.attr]
    return None


def must_store(stmts: list[ast.stmt], name: str, setters: set[str], have: frozenset[str], exits: list[tuple[ast.AST | None, frozenset[str]]]):
    """Slots of `name` definitely stored on every path through stmts.  Returns the set at fall-through or None when
    every path leaves; every `return e` is appended to exits as (e, set).  Stores inside loops / try / with bodies do not
    count (they may not execute); a `raise` ends its path."""
    def fills(e: ast.AST | None) -> bool:
        """`<matrix>._to_angle(name)`: stores all three slots of its argument on every path (that fact is the separate
        obligation to_angle_stores_all_slots) and returns it"""
        return isinstance(e, ast.Call) and isinstance(e.func, ast.Attribute) and e.func.attr == '_to_angle' and len(e.args) == 1 \
            and not e.keywords and isinstance(e.args[0], ast.Name) and e.args[0].id == name
    for st in stmts:
        if isinstance(st, ast.Return):
            if fills(st.value):
                exits.append((st.value.args[0], have | frozenset(FIELDS)))
            else:
                exits.append((st.value, have))
            return None
        if isinstance(st, ast.Raise):
            return None
        if isinstance(st, ast.Expr) and fills(st.value):
            have = have | frozenset(FIELDS)
            continue
        if isinstance(st, ast.If):
            a = must_store(st.body, name, setters, have, exits)
            b = must_store(st.orelse, name, setters, have, exits)
            if a is None and b is None:
                return None
            have = b if a is None else a if b is None else (a & b)
            continue
        if isinstance(st, (ast.Assign, ast.AnnAssign)):
            for t in _targets(st):
                sl = _stored_slot(t, name, setters)
                if sl:
                    have = have | {sl}
                if isinstance(t, ast.Name) and t.id == name and have:
                    have = frozenset()           # the name is rebound: earlier stores went to another object
            continue
        if isinstance(st, (ast.For, ast.While, ast.Try, ast.With, ast.AsyncFor, ast.AsyncWith, ast.Match)):
            sub: list = []
            for f in ('body', 'orelse', 'finalbody'):
                must_store(getattr(st, f, []) or [], name, setters, have, sub)
            for h in getattr(st, 'handlers', []):
                must_store(h.body, name, setters, have, sub)
            for c in getattr(st, 'cases', []):
                must_store(c.body, name, setters, have, sub)
            exits.extend(sub)
            continue
    return have


def _all_functions(tree: ast.Module):
    """(class name or None, function node) for every function of math.py, nested ones included."""
    def walk(node, cls):
        for ch in ast.iter_child_nodes(node):
            if isinstance(ch, ast.ClassDef):
                yield from walk(ch, ch.name)
            elif isinstance(ch, (ast.FunctionDef, ast.AsyncFunctionDef)):
                yield cls, ch
                yield from walk(ch, cls)
            else:
                yield from walk(ch, cls)
    yield from walk(tree, None)


def _own_nodes(fn: ast.AST):
    """Nodes of a function body, not descending into nested functions/classes."""
    stack = list(ast.iter_child_nodes(fn))
    while stack:
        n = stack.pop()
        yield n
        if not isinstance(n, (ast.FunctionDef, ast.AsyncFunctionDef, ast.ClassDef, ast.Lambda)):
            stack.extend(ast.iter_child_nodes(n))


def angle_creations(tree: ast.Module) -> tuple[list[tuple[str, str, int]], dict]:
    """Every expression of math.py that creates an Angle/FrozenAngle object, classified:
         ViaCtor     Angle(...)/FrozenAngle(...)/cls(...)/type(self)(...): slots are written by the constructor's store sites
         RawToAngle  X.__new__(X) handed directly to MatrixBase._to_angle(), which stores all three slots on every path
         RawStored   X.__new__(X) bound to a local name whose three slots are stored on every path to `return name`
         CreateOther anything else (an uninitialised or partly initialised angle may escape)
       plus the facts `_to_angle` / `Angle.__init__` / `FrozenAngle.__new__` store all three slots on every path."""
    out: list[tuple[str, str, int]] = []
    info: dict = {}
    ang = next((c for c in tree.body if isinstance(c, ast.ClassDef) and c.name == 'Angle'), None)
    if ang is None:
        raise TranslateError('class Angle not found')
    # property setters of Angle that store exactly their own slot
    setters: set[str] = set()
    for f in ang.body:
        if isinstance(f, ast.FunctionDef) and any(isinstance(d, ast.Attribute) and d.attr == 'setter' for d in f.decorator_list):
            stores = [t.attr for n in ast.walk(f) for t in _targets(n) if isinstance(t, ast.Attribute) and t.attr in FIELDS]
            if f.name in SLOT_OF_PROP and stores == [SLOT_OF_PROP[f.name]]:
                setters.add(f.name)
    info['angle_property_setters'] = sorted(setters)

    OTHER_CTORS = MUTABLE_CTORS | FROZEN_CTORS | {'VecBase', 'MatrixBase', 'Py_VecBase', 'Py_MatrixBase'}

    def class_is_angle(c: ast.AST, cls: str | None, fn: ast.AST, depth: int = 0) -> bool:
        """Can the class expression of an `X.__new__(C)` call denote an angle class?  False only when it provably denotes
        a vector/matrix class; anything not understood counts as an angle class (the creation is then listed and must be
        completely initialised)."""
        params = [a.arg for a in fn.args.posonlyargs + fn.args.args + fn.args.kwonlyargs] if isinstance(fn, (ast.FunctionDef, ast.AsyncFunctionDef)) else []
        first = params[0] if params else None
        in_angle = cls in ANGLE_CLASSES
        if isinstance(c, ast.Name):
            if c.id in ANGLE_CTORS or c.id in ('AngleBase', 'Py_AngleBase'):
                return True
            if c.id in OTHER_CTORS:
                return False
            env = _single_bindings(fn)
            if c.id in env and depth < 4:
                return class_is_angle(env[c.id], cls, fn, depth + 1)      # `cls = type(self)` / `cls = type(other)`
            if c.id == first and cls is not None and (c.id == 'cls' or (isinstance(fn, ast.FunctionDef) and (_is_classmethod(fn) or fn.name == '__new__'))):
                return in_angle                                           # the class the method was called on
            return True
        if isinstance(c, ast.Call) and isinstance(c.func, ast.Name) and c.func.id == 'type' and len(c.args) == 1 \
                and isinstance(c.args[0], ast.Name) and c.args[0].id == first and cls is not None \
                and isinstance(fn, ast.FunctionDef) and not _is_classmethod(fn) and fn.name != '__new__':
            return in_angle                                               # type(self)
        if isinstance(c, ast.Attribute) and c.attr == '__class__' and isinstance(c.value, ast.Name) and c.value.id == first and cls is not None \
                and isinstance(fn, ast.FunctionDef) and not _is_classmethod(fn) and fn.name != '__new__':
            return in_angle                                               # self.__class__
        return True

    def is_raw_new(e: ast.AST, cls: str | None, fn: ast.AST) -> bool:
        """X.__new__(C) / object.__new__(C) / super().__new__(C) where C may be an angle class"""
        if not (isinstance(e, ast.Call) and isinstance(e.func, ast.Attribute) and e.func.attr == '__new__'):
            return False
        if len(e.args) >= 1 and not isinstance(e.args[0], ast.Starred):
            return class_is_angle(e.args[0], cls, fn)
        return True

    def is_ctor(e: ast.AST, cls: str | None) -> bool:
        if not isinstance(e, ast.Call):
            return False
        f = e.func
        if isinstance(f, ast.Name):
            return f.id in ANGLE_CTORS or (f.id == 'cls' and cls in ANGLE_CLASSES)
        if isinstance(f, ast.Call) and isinstance(f.func, ast.Name) and f.func.id == 'type' and cls in ANGLE_CLASSES:
            return True
        return False

    complete: dict[str, bool] = {}
    for cls, fn in _all_functions(tree):
        where = f'{cls}.{fn.name}' if cls else fn.name
        # the initialisers themselves
        target = None
        if (cls, fn.name) == ('MatrixBase', '_to_angle'):
            target = fn.args.args[1].arg if len(fn.args.args) > 1 else None
        elif (cls, fn.name) == ('Angle', '__init__'):
            target = fn.args.args[0].arg
        if target is not None:
            exits: list = []
            fall = must_store(fn.body, target, setters, frozenset(), exits)
            sets = [h for e, h in exits if e is None or (isinstance(e, ast.Name) and e.id == target)]
            if fall is not None:
                sets.append(fall)
            complete[where] = bool(sets) and all(h >= set(FIELDS) for h in sets)
        raw_used: set[int] = set()
        parent: dict[int, ast.AST] = {}
        for n in _own_nodes(fn):
            for ch in ast.iter_child_nodes(n):
                parent[id(ch)] = n
        for n in _own_nodes(fn):
            if is_ctor(n, cls):
                out.append((where, 'ViaCtor', n.lineno))
            elif is_raw_new(n, cls, fn):
                par = parent.get(id(n))
                kind = 'CreateOther'
                if isinstance(par, ast.Call) and isinstance(par.func, ast.Attribute) and par.func.attr == '_to_angle' \
                        and par.args and par.args[0] is n:
                    kind = 'RawToAngle'
                elif isinstance(par, ast.Assign) and len(par.targets) == 1 and isinstance(par.targets[0], ast.Name) and par.value is n:
                    nm = par.targets[0].id
                    exits = []
                    fall = must_store(fn.body, nm, setters, frozenset(), exits)
                    rets = [h for e, h in exits if isinstance(e, ast.Name) and e.id == nm]
                    # the object may only leave through `return name`; any other use of the name (argument, store
                    # elsewhere) besides attribute stores on it is not understood
                    uses = [u for u in _own_nodes(fn) if isinstance(u, ast.Name) and u.id == nm and isinstance(u.ctx, ast.Load)]
                    def use_ok(u: ast.AST) -> bool:
                        pu = parent.get(id(u))
                        if isinstance(pu, (ast.Attribute, ast.Return)):
                            return True
                        # handed to _to_angle as a statement of its own or in a return (it fills and returns its argument)
                        return isinstance(pu, ast.Call) and isinstance(pu.func, ast.Attribute) and pu.func.attr == '_to_angle' \
                            and len(pu.args) == 1 and pu.args[0] is u and isinstance(parent.get(id(pu)), (ast.Expr, ast.Return))
                    ok_uses = all(use_ok(u) for u in uses)
                    if rets and all(h >= set(FIELDS) for h in rets) and ok_uses and fall is None:
                        kind = 'RawStored'
                out.append((where, kind, n.lineno))
    for need in ('MatrixBase._to_angle', 'Angle.__init__'):
        if need not in complete:
            raise TranslateError(f'{need} not found')
    info['stores_all_slots_on_every_path'] = complete
    if not out:
        raise TranslateError('no expression creating an Angle found in math.py')
    return out, info


# ---------------------------------------------------------------------------------------------- format_float
def format_cfg(tree: ast.Module) -> dict:
    """The pipeline shape, or - when format_float is written in a way this translator does not know - a configuration
    marked `recognised: False` (all flags off), so that the named obligation `format_float_pipeline_recognised` fails
    while the other generated objects are still checked."""
    try:
        cfg = _format_cfg(tree)
        cfg['recognised'] = True
        cfg['reason'] = ''
        return cfg
    except TranslateError as e:
        fn = next((n for n in tree.body if isinstance(n, ast.FunctionDef) and n.name == 'format_float'), None)
        return {'places': 0, 'adds_zero': False, 'strips': False, 'neg_zero_fix': False, 'recognised': False,
                'reason': str(e), 'digest': ast_digest(fn) if fn is not None else ''}


def _paths(stmts: list[ast.stmt], states: list[tuple[dict[str, ast.AST], tuple]], out: list, what: str) -> list[tuple[dict[str, ast.AST], tuple]]:
    """Symbolic execution of straight-line code with if/else and conditional expressions: every way to reach a
    `return` is appended to out as (conditions, returned expression), both written over the parameters only (locals
    substituted by their values).  Returns the (environment, conditions) states that fall through the statements."""
    for st in stmts:
        if not states:
            break
        if (isinstance(st, ast.Expr) and isinstance(st.value, ast.Constant)) or isinstance(st, ast.Pass):
            continue
        nxt: list[tuple[dict[str, ast.AST], tuple]] = []
        for env, conds in states:
            if isinstance(st, (ast.Assign, ast.AnnAssign)) and st.value is not None:
                tg = st.targets if isinstance(st, ast.Assign) else [st.target]
                if len(tg) != 1 or not isinstance(tg[0], ast.Name):
                    raise TranslateError(f'{what}: assignment target not a plain name (line {st.lineno})')
                nxt.append(({**env, tg[0].id: _subst(st.value, env)}, conds))
            elif isinstance(st, ast.Return):
                if st.value is None:
                    raise TranslateError(f'{what}: bare return (line {st.lineno})')
                _ret(_subst(st.value, env), conds, out)
            elif isinstance(st, ast.If):
                t = _subst(st.test, env)
                nxt += _paths(st.body, [(env, conds + ((t, True),))], out, what)
                nxt += _paths(st.orelse, [(env, conds + ((t, False),))], out, what)
            else:
                raise TranslateError(f'{what}: statement not understood (line {st.lineno})')
        states = nxt
    return states


def _ret(e: ast.AST, conds: tuple, out: list) -> None:
    if isinstance(e, ast.IfExp):
        _ret(e.body, conds + ((e.test, True),), out)
        _ret(e.orelse, conds + ((e.test, False),), out)
    else:
        out.append((conds, e))


def _norm_cond(t: ast.AST, pol: bool) -> tuple[str, bool]:
    """(text of the positive form, polarity): `not c`, `a not in b`, `a != b` and `'lit' == v` are normalised."""
    while isinstance(t, ast.UnaryOp) and isinstance(t.op, ast.Not):
        t, pol = t.operand, not pol
    if isinstance(t, ast.Compare) and len(t.ops) == 1:
        l, r, o = t.left, t.comparators[0], t.ops[0]
        if isinstance(o, ast.NotIn):
            o, pol = ast.In(), not pol
        if isinstance(o, ast.NotEq):
            o, pol = ast.Eq(), not pol
        if isinstance(o, ast.Eq) and isinstance(l, ast.Constant) and not isinstance(r, ast.Constant):
            l, r = r, l
        t = ast.Compare(left=l, ops=[o], comparators=[r])
    return ast.unparse(t), pol


def _format_cfg(tree: ast.Module) -> dict:
    """format_float read semantically: all return paths of the function, written over (x, places), must be exactly the
    paths of  B = '%.{places}f' % (x [+ 0.0]);  [if '.' in B: B.rstrip('0').rstrip('.')];  ['0' if that == '-0'] -
    whatever the spelling (early returns, conditional expressions, renamed or extra locals, format()/f-string/%)."""
    fn = next((n for n in tree.body if isinstance(n, ast.FunctionDef) and n.name == 'format_float'), None)
    if fn is None:
        raise TranslateError('format_float not found')
    consts = _module_consts(tree)
    args = fn.args
    dflt = args.defaults[0] if len(args.defaults) == 1 else None
    if isinstance(dflt, ast.Name):
        dflt = consts.get(dflt.id, dflt)
    if [a.arg for a in args.args] != ['x', 'places'] or args.vararg or args.kwarg or args.kwonlyargs \
            or not isinstance(dflt, ast.Constant) or type(dflt.value) is not int:
        raise TranslateError('format_float: signature not (x, places=<int>)')
    cfg = {'places': dflt.value, 'adds_zero': None, 'strips': False, 'neg_zero_fix': False, 'digest': ast_digest(fn)}
    out: list = []
    if _paths(fn.body, [({}, ())], out, 'format_float'):
        raise TranslateError('format_float: a path ends without return')
    paths = {(frozenset(_norm_cond(t, p) for t, p in conds), ast.unparse(e)) for conds, e in out}
    for cs, _ in paths:
        if len({c for c, _ in cs}) != len(cs):
            raise TranslateError('format_float: contradictory conditions on a path')

    def base_of(e: ast.AST) -> ast.AST | None:
        """the formatted number in one of the spellings of '%.{places}f': returns the formatted operand"""
        spec_ok = lambda sp: isinstance(sp, ast.JoinedStr) and ast.unparse(sp) == "f'.{places}f'"
        if isinstance(e, ast.JoinedStr) and len(e.values) == 1 and isinstance(e.values[0], ast.FormattedValue) \
                and e.values[0].conversion == -1 and e.values[0].format_spec is not None and spec_ok(e.values[0].format_spec):
            return e.values[0].value
        if isinstance(e, ast.Call) and isinstance(e.func, ast.Name) and e.func.id == 'format' and len(e.args) == 2 and not e.keywords and spec_ok(e.args[1]):
            return e.args[0]
        if isinstance(e, ast.BinOp) and isinstance(e.op, ast.Mod) and isinstance(e.left, ast.Constant) and e.left.value == '%.*f' \
                and isinstance(e.right, ast.Tuple) and len(e.right.elts) == 2 and ast.unparse(e.right.elts[0]) == 'places':
            return e.right.elts[1]
        if isinstance(e, ast.Call) and isinstance(e.func, ast.Attribute) and e.func.attr == 'format' and isinstance(e.func.value, ast.Constant) \
                and e.func.value.value == '{:.{}f}' and len(e.args) == 2 and not e.keywords and ast.unparse(e.args[1]) == 'places':
            return e.args[0]
        return None

    # find B: the smallest returned expression, after peeling the strip calls, that is a formatted number
    B = None
    for _, e in out:
        cand = e
        while isinstance(cand, ast.Call) and isinstance(cand.func, ast.Attribute) and cand.func.attr == 'rstrip':
            cand = cand.func.value
        if base_of(cand) is not None:
            B = cand
            break
    if B is None:
        raise TranslateError('format_float: no path returns the number formatted with `.{places}f`')
    operand = ast.unparse(base_of(B)).replace(' ', '')
    if operand == 'x':
        cfg['adds_zero'] = False
    elif operand in ('x+0.0', '0.0+x', 'x+0', '0+x'):
        cfg['adds_zero'] = True
    else:
        raise TranslateError(f'format_float: formatted expression `{operand}` not recognised')
    def over(template: str, **holes: ast.AST) -> str:
        return ast.unparse(_subst(ast.parse(template, mode='eval').body, holes))
    b = ast.unparse(B)
    S = _subst(ast.parse("_B_.rstrip('0').rstrip('.')", mode='eval').body, {'_B_': B})
    s_ = ast.unparse(S)
    dot = lambda pol: (over("'.' in _B_", _B_=B), pol)
    eq = lambda v, pol: (over("_V_ == '-0'", _V_=(B if v == b else S)), pol)
    zero = "'0'"
    shapes = {
        (False, False): {(frozenset(), b)},
        (True, False): {(frozenset({dot(True)}), s_), (frozenset({dot(False)}), b)},
        (False, True): {(frozenset({eq(b, True)}), zero), (frozenset({eq(b, False)}), b)},
        (True, True): {(frozenset({dot(True), eq(s_, True)}), zero), (frozenset({dot(True), eq(s_, False)}), s_),
                       (frozenset({dot(False), eq(b, True)}), zero), (frozenset({dot(False), eq(b, False)}), b)},
    }
    for (strips, fix), want in shapes.items():
        if paths == want:
            cfg['strips'], cfg['neg_zero_fix'] = strips, fix
            return cfg
    raise TranslateError('format_float: the return paths are not those of format / strip zeros / repair "-0": '
                         + '; '.join(sorted(f'{sorted(c)} -> {e}' for c, e in paths))[:600])


class _StrUnk(Exception):
    """the text a string method builds is not understood"""


STR_METHODS = (('VecBase', '__str__'), ('VecBase', 'join'), ('AngleBase', '__str__'), ('AngleBase', 'join'),
               ('Vec', '__repr__'), ('FrozenVec', '__repr__'), ('Angle', '__repr__'), ('FrozenAngle', '__repr__'))


def str_templates(tree: ast.Module) -> dict:
    """__str__ / join / __repr__ of the vector and angle classes, read semantically: the returned text is evaluated to a
    list of pieces  ['lit', text] | ['num', slot] (format_float with default places of that slot of self) |
    ['delim', ''] (the delimiter parameter)  - whatever the spelling: f-string, concatenation, `sep.join([...])`,
    `sep.join(map(format_float, (...)))`, a comprehension over a literal tuple, locals, properties that return the slot,
    `self.join(' ')` / `str(self)` inlined.  A method that is not understood yields [['unknown', reason]] (the obligation
    str_and_join_use_format_float then fails; nothing else is affected)."""
    classes = {c.name: c for c in tree.body if isinstance(c, ast.ClassDef)}

    def mro(cls: str) -> list[str]:
        return [cls] + ([CONCRETE[cls]] if cls in CONCRETE else [])

    def find(cls: str, name: str, want_property: bool) -> ast.FunctionDef | None:
        for cn in mro(cls):
            c = classes.get(cn)
            hit = None
            for f in (c.body if c else []):
                if isinstance(f, ast.FunctionDef) and f.name == name and not _is_stub(f):
                    decs = [d.id if isinstance(d, ast.Name) else d.attr if isinstance(d, ast.Attribute) else '' for d in f.decorator_list]
                    if want_property == ('property' in decs) and 'setter' not in decs:
                        hit = f
            if hit is not None:
                return hit
        return None

    def slot_of(e: ast.AST, cls: str, me: str) -> str | None:
        """self._x, or self.x when x is a property whose getter is `return self._x`"""
        if not (isinstance(e, ast.Attribute) and isinstance(e.value, ast.Name) and e.value.id == me):
            return None
        fam = FAMILY_SLOTS[CONCRETE.get(cls, cls)] if CONCRETE.get(cls, cls) in FAMILY_SLOTS else ()
        if e.attr in fam:
            return e.attr
        g = find(cls, e.attr, True)
        if g is not None:
            body = _nodoc(g.body)
            gm = g.args.args[0].arg if g.args.args else None
            if len(body) == 1 and isinstance(body[0], ast.Return) and isinstance(body[0].value, ast.Attribute) \
                    and isinstance(body[0].value.value, ast.Name) and body[0].value.value.id == gm and body[0].value.attr in fam:
                return body[0].value.attr
        return None

    def elements(e: ast.AST, env: dict, cls: str, me: str, depth: int) -> list[list]:
        """the strings of an iterable handed to str.join"""
        if isinstance(e, (ast.List, ast.Tuple)):
            return [ev(x, env, cls, me, depth) for x in e.elts]
        if isinstance(e, ast.Call) and isinstance(e.func, ast.Name) and e.func.id == 'map' and len(e.args) == 2 and not e.keywords \
                and isinstance(e.args[1], (ast.Tuple, ast.List)):
            return [ev(ast.Call(func=e.args[0], args=[x], keywords=[]), env, cls, me, depth) for x in e.args[1].elts]
        if isinstance(e, (ast.ListComp, ast.GeneratorExp)) and len(e.generators) == 1:
            g = e.generators[0]
            if isinstance(g.target, ast.Name) and not g.ifs and not g.is_async and isinstance(g.iter, (ast.Tuple, ast.List)) and g.target.id not in env:
                return [ev(_subst(e.elt, {g.target.id: x}), env, cls, me, depth) for x in g.iter.elts]
        raise _StrUnk(f'iterable handed to join() not understood (line {e.lineno})')

    def run(cls: str, name: str, args: list[list] | None, depth: int) -> list:
        if depth > 4:
            raise _StrUnk('call depth')
        f = find(cls, name, False)
        if f is None:
            raise _StrUnk(f'{cls}.{name} not found')
        a = f.args
        if a.vararg or a.kwarg or a.kwonlyargs or a.posonlyargs or not a.args:
            raise _StrUnk(f'{cls}.{name}: signature')
        me, params = a.args[0].arg, [x.arg for x in a.args[1:]]
        env: dict[str, list] = {}
        defaults = dict(zip(params[len(params) - len(a.defaults):], a.defaults))
        for i, pn in enumerate(params):
            if args is None:
                env[pn] = [['delim', '']] if (name == 'join' and i == 0) else None
            elif i < len(args):
                env[pn] = args[i]
            elif pn in defaults and isinstance(defaults[pn], ast.Constant) and isinstance(defaults[pn].value, str):
                env[pn] = [['lit', defaults[pn].value]]
            else:
                raise _StrUnk(f'{cls}.{name}: argument {pn}')
        body = _nodoc(f.body)
        for st in body[:-1]:
            if isinstance(st, ast.Assign) and len(st.targets) == 1 and isinstance(st.targets[0], ast.Name):
                env[st.targets[0].id] = ev(st.value, env, cls, me, depth)
            elif isinstance(st, ast.Assign) and len(st.targets) == 1 and isinstance(st.targets[0], (ast.Tuple, ast.List)) \
                    and isinstance(st.value, (ast.Tuple, ast.List)) and len(st.value.elts) == len(st.targets[0].elts) \
                    and all(isinstance(t, ast.Name) for t in st.targets[0].elts):
                vals = [ev(x, env, cls, me, depth) for x in st.value.elts]
                for t, v in zip(st.targets[0].elts, vals):
                    env[t.id] = v
            else:
                raise _StrUnk(f'{cls}.{name}: statement not understood (line {st.lineno})')
        if not body or not isinstance(body[-1], ast.Return) or body[-1].value is None:
            raise _StrUnk(f'{cls}.{name}: does not end in `return <text>`')
        return ev(body[-1].value, env, cls, me, depth)

    def ev(e: ast.AST, env: dict, cls: str, me: str, depth: int) -> list:
        if isinstance(e, ast.Constant) and isinstance(e.value, str):
            return [['lit', e.value]] if e.value else []
        if isinstance(e, ast.Name):
            if env.get(e.id) is not None:
                return env[e.id]
            raise _StrUnk(f'name {e.id} (line {e.lineno})')
        if isinstance(e, ast.JoinedStr):
            out: list = []
            for v in e.values:
                if isinstance(v, ast.Constant):
                    out += ev(v, env, cls, me, depth)
                elif isinstance(v, ast.FormattedValue) and v.format_spec is None and v.conversion in (-1, 115):
                    out += ev(v.value, env, cls, me, depth)
                else:
                    raise _StrUnk(f'f-string piece with a format spec or conversion (line {e.lineno})')
            return out
        if isinstance(e, ast.BinOp) and isinstance(e.op, ast.Add):
            return ev(e.left, env, cls, me, depth) + ev(e.right, env, cls, me, depth)
        if isinstance(e, ast.Call) and not any(isinstance(x, ast.Starred) for x in e.args):
            f = e.func
            if isinstance(f, ast.Name) and f.id == 'format_float' and f.id not in env:
                if len(e.args) == 1 and not e.keywords:
                    sl = slot_of(e.args[0], cls, me)
                    if sl is not None:
                        return [['num', sl]]
                raise _StrUnk(f'`{ast.unparse(e)}` is not format_float(<slot of self>) with the default places (line {e.lineno})')
            if isinstance(f, ast.Name) and f.id == 'str' and len(e.args) == 1 and not e.keywords and isinstance(e.args[0], ast.Name) and e.args[0].id == me:
                return run(cls, '__str__', [], depth + 1)
            if isinstance(f, ast.Attribute) and isinstance(f.value, ast.Name) and f.value.id == me and f.attr in ('join', '__str__') and not e.keywords:
                return run(cls, f.attr, [ev(x, env, cls, me, depth) for x in e.args], depth + 1)
            if isinstance(f, ast.Attribute) and f.attr == 'join' and len(e.args) == 1 and not e.keywords:
                sep = ev(f.value, env, cls, me, depth)
                out = []
                for i, x in enumerate(elements(e.args[0], env, cls, me, depth)):
                    out += (sep if i else []) + x
                return out
        raise _StrUnk(f'`{ast.unparse(e)[:60]}` not understood (line {getattr(e, "lineno", 0)})')

    def merged(p: list) -> list:
        out: list = []
        for k, v in p:
            if k == 'lit' and out and out[-1][0] == 'lit':
                out[-1] = ['lit', out[-1][1] + v]
            else:
                out.append([k, v])
        return out

    res = {}
    for cls, name in STR_METHODS:
        if cls not in classes:
            raise TranslateError(f'class {cls} not found in math.py')
        try:
            res[f'{cls}.{name}'] = merged(run(cls, name, None, 0))
        except _StrUnk as ex:
            res[f'{cls}.{name}'] = [['unknown', str(ex)]]
    return res


# ---------------------------------------------------------------------------------------------- semantic helpers
def _nodoc(body: list[ast.stmt]) -> list[ast.stmt]:
    return [s for s in body if not (isinstance(s, ast.Expr) and isinstance(s.value, ast.Constant) and isinstance(s.value.value, str))]


def _module_consts(tree: ast.Module) -> dict[str, ast.AST]:
    """Module-level names bound exactly once to a literal (string, number, tuple/set/list/frozenset of literals)."""
    count: dict[str, int] = {}
    val: dict[str, ast.AST] = {}
    for n in tree.body:
        for t in _targets(n):
            if isinstance(t, ast.Name):
                count[t.id] = count.get(t.id, 0) + 1
                v = n.value if isinstance(n, (ast.Assign, ast.AnnAssign)) else None
                if v is not None and (isinstance(n, ast.AnnAssign) or (len(n.targets) == 1 and n.targets[0] is t)):
                    val[t.id] = v
    def lit(v: ast.AST) -> bool:
        if isinstance(v, ast.Constant):
            return True
        if isinstance(v, (ast.Tuple, ast.Set, ast.List)):
            return all(lit(e) for e in v.elts)
        if isinstance(v, ast.Call) and isinstance(v.func, ast.Name) and v.func.id in ('frozenset', 'set', 'tuple') and len(v.args) == 1 and not v.keywords:
            return lit(v.args[0])
        return False
    return {k: v for k, v in val.items() if count[k] == 1 and lit(v)}


class _Subst(ast.NodeTransformer):
    def __init__(self, env: dict[str, ast.AST]):
        self.env = env

    def visit_Name(self, node: ast.Name):
        if isinstance(node.ctx, ast.Load) and node.id in self.env:
            return self.env[node.id]
        return node


def _subst(e: ast.AST, env: dict[str, ast.AST]) -> ast.AST:
    """e with every loaded name of env replaced by its (already substituted) value."""
    import copy as _copy
    return _Subst(env).visit(_copy.deepcopy(e)) if env else e


def _always_leaves(stmts: list[ast.stmt]) -> bool:
    return bool(stmts) and isinstance(stmts[-1], (ast.Return, ast.Raise))


def _merge_trys(stmts: list[ast.stmt]) -> list[ast.stmt]:
    """`try: A except E: H` directly followed by `try: B except E: H` is `try: A; B except E: H` when every handler body
    ends in return/raise (a handler that fell through would go on to run B) and there is no else/finally."""
    out: list[ast.stmt] = []
    for st in stmts:
        prev = out[-1] if out else None
        if (isinstance(st, ast.Try) and isinstance(prev, ast.Try)
                and not (st.orelse or st.finalbody or prev.orelse or prev.finalbody)
                and [ast.dump(h) for h in st.handlers] == [ast.dump(h) for h in prev.handlers]
                and st.handlers and all(_always_leaves(h.body) for h in st.handlers)):
            out[-1] = ast.Try(body=prev.body + st.body, handlers=prev.handlers, orelse=[], finalbody=[])
            ast.copy_location(out[-1], prev)
        else:
            out.append(st)
    return out


def _bind_args(call: ast.Call, params: list[str]) -> list[ast.AST] | None:
    """Arguments of a call by parameter position (positional and keyword forms are the same call), or None."""
    if any(isinstance(a, ast.Starred) for a in call.args) or any(k.arg is None for k in call.keywords) or len(call.args) > len(params):
        return None
    got: dict[str, ast.AST] = dict(zip(params, call.args))
    for k in call.keywords:
        if k.arg not in params or k.arg in got:
            return None
        got[k.arg] = k.value
    return [got[p] for p in params] if len(got) == len(params) else None


def _chars_of(e: ast.AST, consts: dict[str, ast.AST]) -> str | None:
    """The set of single characters denoted by a literal used on the right of `in` / in startswith(): a string constant
    (character membership), a tuple/set/list/frozenset of one-character strings, or a module constant bound to one."""
    if isinstance(e, ast.Name) and e.id in consts:
        e = consts[e.id]
    if isinstance(e, ast.Call) and isinstance(e.func, ast.Name) and e.func.id in ('frozenset', 'set', 'tuple') and len(e.args) == 1:
        return _chars_of(e.args[0], consts)
    if isinstance(e, ast.Constant) and isinstance(e.value, str):
        return e.value
    if isinstance(e, (ast.Tuple, ast.Set, ast.List)) and all(isinstance(x, ast.Constant) and isinstance(x.value, str) and len(x.value) == 1 for x in e.elts):
        return ''.join(x.value for x in e.elts)
    return None


# ---------------------------------------------------------------------------------------------- parse_vec_str / from_str
def _type_test(t: ast.AST, v: str, kind: str) -> bool | None:
    """Value of a test of the type dispatch for an argument of abstract kind str / VecBase / AngleBase / other;
    None when the test is not about the type of the argument."""
    if isinstance(t, ast.UnaryOp) and isinstance(t.op, ast.Not):
        r = _type_test(t.operand, v, kind)
        return None if r is None else not r
    if isinstance(t, ast.BoolOp):
        rs = [_type_test(x, v, kind) for x in t.values]
        if any(r is None for r in rs):
            return None
        return all(rs) if isinstance(t.op, ast.And) else any(rs)
    if isinstance(t, ast.Call) and isinstance(t.func, ast.Name) and t.func.id == 'isinstance' and len(t.args) == 2 and not t.keywords \
            and isinstance(t.args[0], ast.Name) and t.args[0].id == v:
        c = t.args[1]
        names = c.elts if isinstance(c, ast.Tuple) else [c]
        res = False
        for n in names:
            if not isinstance(n, ast.Name):
                return None
            k = {'str': 'str', 'VecBase': 'VecBase', 'Py_VecBase': 'VecBase', 'AngleBase': 'AngleBase', 'Py_AngleBase': 'AngleBase'}.get(n.id)
            if k is None:
                raise TranslateError(f'parse_vec_str: isinstance test against unknown class {n.id} (line {t.lineno})')
            res = res or k == kind
        return res
    return None


def _dispatch(body: list[ast.stmt], v: str, kind: str):
    """Run the leading type dispatch for one abstract kind of argument: ('ret', expr) when it returns, ('cont', i)
    when control reaches top-level statement i that is not part of the dispatch, ('end',) at the end of the body."""
    def run(stmts: list[ast.stmt], top: bool):
        for i, st in enumerate(stmts):
            if isinstance(st, ast.Pass):
                continue
            if isinstance(st, ast.Return):
                return ('ret', st.value)
            if isinstance(st, ast.If):
                r = _type_test(st.test, v, kind)
                if r is not None:
                    out = run(st.body if r else st.orelse, False)
                    if out is not None:
                        return out
                    continue
            if top:
                return ('cont', i)
            raise TranslateError(f'parse_vec_str: statement inside the type dispatch not understood (line {st.lineno})')
        return ('end',) if top else None
    return run(body, True)


def _parse_cfg(tree: ast.Module) -> dict:
    """Shape of parse_vec_str, read semantically: the type dispatch is evaluated for the four kinds of argument (any
    if/elif/else, early-return or negated spelling gives the same table), locals may be renamed, consecutive
    try-blocks with the same leaving handler are one block, bracket sets may be literals or module constants."""
    fn = next((n for n in tree.body if isinstance(n, ast.FunctionDef) and n.name == 'parse_vec_str'), None)
    if fn is None:
        raise TranslateError('parse_vec_str not found')
    params = [a.arg for a in fn.args.args]
    if len(params) != 4 or fn.args.vararg or fn.args.kwarg or fn.args.kwonlyargs or fn.args.posonlyargs:
        raise TranslateError('parse_vec_str: signature not (val, x, y, z)')
    v, dx, dy, dz = params
    consts = _module_consts(tree)
    u = ast.unparse
    body = _nodoc(fn.body)
    cfg = {'strips_ws': False, 'opens': '', 'closes': '', 'splits_ws': False, 'uses_float': False, 'passthrough': False}

    def is_defaults(e: ast.AST | None) -> bool:
        return isinstance(e, ast.Tuple) and [u(x) for x in e.elts] == [dx, dy, dz]

    def is_fields(e: ast.AST | None, names: tuple[str, ...]) -> bool:
        return isinstance(e, ast.Tuple) and len(e.elts) == 3 and all(u(x) in (f'{v}.{n}', f'{v}._{n}') for x, n in zip(e.elts, names))

    # 1. type dispatch
    outcome = {k: _dispatch(body, v, k) for k in ('str', 'VecBase', 'AngleBase', 'other')}
    if outcome['str'][0] != 'cont':
        raise TranslateError(f'parse_vec_str: a str argument does not reach the string pipeline ({outcome["str"][0]})')
    i = outcome['str'][1]
    cfg['passthrough'] = (outcome['VecBase'][0] == 'ret' and is_fields(outcome['VecBase'][1], ('x', 'y', 'z'))
                          and outcome['AngleBase'][0] == 'ret' and is_fields(outcome['AngleBase'][1], ('pitch', 'yaw', 'roll'))
                          and outcome['other'][0] == 'ret' and is_defaults(outcome['other'][1]))
    rest = _merge_trys(body[i:])
    cur = v           # the local that holds the text
    j = 0
    # 2. text = text.strip()
    if j < len(rest) and isinstance(rest[j], ast.Assign) and len(rest[j].targets) == 1 and isinstance(rest[j].targets[0], ast.Name) \
            and u(rest[j].value) == f'{cur}.strip()':
        cfg['strips_ws'] = True
        cur = rest[j].targets[0].id
        j += 1

    # 3./4. the bracket removals, in this order
    def nonempty(t: ast.AST) -> bool:
        return u(t) in (cur, f'len({cur}) > 0', f'len({cur}) != 0', f'len({cur}) >= 1', f"{cur} != ''", f'bool({cur})')

    def bracket_test(t: ast.AST, which: str) -> str | None:
        idx = ('0',) if which == 'opens' else ('-1', f'len({cur}) - 1')
        if isinstance(t, ast.BoolOp) and isinstance(t.op, ast.And) and len(t.values) == 2 and nonempty(t.values[0]):
            c = t.values[1]
            if isinstance(c, ast.Compare) and len(c.ops) == 1 and isinstance(c.ops[0], ast.In) and u(c.left) in [f'{cur}[{k}]' for k in idx]:
                return _chars_of(c.comparators[0], consts)
            return None
        meth = 'startswith' if which == 'opens' else 'endswith'
        if isinstance(t, ast.Call) and isinstance(t.func, ast.Attribute) and t.func.attr == meth and u(t.func.value) == cur \
                and len(t.args) == 1 and not t.keywords:
            a = t.args[0]
            a = consts.get(a.id, a) if isinstance(a, ast.Name) else a
            if isinstance(a, ast.Tuple):                 # a str argument would test a prefix, not a character set
                return _chars_of(a, consts)
        return None

    for which, slices in (('opens', ('1:',)), ('closes', (':-1', f':len({cur}) - 1'))):
        if j < len(rest) and isinstance(rest[j], ast.If):
            st = rest[j]
            chars = bracket_test(st.test, which)
            ok = chars is not None and not st.orelse and len(st.body) == 1 and u(st.body[0]) in [f'{cur} = {cur}[{sl}]' for sl in slices]
            if not ok:
                raise TranslateError(f'parse_vec_str: unrecognised bracket statement (line {st.lineno})')
            cfg[which] = chars
            j += 1

    # 5./6. try: a, b, c = text.split(); return (float(a), float(b), float(c))   except ValueError: return defaults
    if j >= len(rest) or not isinstance(rest[j], ast.Try):
        raise TranslateError('parse_vec_str: `try: a, b, c = val.split()` not found where expected')
    st = rest[j]
    if st.orelse or st.finalbody or len(st.handlers) != 1 or st.handlers[0].type is None or u(st.handlers[0].type) != 'ValueError' \
            or len(st.handlers[0].body) != 1 or not isinstance(st.handlers[0].body[0], ast.Return) or not is_defaults(st.handlers[0].body[0].value):
        raise TranslateError(f'parse_vec_str: the try block does not have the single handler `except ValueError: return defaults` (line {st.lineno})')
    env: dict[str, ast.AST] = {}
    names: list[str] = []
    for x in st.body:
        if isinstance(x, ast.Assign) and len(x.targets) == 1 and isinstance(x.targets[0], ast.Name) and x.targets[0].id not in env \
                and x.targets[0].id not in params and x.targets[0].id != cur:
            env[x.targets[0].id] = _subst(x.value, env)            # a local bound once inside the block
        elif isinstance(x, ast.Assign) and len(x.targets) == 1 and isinstance(x.targets[0], (ast.Tuple, ast.List)) and not names \
                and len(x.targets[0].elts) == 3 and all(isinstance(e, ast.Name) for e in x.targets[0].elts) \
                and u(_subst(x.value, env)) == f'{cur}.split()':
            names = [e.id for e in x.targets[0].elts]
            if len(set(names)) != 3 or set(names) & (set(env) | {cur}):
                raise TranslateError(f'parse_vec_str: split() unpacked into names that are not three fresh locals (line {x.lineno})')
            cfg['splits_ws'] = True
        elif isinstance(x, ast.Return) and names and x is st.body[-1]:
            r = _subst(x.value, env) if x.value is not None else None
            if isinstance(r, ast.Tuple) and [u(e) for e in r.elts] == [f'float({n})' for n in names]:
                cfg['uses_float'] = True
            else:
                raise TranslateError(f'parse_vec_str: the block does not return (float(a), float(b), float(c)) (line {x.lineno})')
        else:
            raise TranslateError(f'parse_vec_str: unrecognised statement in the try block (line {x.lineno})')
    if not names:
        raise TranslateError('parse_vec_str: `a, b, c = val.split()` not found in the try block')
    j += 1
    if j != len(rest):
        raise TranslateError(f'parse_vec_str: unrecognised statement (line {rest[j].lineno})')
    return cfg


def _from_str_ok(f: ast.FunctionDef, callees: set[str], parse_params: list[str]) -> bool:
    """from_str is `cls(*parse_vec_str(val, a, b, c))` in any spelling: the three results of the call (bound to any
    three locals, or starred) are handed in order to the class, the defaults are passed in order to the parser."""
    ps = [a.arg for a in f.args.args]
    if len(ps) != 5 or f.args.vararg or f.args.kwarg or f.args.kwonlyargs:
        return False
    k, val, a, b, d = ps

    def is_parse_call(e: ast.AST) -> bool:
        if not (isinstance(e, ast.Call) and isinstance(e.func, ast.Name) and e.func.id in callees):
            return False
        args = _bind_args(e, parse_params)
        return args is not None and [ast.unparse(x) for x in args] == [val, a, b, d]
    env: dict[str, ast.AST] = {}
    triple: list[str] | None = None
    body = _nodoc(f.body)
    for st in body[:-1]:
        if isinstance(st, ast.Assign) and len(st.targets) == 1 and isinstance(st.targets[0], ast.Name) and st.targets[0].id not in env \
                and st.targets[0].id not in (k, val):
            env[st.targets[0].id] = _subst(st.value, env)
        elif isinstance(st, ast.Assign) and len(st.targets) == 1 and isinstance(st.targets[0], (ast.Tuple, ast.List)) and triple is None \
                and len(st.targets[0].elts) == 3 and all(isinstance(e, ast.Name) for e in st.targets[0].elts) and is_parse_call(_subst(st.value, env)):
            triple = [e.id for e in st.targets[0].elts]
            if len(set(triple)) != 3 or k in triple or val in triple:
                return False
        else:
            return False
    if not body or not isinstance(body[-1], ast.Return) or not isinstance(body[-1].value, ast.Call):
        return False
    c = body[-1].value
    if not (isinstance(c.func, ast.Name) and c.func.id == k) or c.keywords:
        return False
    if triple is not None:
        return [ast.unparse(x) for x in c.args] == triple
    return len(c.args) == 1 and isinstance(c.args[0], ast.Starred) and is_parse_call(_subst(c.args[0].value, env))


def parse_cfg(tree: ast.Module) -> dict:
    """Shape of parse_vec_str, or `recognised: False` (all flags off) when it is written in an unknown way."""
    try:
        cfg = _parse_cfg(tree)
        cfg.update(recognised=True, reason='')
    except TranslateError as e:
        cfg = {'strips_ws': False, 'opens': '', 'closes': '', 'splits_ws': False, 'uses_float': False, 'passthrough': False,
               'recognised': False, 'reason': str(e)}
    # from_str of the vector and angle base classes hands the three results of parse_vec_str to the class
    callees = {'parse_vec_str'} | {n.targets[0].id for n in tree.body
                                   if isinstance(n, ast.Assign) and len(n.targets) == 1 and isinstance(n.targets[0], ast.Name)
                                   and isinstance(n.value, ast.Name) and n.value.id == 'parse_vec_str'}
    pfn = next((n for n in tree.body if isinstance(n, ast.FunctionDef) and n.name == 'parse_vec_str'), None)
    pparams = [a.arg for a in pfn.args.args] if pfn is not None else []
    for cname in ('VecBase', 'AngleBase'):
        c = next((c for c in tree.body if isinstance(c, ast.ClassDef) and c.name == cname), None)
        f = next((f for f in (c.body if c else []) if isinstance(f, ast.FunctionDef) and f.name == 'from_str'), None)
        cfg[f'{cname}.from_str'] = bool(f is not None and _is_classmethod(f) and len(pparams) == 4 and _from_str_ok(f, callees, pparams))
    return cfg


# ---------------------------------------------------------------------------------------------- mutation census
def _class_functions(tree: ast.Module) -> dict[str, list[ast.FunctionDef]]:
    """Methods per class, including those generated with exec(TEMPLATE.format(...)) inside the class body."""
    templates: dict[str, str] = {}
    for n in tree.body:
        if isinstance(n, ast.Assign) and len(n.targets) == 1 and isinstance(n.targets[0], ast.Name) \
                and isinstance(n.value, ast.Constant) and isinstance(n.value.value, str) and 'def ' in n.value.value:      # whatever it is called
            templates[n.targets[0].id] = n.value.value
    res: dict[str, list[ast.FunctionDef]] = {}
    for c in tree.body:
        if not isinstance(c, ast.ClassDef) or c.name not in CLASSES:
            continue
        fns: list[ast.FunctionDef] = []
        for node in ast.walk(c):
            if isinstance(node, ast.Call) and isinstance(node.func, ast.Name) and node.func.id in ('exec', 'eval'):
                a0 = node.args[0] if node.args else None
                if not (isinstance(a0, ast.Call) and isinstance(a0.func, ast.Attribute) and a0.func.attr == 'format'
                        and isinstance(a0.func.value, ast.Name) and a0.func.value.id in templates):
                    raise TranslateError(f'{c.name}: exec() of something that is not a known template (line {node.lineno})')
                code = templates[a0.func.value.id].format(func='add', op='+', pretty='add')
                for f in ast.parse(code).body:
                    if not isinstance(f, ast.FunctionDef):
                        raise TranslateError(f'template {a0.func.value.id}: non-function statement')
                    f.name = f.name.replace('add', 'OP')
                    fns.append(f)
        def collect(body):
            for f in body:
                if isinstance(f, ast.FunctionDef):
                    fns.append(f)
                elif isinstance(f, ast.If):           # `if TYPE_CHECKING:` stubs
                    collect(f.body); collect(f.orelse)
        collect(c.body)
        res[c.name] = fns
    for cn in CLASSES:
        if cn not in res:
            raise TranslateError(f'class {cn} not found in math.py')
    return res


def _is_classmethod(f: ast.FunctionDef) -> bool:
    return any(isinstance(d, ast.Name) and d.id in ('classmethod', 'staticmethod') for d in f.decorator_list)


def _origin_of_expr(e: ast.AST, origin_of_name) -> str:
    if isinstance(e, ast.Name):
        return origin_of_name(e.id)
    if isinstance(e, ast.Call):
        f = e.func
        nargs = len(e.args) + len(e.keywords)
        if isinstance(f, ast.Name):
            if f.id in MUTABLE_CTORS:
                return 'Fresh'
            if f.id in FROZEN_CTORS or f.id == 'cls':
                # FrozenX(y) returns y itself when y is already frozen; with 0 or 3 scalar arguments it is new
                return 'Fresh' if nargs != 1 else 'MaybeAlias'
            if f.id == 'to_matrix':
                return 'MaybeAlias'
        if isinstance(f, ast.Call) and isinstance(f.func, ast.Name) and f.func.id == 'type':
            return 'Fresh' if nargs != 1 else 'MaybeAlias'
        if isinstance(f, ast.Attribute):
            if f.attr == '__new__':
                return 'Fresh'
            if f.attr == 'copy' and not e.args:
                o = _origin_of_expr(f.value, origin_of_name)
                return {'Self': 'CopyOfSelf', 'Param': 'CopyOfParam', 'Fresh': 'Fresh'}.get(o, 'Unknown')
            if f.attr in FRESH_DERIVED:
                # by name: alternative constructors and methods that build a new object in every class that defines them
                # (derived from the source, see derive_fresh_names).  Every name used here is recorded; the result-kind
                # table must say RFresh for it in every class (obligation census_fresh_by_name_justified), so
                # `x = self.transpose(); x._ab = ...` is only trusted while transpose() really returns a new object for
                # frozen receivers too.
                FRESH_USED.add(f.attr)
                return 'Fresh'
    return 'Unknown'


def _origins(f: ast.FunctionDef, is_method: bool):
    """(receiver name or None, parameter names, bindings, origin_of_name) for the body of f."""
    params = [a.arg for a in f.args.posonlyargs + f.args.args + f.args.kwonlyargs]
    if f.args.vararg:
        params.append(f.args.vararg.arg)
    if f.args.kwarg:
        params.append(f.args.kwarg.arg)
    recv = params[0] if (is_method and params and not _is_classmethod(f) and f.name != '__new__') else None
    binds: dict[str, list[ast.AST | None]] = {}
    for node in ast.walk(f):
        if isinstance(node, ast.Assign) and len(node.targets) == 1 and isinstance(node.targets[0], ast.Name):
            binds.setdefault(node.targets[0].id, []).append(node.value)
        elif isinstance(node, ast.AnnAssign) and isinstance(node.target, ast.Name):
            if node.value is not None:     # a bare annotation `mat: MatrixBase` binds nothing
                binds.setdefault(node.target.id, []).append(node.value)
        elif isinstance(node, ast.AugAssign) and isinstance(node.target, ast.Name):
            pass      # `n @= x`: n stays the same object (in-place) or becomes a new one; recorded as an event below
        else:
            for t in _targets(node):
                if isinstance(t, ast.Name):
                    binds.setdefault(t.id, []).append(None)     # loop/with/tuple target: origin unknown

    def origin_of_name(n: str, depth: int = 0) -> str:
        if n in binds:
            if depth > 4:
                return 'Unknown'
            os_ = {('Unknown' if v is None else _origin_of_expr(v, lambda m: origin_of_name(m, depth + 1))) for v in binds[n]}
            if n in params:
                os_.add('Self' if n == recv else 'Param')
            if len(os_) == 1:
                return os_.pop()
            for bad in ('Unknown', 'MaybeAlias', 'CopyOfSelf', 'CopyOfParam', 'Param', 'Self'):
                if bad in os_:
                    return bad
        if n == recv:
            return 'Self'
        if n in params:
            return 'Param'
        return 'Unknown'
    return recv, params, binds, origin_of_name


def mutation_events(f: ast.FunctionDef, is_method: bool, roots: list | None = None) -> list[tuple[str, str, int]]:
    """(origin, what, line) for every write to an object inside f.  When `roots` is given, (origin, name of the variable
    the written object was reached through, or None) is appended to it for every event."""
    recv, params, binds, origin_of_name = _origins(f, is_method)

    class _Ev(list):
        def append(self, e, root=None):          # noqa: A003 - keeps the call sites below unchanged
            super().append(e)
            if roots is not None:
                roots.append((e[0], root.id if isinstance(root, ast.Name) else None))
    ev = _Ev()
    for node in ast.walk(f):
        if isinstance(node, ast.AugAssign) and isinstance(node.target, ast.Name):
            o = origin_of_name(node.target.id)
            if o == 'Unknown' and node.target.id not in params and node.target.id not in binds:
                raise TranslateError(f'{f.name}: augmented assignment to unbound name {node.target.id} (line {node.lineno})')
            if isinstance(node.op, ast.MatMult) or o not in ('Param', 'Unknown'):
                ev.append((o, f'augmented assignment {type(node.op).__name__}', node.lineno), node.target)
            # arithmetic `x += 1` on a parameter/number rebinding a float is not an object write
        for t in _targets(node):
            if isinstance(t, ast.Attribute):
                o = _origin_of_expr(t.value, origin_of_name) if isinstance(t.value, (ast.Name, ast.Call)) else 'Unknown'
                ev.append((o, f'store .{t.attr}', t.lineno), t.value)
            elif isinstance(t, ast.Subscript) and isinstance(t.value, ast.Name):
                o = origin_of_name(t.value.id)
                if t.value.id in binds and all(isinstance(v, (ast.Dict, ast.List, ast.ListComp, ast.DictComp)) for v in binds[t.value.id] if v is not None) \
                        and None not in binds[t.value.id]:
                    continue          # a local dict/list
                ev.append((o, 'store [..]', t.lineno), t.value)
        if isinstance(node, ast.Call) and isinstance(node.func, ast.Attribute):
            m = node.func.attr
            if m in MUT_RECV and isinstance(node.func.value, (ast.Name, ast.Call)):
                if m in ('min', 'max') and not isinstance(node.func.value, ast.Name):
                    continue
                ev.append((_origin_of_expr(node.func.value, origin_of_name), f'call .{m}()', node.lineno), node.func.value)
            elif m in MUT_ARG0:
                if not node.args:
                    raise TranslateError(f'{f.name}: {m}() without argument (line {node.lineno})')
                ev.append((_origin_of_expr(node.args[0], origin_of_name), f'arg of .{m}()', node.lineno), node.args[0])
        if isinstance(node, ast.Call) and isinstance(node.func, ast.Name) and node.func.id == 'setattr' and node.args:
            ev.append((_origin_of_expr(node.args[0], origin_of_name), 'setattr', node.lineno), node.args[0])
    return [e for e in ev if e[0] != 'Fresh']


def derive_mutators(tree: ast.Module) -> tuple[set[str], set[str]]:
    """Least fixpoint of `writes its receiver` / `writes its first argument` over all methods of the nine classes
    (the exec() templates included: `__iOP__` stands for every in-place operator name)."""
    fns = _class_functions(tree)
    MUT_RECV.clear()
    MUT_ARG0.clear()
    for _ in range(8):
        recv: set[str] = set()
        arg0: set[str] = set()
        for fl in fns.values():
            for f in fl:
                if _is_stub(f):
                    continue
                roots: list = []
                mutation_events(f, True, roots)
                r, params, _, _ = _origins(f, True)
                first = params[1] if (r is not None and len(params) > 1) else None
                names = [f.name.replace('OP', o) for o in OPERATOR_NAMES] + [f.name] if 'OP' in f.name else [f.name]
                if any(o == 'Self' for o, _ in roots):
                    recv.update(names)
                if first is not None and any(o == 'Param' and root == first for o, root in roots):
                    arg0.update(names)
        if recv == MUT_RECV and arg0 == MUT_ARG0:
            break
        if not (recv >= MUT_RECV and arg0 >= MUT_ARG0):
            raise TranslateError('mutator derivation is not monotone')
        MUT_RECV.clear(); MUT_RECV.update(recv)
        MUT_ARG0.clear(); MUT_ARG0.update(arg0 - recv)
    else:
        raise TranslateError('mutator derivation did not reach a fixpoint')
    return set(MUT_RECV), set(MUT_ARG0)


def mutation_census(tree: ast.Module) -> list[tuple[str, str, str, str, int]]:
    out = []
    for cls, fns in _class_functions(tree).items():
        for f in fns:
            for o, what, line in mutation_events(f, True):
                out.append((cls, f.name, o, what, line))
    # module-level helpers that build objects (unpickling)
    for f in tree.body:
        if isinstance(f, ast.FunctionDef) and f.name.startswith('_mk'):
            for o, what, line in mutation_events(f, False):
                out.append(('module', f.name, o, what, line))
    return out


def method_table(tree: ast.Module) -> list[tuple[str, str]]:
    return [(cls, f.name) for cls, fns in _class_functions(tree).items() for f in fns]


# ---------------------------------------------------------------------------------------------- __format__ with a spec
class _SpecUnk(Exception):
    pass


def format_spec_cfgs(tree: ast.Module) -> dict:
    """VecBase.__format__ / AngleBase.__format__ evaluated symbolically into, per component, a text term
         fmt(slot, +0.0?) | rstrip(chars, T) | if(conds, T, T) | lit
    (locals substituted, `if c: x = f(x)` read as a conditional, conditional expressions alike) and then classified into the
    flags of Num/SpecStrip.v spec_cfg.  All three components must be the family's slots in order with the same flags,
    joined by single spaces; an empty spec must return str(self).  Anything else: recognised = false, all flags off."""
    out: dict = {}
    off = {'guard_dot': False, 'guard_no_exp': False, 'strip_zeros': False, 'strip_dot': False, 'dot_outside': False, 'neg_zero_fix': False}
    for cname, fam in (('VecBase', FAMILY_SLOTS['VecBase']), ('AngleBase', FAMILY_SLOTS['AngleBase'])):
        key = 'vec' if cname == 'VecBase' else 'angle'
        cdef = next((c for c in tree.body if isinstance(c, ast.ClassDef) and c.name == cname), None)
        fn = next((f for f in (cdef.body if cdef else []) if isinstance(f, ast.FunctionDef) and f.name == '__format__'), None)
        res = dict(off, recognised=False, empty_is_str=False, adds_zero=False, why='')
        out[key] = res
        if fn is None or len(fn.args.args) != 2:
            res['why'] = '__format__ not found'
            continue
        me, spec = fn.args.args[0].arg, fn.args.args[1].arg

        def cond(t: ast.AST, env: dict) -> frozenset:
            if isinstance(t, ast.BoolOp) and isinstance(t.op, ast.And):
                return frozenset().union(*[cond(v, env) for v in t.values])
            if isinstance(t, ast.Compare) and len(t.ops) == 1 and isinstance(t.left, ast.Constant) and isinstance(t.left.value, str) \
                    and isinstance(t.ops[0], (ast.In, ast.NotIn)):
                return frozenset([('in' if isinstance(t.ops[0], ast.In) else 'notin', t.left.value, text(t.comparators[0], env))])
            if isinstance(t, ast.Compare) and len(t.ops) == 1 and isinstance(t.ops[0], ast.Eq) and isinstance(t.comparators[0], ast.Constant):
                return frozenset([('eq', t.comparators[0].value, text(t.left, env))])
            if isinstance(t, ast.UnaryOp) and isinstance(t.op, ast.Not) and isinstance(t.operand, ast.BoolOp) and isinstance(t.operand.op, ast.Or):
                # not (a or b)  ==  (not a) and (not b)
                return frozenset().union(*[cond(ast.UnaryOp(op=ast.Not(), operand=v, lineno=t.lineno), env) for v in t.operand.values])
            if isinstance(t, ast.UnaryOp) and isinstance(t.op, ast.Not):
                inner = cond(t.operand, env)
                if len(inner) == 1:
                    (k, ch, x), = inner
                    if k in ('in', 'notin'):
                        return frozenset([('notin' if k == 'in' else 'in', ch, x)])
            raise _SpecUnk(f'condition not understood (line {t.lineno})')

        def text(e: ast.AST, env: dict):
            if isinstance(e, ast.Name) and e.id in env:
                return env[e.id]
            if isinstance(e, ast.Constant) and isinstance(e.value, str):
                return ('lit', e.value)
            if isinstance(e, ast.IfExp):
                return ('if', cond(e.test, env), text(e.body, env), text(e.orelse, env))
            if isinstance(e, ast.Call) and isinstance(e.func, ast.Attribute) and e.func.attr == 'rstrip' and len(e.args) == 1 \
                    and not e.keywords and isinstance(e.args[0], ast.Constant) and isinstance(e.args[0].value, str):
                return ('rstrip', e.args[0].value, text(e.func.value, env))
            if isinstance(e, ast.Call) and isinstance(e.func, ast.Name) and e.func.id == 'format' and len(e.args) == 2 and not e.keywords \
                    and isinstance(e.args[1], ast.Name) and e.args[1].id == spec:
                v = e.args[0]
                az = False
                if isinstance(v, ast.BinOp) and isinstance(v.op, ast.Add):
                    zero = lambda z: isinstance(z, ast.Constant) and type(z.value) is float and z.value == 0.0
                    if zero(v.right):
                        v, az = v.left, True
                    elif zero(v.left):
                        v, az = v.right, True
                if isinstance(v, ast.Attribute) and isinstance(v.value, ast.Name) and v.value.id == me and v.attr in fam:
                    return ('fmt', v.attr, az)
            raise _SpecUnk(f'text expression not understood (line {e.lineno})')

        def block(stmts: list[ast.stmt], env: dict) -> dict:
            env = dict(env)
            for st in _nodoc(stmts):
                if isinstance(st, ast.Assign) and len(st.targets) == 1 and isinstance(st.targets[0], ast.Name):
                    env[st.targets[0].id] = text(st.value, env)
                elif isinstance(st, ast.If):
                    c = cond(st.test, env)
                    a, b = block(st.body, env), block(st.orelse, env)
                    for nm in set(a) | set(b):
                        if a.get(nm) != b.get(nm):
                            if nm not in a or nm not in b:
                                raise _SpecUnk('a name bound on one branch only')
                            env[nm] = ('if', c, a[nm], b[nm])
                else:
                    raise _SpecUnk(f'statement not understood (line {st.lineno})')
            return env

        def classify(t) -> dict:
            f = dict(off)
            if t[0] == 'if' and t[1] == frozenset([('eq', '-0', t[3])]) and t[2] == ('lit', '0'):
                f['neg_zero_fix'] = True
                t = t[3]
            if t[0] == 'rstrip' and t[1] == '.' and t[2][0] == 'if':
                f['dot_outside'] = True
                t = t[2]
            base = t
            if t[0] == 'if':
                conds, a, base = t[1], t[2], t[3]
                if base[0] != 'fmt':
                    raise _SpecUnk('the untouched branch is not the formatted component')
                chain = []
                while a[0] == 'rstrip':
                    chain.append(a[1])
                    a = a[2]
                if a != base:
                    raise _SpecUnk('the stripped branch does not start from the formatted component')
                chain.reverse()                      # order of application
                if chain == ['0', '.']:
                    f['strip_zeros'] = f['strip_dot'] = True
                elif chain == ['0']:
                    f['strip_zeros'] = True
                elif chain:
                    raise _SpecUnk(f'strip chain {chain!r}')
                atoms = set(conds)
                if any(x != base for _, _, x in atoms):
                    raise _SpecUnk('a guard looks at another text')
                kinds = {(k, ch) for k, ch, _ in atoms}
                if ('in', '.') in kinds:
                    f['guard_dot'] = True
                if ('notin', 'e') in kinds and ('notin', 'E') in kinds:
                    f['guard_no_exp'] = True
                if kinds - {('in', '.'), ('notin', 'e'), ('notin', 'E')}:
                    raise _SpecUnk(f'guard atoms {sorted(kinds)!r}')
            elif t[0] != 'fmt':
                raise _SpecUnk('component is not the formatted slot')
            f['slot'], f['adds_zero'] = base[1], base[2]
            return f

        try:
            body = _nodoc(fn.body)
            # `if not spec: return str(self)`
            if body and isinstance(body[0], ast.If) and not body[0].orelse and len(body[0].body) == 1 and isinstance(body[0].body[0], ast.Return):
                t, r = body[0].test, body[0].body[0].value
                empty = (isinstance(t, ast.UnaryOp) and isinstance(t.op, ast.Not) and isinstance(t.operand, ast.Name) and t.operand.id == spec) or \
                    (isinstance(t, ast.Compare) and len(t.ops) == 1 and isinstance(t.ops[0], ast.Eq) and isinstance(t.left, ast.Name) and t.left.id == spec
                     and isinstance(t.comparators[0], ast.Constant) and t.comparators[0].value == '')
                is_str = isinstance(r, ast.Call) and not r.keywords and (
                    (isinstance(r.func, ast.Name) and r.func.id == 'str' and len(r.args) == 1 and isinstance(r.args[0], ast.Name) and r.args[0].id == me) or
                    (isinstance(r.func, ast.Attribute) and r.func.attr == '__str__' and isinstance(r.func.value, ast.Name) and r.func.value.id == me and not r.args))
                if empty and is_str:
                    res['empty_is_str'] = True
                    body = body[1:]
            if not body or not isinstance(body[-1], ast.Return) or not isinstance(body[-1].value, ast.JoinedStr):
                raise _SpecUnk('no f-string returned')
            env = block(body[:-1], {})
            parts = []
            for v in body[-1].value.values:
                if isinstance(v, ast.Constant):
                    parts.append(('sep', v.value))
                elif isinstance(v, ast.FormattedValue) and v.conversion == -1 and v.format_spec is None:
                    parts.append(('comp', classify(text(v.value, env))))
                else:
                    raise _SpecUnk('f-string part not understood')
            if [p[0] for p in parts] != ['comp', 'sep', 'comp', 'sep', 'comp'] or any(p[1] != ' ' for p in parts if p[0] == 'sep'):
                raise _SpecUnk('not three components joined by single spaces')
            comps = [p[1] for p in parts if p[0] == 'comp']
            if tuple(c['slot'] for c in comps) != tuple(fam):
                raise _SpecUnk('components are not the three slots in order')
            flags = [{k: v for k, v in c.items() if k != 'slot'} for c in comps]
            if flags[0] != flags[1] or flags[1] != flags[2]:
                raise _SpecUnk('the three components are treated differently')
            res.update(flags[0])
            res['recognised'] = True
        except _SpecUnk as e:
            res['why'] = str(e)
    return out


# ---------------------------------------------------------------------------------------------- __eq__ / __ne__
def eq_shapes(tree: ast.Module) -> tuple[list[tuple[str, list[tuple[str, str]]]], dict]:
    """__eq__ of VecBase / AngleBase / MatrixBase on an operand of the same family (SM/FrozenEq.v): the branch
    `if isinstance(other, <Base>)` must return a conjunction of per-slot tests `abs(other._s - self._s) < T` / `<= T` (either
    operand order, T a numeric constant) or `self._s == other._s`; anything else is CUnknown for that slot.  __ne__, when the
    class defines it, must be the slot-wise negation joined by `or` (flag ne_is_negation)."""
    from fractions import Fraction
    rows: list[tuple[str, list[tuple[str, str]]]] = []
    info: dict = {}
    ne_ok = True
    NEG = {ast.Lt: ast.GtE, ast.LtE: ast.Gt, ast.Eq: ast.NotEq}
    for base in ('VecBase', 'AngleBase', 'MatrixBase'):
        cdef = next((c for c in tree.body if isinstance(c, ast.ClassDef) and c.name == base), None)
        fam = FAMILY_SLOTS[base]

        def tests(fname: str, joiner) -> list[tuple[str, type, str]] | None:
            """[(slot, comparison operator class, tolerance as a Coq Q or '')] of the same-family branch, None if absent"""
            fn = next((f for f in (cdef.body if cdef else []) if isinstance(f, ast.FunctionDef) and f.name == fname), None)
            if fn is None or len(fn.args.args) != 2:
                return None
            me, ot = fn.args.args[0].arg, fn.args.args[1].arg
            br = next((st for st in _nodoc(fn.body) if isinstance(st, ast.If) and isinstance(st.test, ast.Call) and isinstance(st.test.func, ast.Name)
                       and st.test.func.id == 'isinstance' and len(st.test.args) == 2 and isinstance(st.test.args[0], ast.Name) and st.test.args[0].id == ot
                       and isinstance(st.test.args[1], ast.Name) and st.test.args[1].id in (base, 'Py_' + base)), None)
            if br is None or len(br.body) != 1 or not isinstance(br.body[0], ast.Return) or br.body[0].value is None:
                return []
            e = br.body[0].value
            parts = e.values if isinstance(e, ast.BoolOp) and isinstance(e.op, joiner) else [e]
            out = []
            for t in parts:
                slot, op, tol = '?', type(None), ''
                if isinstance(t, ast.Compare) and len(t.ops) == 1:
                    l, r = t.left, t.comparators[0]
                    sl = lambda x, who: x.attr if isinstance(x, ast.Attribute) and isinstance(x.value, ast.Name) and x.value.id == who and x.attr in fam else None
                    if isinstance(t.ops[0], (ast.Eq, ast.NotEq)):
                        a, b = sl(l, me) or sl(l, ot), sl(r, ot) or sl(r, me)
                        if a and a == b and {getattr(l.value, 'id', None), getattr(r.value, 'id', None)} == {me, ot}:
                            slot, op = a, type(t.ops[0])
                    elif isinstance(l, ast.Call) and isinstance(l.func, ast.Name) and l.func.id == 'abs' and len(l.args) == 1 and isinstance(l.args[0], ast.BinOp) \
                            and isinstance(l.args[0].op, ast.Sub):
                        x, y = l.args[0].left, l.args[0].right
                        a, b = sl(x, me) or sl(x, ot), sl(y, ot) or sl(y, me)
                        c = _CONSTS.get(r.id) if isinstance(r, ast.Name) else r
                        if a and a == b and {getattr(x.value, 'id', None), getattr(y.value, 'id', None)} == {me, ot} \
                                and isinstance(c, ast.Constant) and type(c.value) in (int, float):
                            q = Fraction(repr(c.value))
                            slot, op, tol = a, type(t.ops[0]), f'(QArith_base.Qmake ({q.numerator})%Z {q.denominator}%positive)'
                out.append((slot, op, tol))
            return out
        eq = tests('__eq__', ast.And)
        cmps: list[tuple[str, str]] = []
        for slot, op, tol in (eq or []):
            k = f'CTol true {tol}' if op is ast.Lt and tol else f'CTol false {tol}' if op is ast.LtE and tol else 'CExact' if op is ast.Eq and not tol else 'CUnknown'
            cmps.append((slot, k))
        if not cmps:
            cmps = [('?', 'CUnknown')]
        rows.append((base, cmps))
        ne = tests('__ne__', ast.Or)
        if ne is not None:                   # defined: must negate __eq__ slot by slot
            ok = eq is not None and len(ne) == len(eq) and all(a[0] == b[0] and a[2] == b[2] and NEG.get(a[1]) is b[1] for a, b in zip(eq, ne))
            info.setdefault('ne_is_negation', {})[base] = bool(ok)
            ne_ok = ne_ok and bool(ok)
    info['ne_is_negation_all'] = ne_ok
    return rows, info


# ---------------------------------------------------------------------------------------------- __hash__
_PURE_HASH_BUILTINS = {'hash', 'round', 'tuple', 'abs', 'float', 'int'}


def inplace_methods(tree: ast.Module) -> list[tuple[str, str]]:
    """(defining class, name) of every in-place operator method of the nine classes, exec() templates included
    (`__iOP__` stands for the operators a template is instantiated for) and class-body aliases `__iadd__ = f`."""
    pat = re.compile(r'__i(' + '|'.join(OPERATOR_NAMES) + r'|OP)__\Z')
    out: list[tuple[str, str]] = []
    for cname, fns in _class_functions(tree).items():
        for f in fns:
            if pat.match(f.name) and not _is_stub(f):
                out.append((cname, f.name))
    for c in tree.body:
        if isinstance(c, ast.ClassDef) and c.name in CLASSES:
            for st in c.body:
                if isinstance(st, (ast.Assign, ast.AnnAssign)) and st.value is not None \
                        and not (isinstance(st.value, ast.Constant) and st.value.value is None):
                    for t in _targets(st):
                        if isinstance(t, ast.Name) and pat.match(t.id):
                            out.append((c.name, t.id))
    return sorted(set(out))


def hash_kinds(tree: ast.Module) -> tuple[list[tuple[str, str]], dict]:
    """What `hash(obj)` is for each of the six concrete classes (SM/FrozenHash.v hkind), following Python's rules:
    the first class of the MRO whose body binds __hash__ decides; a body that defines __eq__ without binding __hash__
    makes the class unhashable; with neither anywhere it is object.__hash__ (identity).  A `def __hash__` is HSlots l
    when its result is an expression over slots of self (directly or through a property whose getter returns the
    slot), constants and pure builtins only; anything else is HUnknown."""
    classes = {c.name: c for c in tree.body if isinstance(c, ast.ClassDef)}
    out: list[tuple[str, str]] = []
    info: dict[str, str] = {}

    def getters(mro: list[ast.ClassDef]) -> dict[str, str]:
        g: dict[str, str] = {}
        for c in reversed(mro):
            for f in c.body:
                if isinstance(f, ast.FunctionDef) and any(isinstance(d, ast.Name) and d.id == 'property' for d in f.decorator_list):
                    body = _nodoc(f.body)
                    if len(body) == 1 and isinstance(body[0], ast.Return) and isinstance(body[0].value, ast.Attribute) \
                            and isinstance(body[0].value.value, ast.Name) and body[0].value.value.id == f.args.args[0].arg:
                        g[f.name] = body[0].value.attr
                    else:
                        g.pop(f.name, None)
        return g

    def of_def(f: ast.FunctionDef, mro: list[ast.ClassDef], fam: tuple[str, ...]) -> str:
        body = _nodoc(f.body)
        if not f.args.args or len(body) == 0 or not isinstance(body[-1], ast.Return) or body[-1].value is None:
            return 'HUnknown'
        if any(not isinstance(b, (ast.Assign, ast.AnnAssign)) for b in body[:-1]):
            return 'HUnknown'
        me = f.args.args[0].arg
        env = _single_bindings(f)
        e = body[-1].value
        for _ in range(6):
            e = _subst(e, env)
        props = getters(mro)
        slots: list[str] = []
        ok = True

        def walk(n: ast.AST) -> None:
            nonlocal ok
            if isinstance(n, ast.Attribute):
                if isinstance(n.value, ast.Name) and n.value.id == me and isinstance(n.ctx, ast.Load):
                    sl = n.attr if n.attr in fam else props.get(n.attr)
                    if sl in fam:
                        if sl not in slots:
                            slots.append(sl)
                        return
                ok = False
                return
            if isinstance(n, ast.Call):
                if not (isinstance(n.func, ast.Name) and n.func.id in _PURE_HASH_BUILTINS) or n.keywords:
                    ok = False
                    return
                for a in n.args:
                    walk(a)
                return
            if isinstance(n, (ast.GeneratorExp, ast.ListComp)) and len(n.generators) == 1 and not n.generators[0].ifs and not n.generators[0].is_async \
                    and isinstance(n.generators[0].target, ast.Name) and isinstance(n.generators[0].iter, (ast.Tuple, ast.List)):
                # `round(v, 6) for v in (self._x, self._y, self._z)`: the element expression once per item
                for item in n.generators[0].iter.elts:
                    walk(_subst(n.elt, {n.generators[0].target.id: item}))
                return
            if isinstance(n, ast.Name):
                ok = False          # any free name (self as a whole, id, a global) is not a slot
                return
            if isinstance(n, (ast.Tuple, ast.BinOp, ast.UnaryOp, ast.Constant, ast.operator, ast.unaryop, ast.expr_context)):
                for ch in ast.iter_child_nodes(n):
                    walk(ch)
                return
            ok = False
        walk(e)
        return 'HSlots [' + '; '.join(_s(x) for x in slots) + ']' if ok else 'HUnknown'

    for cname, base in CONCRETE.items():
        mro = [classes[n] for n in (cname, base) if n in classes]
        if len(mro) != 2:
            raise TranslateError(f'class {cname} or {base} not found')
        fam = FAMILY_SLOTS[base]
        kind = None
        for c in mro:
            bound = None
            has_eq = False
            for st in c.body:
                if isinstance(st, ast.FunctionDef) and st.name == '__hash__' and not _is_stub(st):
                    bound = of_def(st, mro, fam)
                elif isinstance(st, ast.FunctionDef) and st.name == '__eq__':
                    has_eq = True
                elif isinstance(st, (ast.Assign, ast.AnnAssign)):
                    for t in _targets(st):
                        if isinstance(t, ast.Name) and t.id == '__hash__':
                            v = st.value
                            bound = 'HUnhashable' if isinstance(v, ast.Constant) and v.value is None else 'HUnknown'
            if bound is None and has_eq:
                bound = 'HUnhashable'
            if bound is not None:
                kind = bound
                info[cname] = f'{c.name}: {bound}'
                break
        out.append((cname, kind or 'HIdentity'))
    return out, {'hash_resolution': info}


# ---------------------------------------------------------------------------------------------- result kinds
CONCRETE = {'Vec': 'VecBase', 'FrozenVec': 'VecBase', 'Angle': 'AngleBase', 'FrozenAngle': 'AngleBase',
            'Matrix': 'MatrixBase', 'FrozenMatrix': 'MatrixBase'}
COPYLIKE = ('copy', '__copy__', '__deepcopy__', '__reduce__', 'freeze', 'thaw')


def _is_stub(f: ast.FunctionDef) -> bool:
    body = _nodoc(f.body)
    return (len(body) == 1 and isinstance(body[0], ast.Expr) and isinstance(body[0].value, ast.Constant) and body[0].value.value is Ellipsis) \
        or any(isinstance(d, ast.Name) and d.id == 'overload' for d in f.decorator_list)


def _own_returns(f: ast.FunctionDef) -> list[ast.Return]:
    return [n for n in _own_nodes(f) if isinstance(n, ast.Return)]


def _guarded_param_return(f: ast.FunctionDef, ret: ast.Return, cls: str) -> bool:
    """`if isinstance(p, cls|<Class>): return p` as a direct statement of the function body, p a parameter."""
    for st in f.body:
        if isinstance(st, ast.If) and len(st.body) == 1 and st.body[0] is ret and not st.orelse and isinstance(ret.value, ast.Name):
            t = st.test
            if isinstance(t, ast.Call) and isinstance(t.func, ast.Name) and t.func.id == 'isinstance' and len(t.args) == 2 \
                    and isinstance(t.args[0], ast.Name) and t.args[0].id == ret.value.id \
                    and isinstance(t.args[1], ast.Name) and t.args[1].id in ('cls', cls, 'Py_' + cls):
                return True
    return False


CONST_TABLES: list = [set()]       # module-level names bound once to a literal of constants (set by result_kinds for the tree at hand)


def _function_kind(f: ast.FunctionDef, cls: str | None, module_kinds: dict[str, str]) -> str:
    """Kind of the result of one function, from its own return statements."""
    recv, params, binds, origin_of_name = _origins(f, cls is not None)
    const_tables = CONST_TABLES[0]
    shared = {n for node in ast.walk(f) if isinstance(node, (ast.Global, ast.Nonlocal)) for n in node.names}
    rets = _own_returns(f)
    if any(isinstance(n, (ast.Yield, ast.YieldFrom)) for n in _own_nodes(f)):
        return 'ROther'                 # generator / context manager
    if f.name == '__init__':
        # the object is created by type.__call__; __init__ itself returns nothing
        return 'RFresh' if all(r.value is None for r in rets) else 'RUnknown'
    kinds: set[str] = set()
    for r in rets:
        v = r.value
        if v is None or (isinstance(v, ast.Constant)) or (isinstance(v, ast.Name) and v.id == 'NotImplemented'):
            kinds.add('ROther')
            continue
        if f.name == '__reduce__':
            # (maker, (slot, slot, ...)): a new object iff the maker builds one and only slots of the receiver are passed
            ok = (isinstance(v, ast.Tuple) and len(v.elts) == 2 and isinstance(v.elts[0], ast.Name)
                  and module_kinds.get(v.elts[0].id) == 'RFresh' and isinstance(v.elts[1], ast.Tuple)
                  and all(isinstance(e, ast.Attribute) and isinstance(e.value, ast.Name) and e.value.id == recv
                          and (e.attr.startswith('_') or e.attr in ('x', 'y', 'z', 'pitch', 'yaw', 'roll'))
                          for e in v.elts[1].elts))
            kinds.add('RFresh' if ok else 'RUnknown')
            continue
        if isinstance(v, (ast.Name, ast.Call)):
            o = _origin_of_expr(v, origin_of_name)
            if isinstance(v, ast.Call) and isinstance(v.func, ast.Attribute) and v.func.attr == '_to_angle' and len(v.args) == 1:
                o = _origin_of_expr(v.args[0], origin_of_name)          # _to_angle returns the angle it was given
            if isinstance(v, ast.Call) and isinstance(v.func, ast.Attribute) and isinstance(v.func.value, ast.Name) and v.func.value.id == 'math':
                kinds.add('ROther')
                continue
            if o == 'Fresh':
                kinds.add('RFresh')
            elif o == 'Self':
                kinds.add('RSelf')
            elif o == 'Param':
                kinds.add('RArgFrozen' if (cls is not None and _guarded_param_return(f, r, cls)) else 'RArg')
            elif isinstance(v, ast.Call) and isinstance(v.func, ast.Name) and v.func.id in ('float', 'int', 'str', 'bool', 'hash', 'len', 'round', 'iter', 'tuple', 'Vec_tuple', 'abs', 'min', 'max', 'format_float', 'repr'):
                kinds.add('ROther')
            else:
                kinds.add('RUnknown')
            continue
        if isinstance(v, (ast.Attribute, ast.Subscript)):
            # a slot / item of the receiver, of a parameter or of a local is a number; an item or attribute of anything
            # that OUTLIVES the call (a module- or class-level container: a cache) may be an object handed out before
            root = v
            while isinstance(root, (ast.Attribute, ast.Subscript)):
                root = root.value
            lives_in_call = isinstance(root, ast.Name) and (root.id == recv or root.id in params or root.id in binds) and root.id not in shared
            constant_table = isinstance(root, ast.Name) and root.id in const_tables and root.id not in binds and root.id not in params
            kinds.add('ROther' if lives_in_call or constant_table else 'RUnknown')
            continue
        if isinstance(v, (ast.Tuple, ast.JoinedStr, ast.Compare, ast.BoolOp, ast.BinOp, ast.UnaryOp, ast.IfExp,
                          ast.GeneratorExp, ast.ListComp, ast.List, ast.Dict)):
            kinds.add('ROther')          # numbers, strings, tuples: not an object of the six classes
            continue
        kinds.add('RUnknown')
    if not rets:
        return 'ROther'
    kinds.discard('ROther') if len(kinds) > 1 else None
    if kinds == {'RFresh', 'RArgFrozen'}:
        return 'RArgFrozen'
    if len(kinds) == 1:
        return kinds.pop()
    return 'RUnknown'


def result_kinds(tree: ast.Module) -> tuple[list[tuple[str, str, str]], dict]:
    """(concrete class, public method, kind) for every method of the six classes as resolved through inheritance
    (subclass first, then its base; class-level aliases `__copy__ = copy` followed; a class without __copy__/__deepcopy__
    is copied by the copy module through __reduce__)."""
    CONST_TABLES[0] = set(_module_consts(tree))
    module_kinds: dict[str, str] = {}
    for f in tree.body:
        if isinstance(f, ast.FunctionDef) and f.name.startswith('_mk'):
            module_kinds[f.name] = _function_kind(f, None, {})
    fns = _class_functions(tree)
    aliases: dict[str, dict[str, str]] = {}
    for c in tree.body:
        if isinstance(c, ast.ClassDef) and c.name in CLASSES:
            for n in c.body:
                if isinstance(n, ast.Assign) and len(n.targets) == 1 and isinstance(n.targets[0], ast.Name) and isinstance(n.value, ast.Name):
                    aliases.setdefault(c.name, {})[n.targets[0].id] = n.value.id
    out: list[tuple[str, str, str]] = []
    info: dict = {'module_makers': module_kinds}
    sym = _Sym(tree)
    for cls, base in CONCRETE.items():
        table: dict[str, str] = {}
        for owner in (base, cls):                       # subclass definitions override the base ones
            defs: dict[str, ast.FunctionDef] = {}
            for f in fns[owner]:
                if not _is_stub(f):
                    defs[f.name] = f                    # last real definition wins (property setter after getter)
            for name, f in defs.items():
                table[name] = _function_kind(f, cls, module_kinds)
            for name, target in aliases.get(owner, {}).items():
                if target in defs:
                    table[name] = _function_kind(defs[target], cls, module_kinds)
                elif target == 'None':
                    table.pop(name, None)
        for m in ('__copy__', '__deepcopy__'):
            if m not in table and '__reduce__' in table:
                table[m] = table['__reduce__']          # copy.copy / copy.deepcopy fall back to __reduce_ex__
        # a copy-like method whose return expression says nothing by its form (`return self.copy()`, `return
        # Py_FrozenVec(self)` in the mutable class, a helper method) is RUN symbolically on a receiver of this concrete
        # class: the object it returns is the receiver itself or one created during the run
        if cls.startswith('Frozen') and table.get('__new__') in ('RUnknown', 'RArg'):
            k = sym.ctor_kind(cls)
            if k is None and cls == 'FrozenAngle':
                # the dispatch table of the constructor by argument form (angle_ctor_rows): the argument itself for an
                # object of the class, a new object for every other form
                acts = {fm: a for c, fm, a in _LAST_CTOR_ROWS if c == 'FrozenAngle.__new__'}
                if len(acts) == len(ARG_FORMS) and all(a.startswith('(AStores') for fm, a in acts.items() if fm != 'FSameClass'):
                    k = 'RArgFrozen' if acts['FSameClass'] == 'AReturnArg' else 'RFresh' if acts['FSameClass'].startswith('(AStores') else None
            if k is not None:
                table['__new__'] = k
                info.setdefault('kinds_from_symbolic_run', []).append(f'{cls}.__new__')
        for m in COPYLIKE:
            if table.get(m) == 'RUnknown':
                r = sym.shape(cls, m)
                if r is not None and r[0] in ('CSelf', 'CSlots'):
                    table[m] = 'RSelf' if r[0] == 'CSelf' else 'RFresh'
                    info.setdefault('kinds_from_symbolic_run', []).append(f'{cls}.{m}')
        for name, k in sorted(table.items()):
            public = not name.startswith('_') or (name.startswith('__') and name.endswith('__'))
            if public:
                out.append((cls, name, k))
        info.setdefault('all_method_kinds', {})[cls] = dict(table)
    return out, info


def derive_fresh_names(tree: ast.Module) -> set[str]:
    """Least fixpoint: a method name is `fresh` when, in every concrete class that has it, all of its returns are new
    objects given the names already known to be fresh (round 0: only constructor calls and X.__new__)."""
    FRESH_DERIVED.clear()
    for _ in range(8):
        _, info = result_kinds(tree)
        by_name: dict[str, list[str]] = {}
        for t in info['all_method_kinds'].values():
            for n, k in t.items():
                by_name.setdefault(n, []).append(k)
        new = {n for n, ks in by_name.items() if all(k == 'RFresh' for k in ks)}
        if new == FRESH_DERIVED:
            break
        if not new >= FRESH_DERIVED:
            raise TranslateError('fresh-name derivation is not monotone')
        FRESH_DERIVED.clear()
        FRESH_DERIVED.update(new)
    else:
        raise TranslateError('fresh-name derivation did not reach a fixpoint')
    return set(FRESH_DERIVED)


def fresh_by_name(all_kinds: dict[str, dict[str, str]]) -> list[tuple[str, str]]:
    """(Class.method, kind) for every method name that _origin_of_expr trusted by name to return a new object, in every
    concrete class that has it (private helpers included)."""
    out = []
    for name in sorted(FRESH_USED):
        hit = [(f'{cls}.{name}', t[name]) for cls, t in all_kinds.items() if name in t]
        out += hit if hit else [(f'?.{name}', 'RUnknown')]
    return out


# ---------------------------------------------------------------------------------------------- copy shapes
class _Unk(Exception):
    """the symbolic run met something it does not understand"""


class _F:            # a float that is the value of slot `slot` of the SOURCE object, converted: 0 as is, 1 float(), 2 % 360 % 360, 'half' % 360
    def __init__(self, slot, x): self.slot, self.x = slot, x
class _K:            # a constant that does not come from the source
    def __init__(self, v): self.v = v
class _O:            # an object of one of the classes: the source (is_self) or one created during the run
    def __init__(self, cls, is_self=False): self.cls, self.slots, self.is_self = cls, {}, is_self
class _C:            # a class
    def __init__(self, name): self.name = name
class _T:            # a tuple
    def __init__(self, items): self.items = list(items)
class _Fn:           # a function, possibly bound
    def __init__(self, fn, bound=None): self.fn, self.bound = fn, bound
class _New:          # X.__new__
    pass


FAMILY_SLOTS = {'VecBase': ('_x', '_y', '_z'), 'AngleBase': FIELDS,
                'MatrixBase': ('_aa', '_ab', '_ac', '_ba', '_bb', '_bc', '_ca', '_cb', '_cc')}


class _Sym:
    """Symbolic execution of the copy-like methods on a source object whose slots hold floats: straight-line code,
    if/else on isinstance / is None / type(x) is C tests, calls of constructors, X.__new__, module functions, methods,
    property getters/setters and the matrix cell setter.  Everything else raises _Unk (shape CUnknown)."""

    def __init__(self, tree: ast.Module):
        self.tree = tree
        fns = _class_functions(tree)
        self.meth: dict[str, dict[str, ast.FunctionDef]] = {}
        self.getter: dict[str, dict[str, ast.FunctionDef]] = {}
        self.setter: dict[str, dict[str, ast.FunctionDef]] = {}
        for c, fl in fns.items():
            self.meth[c], self.getter[c], self.setter[c] = {}, {}, {}
            for f in fl:
                if _is_stub(f):
                    continue
                decs = [d.id if isinstance(d, ast.Name) else d.attr if isinstance(d, ast.Attribute) else '' for d in f.decorator_list]
                if 'property' in decs:
                    self.getter[c][f.name] = f
                elif 'setter' in decs:
                    self.setter[c][f.name] = f
                else:
                    self.meth[c][f.name] = f
        self.alias: dict[str, dict[str, str]] = {}
        for c in tree.body:
            if isinstance(c, ast.ClassDef) and c.name in CLASSES:
                for n in c.body:
                    if isinstance(n, ast.Assign) and len(n.targets) == 1 and isinstance(n.targets[0], ast.Name) and isinstance(n.value, ast.Name):
                        self.alias.setdefault(c.name, {})[n.targets[0].id] = n.value.id
        self.modfn = {f.name: f for f in tree.body if isinstance(f, ast.FunctionDef)}
        self.clsname = {c: c for c in CLASSES}
        for n in tree.body:          # Py_Vec = Vec, Cy_Vec = Vec ...
            if isinstance(n, ast.Assign) and len(n.targets) == 1 and isinstance(n.targets[0], ast.Name) and isinstance(n.value, ast.Name) \
                    and n.value.id in CLASSES:
                self.clsname[n.targets[0].id] = n.value.id
        self.dicts = {n.target.id if isinstance(n, ast.AnnAssign) else n.targets[0].id: n.value for n in tree.body
                      if isinstance(n, (ast.Assign, ast.AnnAssign)) and isinstance(getattr(n, 'value', None), ast.Dict)
                      and isinstance(n.target if isinstance(n, ast.AnnAssign) else n.targets[0], ast.Name)}
        self.steps = 0

    # ---- lookup through the class and its base
    def mro(self, cls: str) -> list[str]:
        return [cls] + ([CONCRETE[cls]] if cls in CONCRETE else [])

    def find(self, table: dict, cls: str, name: str):
        for c in self.mro(cls):
            t = table.get(c, {})
            if name in t:
                return t[name]
            a = self.alias.get(c, {}).get(name) if table is self.meth else None
            if a is not None and a in t:
                return t[a]
        return None

    def slots(self, cls: str) -> tuple[str, ...]:
        return FAMILY_SLOTS[CONCRETE.get(cls, cls)]

    def subclass(self, c: str, of: str) -> bool:
        return of in self.mro(c)

    # ---- calls
    def call_fn(self, f: ast.FunctionDef, args: list, depth: int):
        if depth > 8:
            raise _Unk('call depth')
        a = f.args
        names = [x.arg for x in a.posonlyargs + a.args]
        env: dict[str, object] = {}
        if len(args) > len(names) and not a.vararg:
            raise _Unk(f'{f.name}: too many arguments')
        for n, v in zip(names, args):
            env[n] = v
        if a.vararg:
            env[a.vararg.arg] = _T(args[len(names):])
        if a.kwarg:
            env[a.kwarg.arg] = _K({})
        defaults = dict(zip(names[len(names) - len(a.defaults):], a.defaults))
        for n in names[len(args):]:
            if n not in defaults:
                raise _Unk(f'{f.name}: missing argument {n}')
            env[n] = self.ev(defaults[n], {}, depth)
        for ko, kd in zip(a.kwonlyargs, a.kw_defaults):
            if kd is None:
                raise _Unk(f'{f.name}: keyword-only argument')
            env[ko.arg] = self.ev(kd, {}, depth)
        r = self.block(f.body, env, depth)
        return r[1] if r is not None else _K(None)

    def construct(self, cls: str, args: list, depth: int):
        new = self.find(self.meth, cls, '__new__')
        if new is not None:
            obj = self.call_fn(new, [_C(cls)] + args, depth + 1)
            if not (isinstance(obj, _O) and self.subclass(obj.cls, cls)):
                return obj
        else:
            obj = _O(cls)
        init = self.find(self.meth, cls, '__init__')
        if init is not None and not obj.is_self:
            self.call_fn(init, [obj] + args, depth + 1)
        elif init is not None:
            raise _Unk('__init__ would run on the source object')
        return obj

    def call_value(self, fv, args: list, depth: int):
        if isinstance(fv, _C):
            if fv.name not in CONCRETE:
                raise _Unk(f'instantiating {fv.name}')
            return self.construct(fv.name, args, depth)
        if isinstance(fv, _Fn):
            return self.call_fn(fv.fn, ([fv.bound] if fv.bound is not None else []) + args, depth + 1)
        raise _Unk('call of something that is not a class or a known function')

    # ---- statements
    def block(self, stmts: list[ast.stmt], env: dict, depth: int):
        for st in stmts:
            self.steps += 1
            if self.steps > 20000:
                raise _Unk('too many steps')
            if isinstance(st, ast.Expr):
                if isinstance(st.value, ast.Constant):
                    continue
                self.ev(st.value, env, depth)
                continue
            if isinstance(st, ast.Pass):
                continue
            if isinstance(st, ast.Return):
                return ('ret', self.ev(st.value, env, depth) if st.value is not None else _K(None))
            if isinstance(st, ast.If):
                t = self.truth(self.ev(st.test, env, depth))
                r = self.block(st.body if t else st.orelse, env, depth)
                if r is not None:
                    return r
                continue
            if isinstance(st, ast.AnnAssign) and st.value is None:
                continue
            if isinstance(st, (ast.Assign, ast.AnnAssign)):
                targets = st.targets if isinstance(st, ast.Assign) else [st.target]
                v = self.ev(st.value, env, depth)
                for t in targets:
                    self.assign(t, v, env, depth)
                continue
            if isinstance(st, ast.For) and isinstance(st.target, ast.Name) and not st.orelse:
                # a loop over a literal collection (or a constant bound to one) is unrolled
                it = self.ev(st.iter, env, depth)
                items = it.items if isinstance(it, _T) else [_K(x) for x in it.v] if isinstance(it, _K) and isinstance(it.v, (tuple, list)) else None
                if items is None:
                    raise _Unk(f'loop over something that is not a literal collection (line {st.lineno})')
                for x in items:
                    env[st.target.id] = x
                    r = self.block(st.body, env, depth)
                    if r is not None:
                        return r
                continue
            raise _Unk(f'statement {type(st).__name__} (line {st.lineno})')
        return None

    def assign(self, t: ast.AST, v, env: dict, depth: int) -> None:
        if isinstance(t, ast.Name):
            env[t.id] = v
        elif isinstance(t, (ast.Tuple, ast.List)):
            if not isinstance(v, _T) or len(v.items) != len(t.elts) or any(isinstance(e, ast.Starred) for e in t.elts):
                raise _Unk('unpacking')
            for e, x in zip(t.elts, v.items):
                self.assign(e, x, env, depth)
        elif isinstance(t, ast.Attribute):
            self.setattr(self.ev(t.value, env, depth), t.attr, v, depth)
        elif isinstance(t, ast.Subscript):
            o = self.ev(t.value, env, depth)
            if not isinstance(o, _O):
                raise _Unk('item store on a non-object')
            m = self.find(self.meth, o.cls, '__setitem__')
            if m is None:
                raise _Unk(f'{o.cls} has no __setitem__')
            self.call_fn(m, [o, self.ev(t.slice, env, depth), v], depth + 1)
        else:
            raise _Unk('assignment target')

    def setattr(self, o, attr: str, v, depth: int) -> None:
        if not isinstance(o, _O):
            raise _Unk('attribute store on a non-object')
        if o.is_self:
            raise _Unk('store to the source object')
        if attr in self.slots(o.cls):
            o.slots[attr] = v
            return
        s = self.find(self.setter, o.cls, attr)
        if s is None:
            raise _Unk(f'{o.cls}.{attr} is not a slot and has no setter')
        self.call_fn(s, [o, v], depth + 1)

    # ---- expressions
    def truth(self, v) -> bool:
        if isinstance(v, _K) and isinstance(v.v, bool):
            return v.v
        if isinstance(v, _K) and v.v is None:
            return False
        raise _Unk('truth value of a symbolic value')

    def isinst(self, v, spec) -> bool:
        specs = spec.items if isinstance(spec, _T) else [spec]
        res = False
        for c in specs:
            if not isinstance(c, _C):
                raise _Unk('isinstance against a non-class')
            if c.name in ('float', 'int'):
                res = res or isinstance(v, _F) or (isinstance(v, _K) and type(v.v) in (float, int) and (c.name == 'float') == isinstance(v.v, float))
            elif c.name in ('str', 'bytes', 'tuple', 'list', 'dict'):
                res = res or (isinstance(v, _K) and type(v.v).__name__ == c.name) or (c.name == 'tuple' and isinstance(v, _T))
            elif c.name in CLASSES:
                res = res or (isinstance(v, _O) and self.subclass(v.cls, c.name))
            else:
                raise _Unk(f'isinstance against {c.name}')
        return res

    def ev(self, e: ast.AST, env: dict, depth: int):
        if isinstance(e, ast.Constant):
            return _K(e.value)
        if isinstance(e, ast.Name):
            if e.id in env:
                return env[e.id]
            if e.id in self.clsname:
                return _C(self.clsname[e.id])
            if e.id in ('object', 'float', 'int', 'str', 'bytes', 'tuple', 'list', 'dict'):
                return _C(e.id)
            if e.id in self.modfn:
                return _Fn(self.modfn[e.id])
            if e.id in _CONSTS:
                return self.ev(_CONSTS[e.id], {}, depth)
            raise _Unk(f'name {e.id}')
        if isinstance(e, (ast.Tuple, ast.List)):
            return _T(self.ev(x, env, depth) for x in e.elts)
        if isinstance(e, ast.Call) and isinstance(e.func, ast.Name) and e.func.id == 'getattr' and 'getattr' not in env \
                and len(e.args) == 2 and not e.keywords:
            k = self.ev(e.args[1], env, depth)
            if not (isinstance(k, _K) and isinstance(k.v, str) and k.v.isidentifier()):
                raise _Unk('getattr with a symbolic name')
            return self.ev(ast.Attribute(value=e.args[0], attr=k.v, ctx=ast.Load()), env, depth)
        if isinstance(e, ast.Attribute):
            if e.attr == '__new__':
                return _New()
            o = self.ev(e.value, env, depth)
            if isinstance(o, _O):
                if e.attr in self.slots(o.cls):
                    if o.is_self:
                        return _F(e.attr, 0)
                    if e.attr not in o.slots:
                        raise _Unk(f'slot {e.attr} read before it is stored')
                    return o.slots[e.attr]
                g = self.find(self.getter, o.cls, e.attr)
                if g is not None:
                    return self.call_fn(g, [o], depth + 1)
                cls = o.cls
            elif isinstance(o, _C) and o.name in CLASSES:
                cls = o.name
            else:
                raise _Unk(f'attribute {e.attr} of a non-object')
            m = self.find(self.meth, cls, e.attr)
            if m is None:
                raise _Unk(f'{cls}.{e.attr} not found')
            return _Fn(m, _C(cls) if any(isinstance(d, ast.Name) and d.id == 'classmethod' for d in m.decorator_list)
                       else None if any(isinstance(d, ast.Name) and d.id == 'staticmethod' for d in m.decorator_list)
                       else o if isinstance(o, _O) else None)
        if isinstance(e, ast.Subscript):
            if isinstance(e.value, ast.Name) and e.value.id not in env and e.value.id in self.dicts:
                k = self.plain(self.ev(e.slice, env, depth))
                for kk, vv in zip(self.dicts[e.value.id].keys, self.dicts[e.value.id].values):
                    try:
                        if kk is not None and ast.literal_eval(kk) == k:
                            return self.ev(vv, {}, depth)
                    except ValueError:
                        pass
                raise _Unk(f'key not found in {e.value.id}')
            raise _Unk('subscript')
        if isinstance(e, ast.BinOp) and isinstance(e.op, ast.Mod) and _is360(e.right):
            l = self.ev(e.left, env, depth)
            if isinstance(l, _F):
                return _F(l.slot, 2 if l.x in ('half', 2) else 'half')
            raise _Unk('% 360 of a value that is not a source slot')
        if isinstance(e, ast.UnaryOp) and isinstance(e.op, ast.Not):
            return _K(not self.truth(self.ev(e.operand, env, depth)))
        if isinstance(e, ast.BoolOp):
            vals = [self.truth(self.ev(x, env, depth)) for x in e.values]      # no side effects in tests: evaluating all is fine
            return _K(all(vals) if isinstance(e.op, ast.And) else any(vals))
        if isinstance(e, ast.Compare) and len(e.ops) == 1:
            l, r = self.ev(e.left, env, depth), self.ev(e.comparators[0], env, depth)
            op = e.ops[0]
            if isinstance(op, (ast.Is, ast.IsNot)):
                if isinstance(l, _C) and isinstance(r, _C):
                    same = l.name == r.name
                elif isinstance(r, _K) and r.v is None:
                    same = isinstance(l, _K) and l.v is None
                elif isinstance(l, _O) and isinstance(r, _O):
                    same = l is r
                else:
                    raise _Unk('identity test')
                return _K(same if isinstance(op, ast.Is) else not same)
            if isinstance(op, (ast.Eq, ast.NotEq)) and isinstance(l, (_K, _T)) and isinstance(r, (_K, _T)):
                same = self.plain(l) == self.plain(r)
                return _K(same if isinstance(op, ast.Eq) else not same)
            raise _Unk('comparison')
        if isinstance(e, ast.Call):
            if any(isinstance(a, ast.Starred) for a in e.args) or e.keywords:
                raise _Unk('starred / keyword arguments')
            f = e.func
            if isinstance(f, ast.Name) and f.id not in env:
                if f.id in ('float', '_coerce_float') and len(e.args) == 1 and (f.id == 'float' or '_coerce_float' not in self.modfn):
                    v = self.ev(e.args[0], env, depth)
                    if isinstance(v, _F):
                        return _F(v.slot, v.x if v.x in (1, 2, 'half') else 1)
                    if isinstance(v, _K) and type(v.v) in (int, float):
                        return _K(float(v.v))
                    raise _Unk('float() of a non-number')
                if f.id == 'isinstance' and len(e.args) == 2:
                    return _K(self.isinst(self.ev(e.args[0], env, depth), self.ev(e.args[1], env, depth)))
                if f.id == 'type' and len(e.args) == 1:
                    v = self.ev(e.args[0], env, depth)
                    if isinstance(v, _O):
                        return _C(v.cls)
                    raise _Unk('type() of a non-object')
                if f.id == 'setattr' and len(e.args) == 3:
                    k = self.ev(e.args[1], env, depth)
                    if not (isinstance(k, _K) and isinstance(k.v, str)):
                        raise _Unk('setattr with a symbolic name')
                    self.setattr(self.ev(e.args[0], env, depth), k.v, self.ev(e.args[2], env, depth), depth)
                    return _K(None)
            if isinstance(f, ast.Call) and isinstance(f.func, ast.Name) and f.func.id == 'super' and not f.args:
                raise _Unk('super() outside __new__')
            if isinstance(f, ast.Attribute) and f.attr == '__new__':
                if len(e.args) != 1:
                    raise _Unk('__new__ with extra arguments')
                c = self.ev(e.args[0], env, depth)
                if not (isinstance(c, _C) and c.name in CONCRETE):
                    raise _Unk('__new__ of a class that is not concrete')
                return _O(c.name)
            fv = self.ev(f, env, depth)
            return self.call_value(fv, [self.ev(a, env, depth) for a in e.args], depth)
        raise _Unk(f'expression {type(e).__name__}')

    def plain(self, v):
        if isinstance(v, _K):
            return v.v
        if isinstance(v, _T):
            return tuple(self.plain(x) for x in v.items)
        raise _Unk('symbolic value where a constant is needed')

    # ---- the constructor of a frozen class
    def ctor_kind(self, cls: str) -> str | None:
        """__new__ of a frozen class run on (1) an object of that class, (2) an object of its mutable twin, (3) no
        argument: 'RArgFrozen' when (1) returns the argument itself and (2), (3) return a new object of the class;
        'RFresh' when all three are new; None when the run is not understood or says anything else."""
        new = self.find(self.meth, cls, '__new__')
        twin = cls[len('Frozen'):]
        if new is None or twin not in CONCRETE:
            return None
        res = []
        try:
            for arg in (_O(cls, is_self=True), _O(twin, is_self=True), None):
                self.steps = 0
                r = self.call_fn(new, [_C(cls)] + ([arg] if arg is not None else []), 0)
                if not isinstance(r, _O):
                    return None
                if r is arg:
                    res.append('same')
                elif not r.is_self and r.cls == cls and all(sl in r.slots for sl in self.slots(cls)):
                    res.append('new')
                else:
                    return None
        except (_Unk, RecursionError):
            return None
        return {('same', 'new', 'new'): 'RArgFrozen', ('new', 'new', 'new'): 'RFresh'}.get(tuple(res))

    # ---- one copy-like method
    def shape(self, cls: str, meth: str):
        """('CSelf', result class) | ('CSlots', result class, [(dst, src, conversion)]) | ('CUnknown', '', reason)"""
        self.steps = 0
        m = self.find(self.meth, cls, meth)
        if m is None and meth in ('__copy__', '__deepcopy__'):
            m, meth = self.find(self.meth, cls, '__reduce__'), '__reduce__'       # what the copy module falls back to
        if m is None:
            return None
        src = _O(cls, is_self=True)
        try:
            r = self.call_fn(m, [src], 0)
            if meth == '__reduce__':
                if not (isinstance(r, _T) and len(r.items) == 2 and isinstance(r.items[1], _T)):
                    raise _Unk('__reduce__ does not return (maker, (arguments...))')
                r = self.call_value(r.items[0], r.items[1].items, 0)
            if not isinstance(r, _O):
                raise _Unk('the result is not an object of the six classes')
            if r.is_self:
                return ('CSelf', r.cls, [])
            t = []
            for s_ in self.slots(r.cls):
                v = r.slots.get(s_)
                if not isinstance(v, _F) or v.x == 'half':
                    raise _Unk(f'slot {s_} of the result ' + ('is not stored' if v is None else 'does not hold a (fully converted) source slot'))
                t.append((s_, v.slot, {0: 'TId', 1: 'TFloat', 2: 'TNorm360'}[v.x]))
            return ('CSlots', r.cls, t)
        except _Unk as ex:
            return ('CUnknown', '', str(ex))
        except RecursionError:
            return ('CUnknown', '', 'recursion')


def copy_shapes(tree: ast.Module) -> tuple[list[tuple[str, str, str, str]], dict]:
    """(class, copy-like method, class of the result, Coq term of the shape) for the six concrete classes."""
    sym = _Sym(tree)
    out = []
    why = {}
    for cls in CONCRETE:
        for m in COPYLIKE:
            r = sym.shape(cls, m)
            if r is None:
                continue
            kind, rc, t = r
            if kind == 'CSlots':
                term = 'CSlots [' + '; '.join(f'({_s(d)}, {_s(sl)}, {x})' for d, sl, x in t) + ']'
            elif kind == 'CSelf':
                term = 'CSelf'
            else:
                term, why[f'{cls}.{m}'] = 'CUnknown', t
            out.append((cls, m, rc, term))
    if not out:
        raise TranslateError('no copy-like method found')
    return out, {'copy_shapes_not_understood': why}


# ---------------------------------------------------------------------------------------------- state kept between calls
_MUTATING_CALLS = {'append', 'add', 'setdefault', 'update', 'pop', 'clear', 'extend', 'insert', 'remove', 'popitem', 'discard', '__setitem__',
                   '__delitem__', 'appendleft', 'sort', 'reverse', 'move_to_end'}
_CACHE_DECORATORS = {'lru_cache', 'cache', 'cached_property'}
_IMMUTABLE_RESULT = {'str', 'float', 'int', 'bool', 'bytes'}


def shared_state(tree: ast.Module) -> list[tuple[str, str, str]]:
    """Round 5 (histories).  The models of the frame, copy and hash theorems have ONE kind of state: the objects themselves
    (registers).  That is adequate only if no function of math.py keeps anything else from one call to the next.  This
    census lists every place where a function or method could: a `global`/`nonlocal` statement; a store into (or delete
    from) an attribute or item of a module-level name or of a class (`_CACHE[key] = obj`, `Vec._interned[...] = ...`,
    `cls.registry = ...`, `type(self).last = ...`, `setattr(Module_or_Class, ...)`); a mutating method call on such a name
    (`_CACHE.setdefault(...)`, `.append`, `.pop` ...) or on a parameter with a mutable default; a caching decorator (`lru_cache`, `cache`, `cached_property`) on a
    function whose declared result is not an immutable scalar/string.  Rows: (function, kind, name).  Today: none.
    Functions built by exec() from the operator templates are not seen here (the in-place census reads those)."""
    module_level: set[str] = set()
    for n in tree.body:
        for t in _targets(n):
            if isinstance(t, ast.Name):
                module_level.add(t.id)
    classes = {n.name for n in ast.walk(tree) if isinstance(n, ast.ClassDef)}
    rows: set[tuple[str, str, str]] = set()

    def root(e: ast.AST) -> ast.AST:
        while isinstance(e, (ast.Attribute, ast.Subscript)):
            e = e.value
        return e

    def deco(d: ast.AST) -> str | None:
        if isinstance(d, ast.Call):
            d = d.func
        return d.attr if isinstance(d, ast.Attribute) else d.id if isinstance(d, ast.Name) else None

    def one(fn: ast.FunctionDef, q: str) -> None:
        for d in fn.decorator_list:
            if deco(d) in _CACHE_DECORATORS:
                r = fn.returns
                rn = r.id if isinstance(r, ast.Name) else r.value if isinstance(r, ast.Constant) and isinstance(r.value, str) else None
                if rn not in _IMMUTABLE_RESULT:
                    rows.add((q, 'cached_result', str(deco(d))))
        params = {a.arg for a in fn.args.posonlyargs + fn.args.args + fn.args.kwonlyargs}
        for va in (fn.args.vararg, fn.args.kwarg):
            if va is not None:
                params.add(va.arg)
        outer: set[str] = set()
        local = set(params)
        for n in ast.walk(fn):
            if isinstance(n, (ast.Global, ast.Nonlocal)):
                outer.update(n.names)
            elif isinstance(n, ast.Name) and isinstance(n.ctx, ast.Store):
                local.add(n.id)
        local -= outer
        for g in sorted(outer):
            rows.add((q, 'global_statement', g))
        # a mutable default argument is created once and shared by all calls: `def thaw(self, _memo={})`
        pos = fn.args.posonlyargs + fn.args.args
        defaults = list(zip(pos[len(pos) - len(fn.args.defaults):], fn.args.defaults)) + \
            [(a, d) for a, d in zip(fn.args.kwonlyargs, fn.args.kw_defaults) if d is not None]
        mutable_default = {a.arg for a, d in defaults
                           if isinstance(d, (ast.Dict, ast.List, ast.Set, ast.ListComp, ast.DictComp, ast.SetComp))
                           or (isinstance(d, ast.Call) and not (isinstance(d.func, ast.Name) and d.func.id in ('float', 'int', 'str', 'bool', 'tuple', 'frozenset', 'object')))}
        first = fn.args.args[0].arg if fn.args.args else None
        is_cm = any(deco(d) == 'classmethod' for d in fn.decorator_list) or fn.name in ('__new__', '__init_subclass__', '__class_getitem__')

        def outlives(r: ast.AST) -> str | None:
            if isinstance(r, ast.Name) and r.id in mutable_default:
                return f'default of {r.id}'
            if isinstance(r, ast.Name):
                if r.id not in local and (r.id in module_level or r.id in classes):
                    return r.id
                if is_cm and r.id == first:
                    return r.id                                   # the class itself
            if isinstance(r, ast.Call) and isinstance(r.func, ast.Name) and r.func.id == 'type':
                return 'type(...)'
            if isinstance(r, ast.Attribute) and r.attr == '__class__':
                return '__class__'
            return None
        for n in ast.walk(fn):
            tg: list[ast.AST] = []
            if isinstance(n, ast.Assign):
                tg = list(n.targets)
            elif isinstance(n, (ast.AugAssign, ast.AnnAssign)):
                tg = [n.target]
            elif isinstance(n, ast.Delete):
                tg = list(n.targets)
            for t in tg:
                for e in _flat(t):
                    if isinstance(e, (ast.Attribute, ast.Subscript)):
                        r = e
                        while isinstance(r, (ast.Attribute, ast.Subscript)):
                            if isinstance(r, ast.Attribute) and r.attr == '__class__':
                                break
                            r = r.value
                        w = outlives(r)
                        if w is not None:
                            rows.add((q, 'store_into_module_or_class_level_object', w))
            if isinstance(n, ast.Call) and isinstance(n.func, ast.Attribute) and n.func.attr in _MUTATING_CALLS:
                w = outlives(root(n.func.value))
                if w is not None and not (is_cm and w == first):
                    rows.add((q, 'mutating_call_on_module_or_class_level_object', f'{w}.{n.func.attr}'))
            if isinstance(n, ast.Call) and isinstance(n.func, ast.Name) and n.func.id in ('setattr', 'delattr') and n.args:
                w = outlives(root(n.args[0]))
                if w is not None:
                    rows.add((q, 'store_into_module_or_class_level_object', w))

    def visit(node: ast.AST, qual: list[str]) -> None:
        for ch in ast.iter_child_nodes(node):
            if isinstance(ch, ast.ClassDef):
                visit(ch, qual + [ch.name])
            elif isinstance(ch, (ast.FunctionDef, ast.AsyncFunctionDef)):
                one(ch, '.'.join(qual + [ch.name]))
                visit(ch, qual + [ch.name])
            else:
                visit(ch, qual)
    visit(tree, [])
    return sorted(rows)


# ---------------------------------------------------------------------------------------------- emit
def _s(x: str) -> str:
    return '"' + x.replace('"', "'") + '"'


def translate() -> tuple[str, dict]:
    text = src_text('math.py')
    tree = ast.parse(text)
    sites, info = angle_sites()
    creations, cinfo = angle_creations(tree)
    info.update(cinfo)
    ctor_rows, crinfo = angle_ctor_rows(tree)
    info.update(crinfo)
    _LAST_CTOR_ROWS[:] = ctor_rows
    cfg = format_cfg(tree)
    pcfg = parse_cfg(tree)
    strs = str_templates(tree)
    info['fresh_names_derived'] = sorted(derive_fresh_names(tree))
    mr, ma = derive_mutators(tree)
    info['receiver_mutators_derived'], info['argument_mutators_derived'] = sorted(mr), sorted(ma)
    FRESH_USED.clear()
    muts = mutation_census(tree)
    meths = method_table(tree)
    results, rinfo = result_kinds(tree)
    fresh = fresh_by_name(rinfo.pop('all_method_kinds'))
    info.update(rinfo)
    shapes, sinfo = copy_shapes(tree)
    info.update(sinfo)
    hashes, hinfo = hash_kinds(tree)
    inplace = inplace_methods(tree)
    eqs, einfo = eq_shapes(tree)
    info.update(einfo)
    specs = format_spec_cfgs(tree)
    info.update(hinfo)
    shared = shared_state(tree)
    # __str__: three numbers separated by single spaces
    def plain3(p, sep, fam, pre='', post=''):
        want = ([['lit', pre]] if pre else []) + [['num', fam[0]], list(sep), ['num', fam[1]], list(sep), ['num', fam[2]]] + ([['lit', post]] if post else [])
        return [list(x) for x in p] == want
    V, A = FAMILY_SLOTS['VecBase'], FAMILY_SLOTS['AngleBase']
    # the three slots of the family, in order, each through format_float with default places; single spaces / the delimiter
    # between them; repr: ClassName(x, y, z)
    str_ok = plain3(strs['VecBase.__str__'], ('lit', ' '), V) and plain3(strs['AngleBase.__str__'], ('lit', ' '), A) \
        and plain3(strs['VecBase.join'], ('delim', ''), V) and plain3(strs['AngleBase.join'], ('delim', ''), A) \
        and all(plain3(strs[f'{c}.__repr__'], ('lit', ', '), fam, c + '(', ')') for c, fam in (('Vec', V), ('FrozenVec', V), ('Angle', A), ('FrozenAngle', A)))
    b = lambda x: 'true' if x else 'false'
    lines = [
        '(* GENERATED by translate/c05_sites.py from src/srctools/math.py. Do not edit. *)',
        'From Coq Require Import ZArith NArith List String.',
        'From SV Require Import Num.Dec6 Num.AngleSites Num.AngleCtor Num.SpecStrip Num.VecText SM.FrozenOps SM.FrozenCopy SM.FrozenCopyValue SM.FrozenHash SM.FrozenEq.',
        'Import ListNotations.', 'Open Scope string_scope.',
        '(* every store to an _pitch/_yaw/_roll slot: (file:Class.function:slot, classification of the stored value) *)',
        'Definition angle_sites : list (string * rhs) := [',
        ';\n'.join(f'  ({_s(w)}, {k})' for w, k, _ in sites),
        '].',
        '(* every expression that creates an Angle/FrozenAngle object: (function, how its slots get written) *)',
        'Definition angle_creations : list (string * creation) := [',
        ';\n'.join(f'  ({_s(w)}, {k})' for w, k, _ in creations),
        '].',
        '(* Angle.__init__ / FrozenAngle.__new__ run once per form of the first argument: (constructor, form, what that path does) *)',
        'Definition angle_ctors : list string := [' + '; '.join(_s(c) for c in crinfo['angle_ctors']) + '].',
        'Definition angle_ctor_rows : list ctor_row := [',
        ';\n'.join(f'  ({_s(c)}, {fm}, {a})' for c, fm, a in ctor_rows),
        '].',
        f'Definition to_angle_stores_all_slots : bool := {b(cinfo["stores_all_slots_on_every_path"]["MatrixBase._to_angle"])}.',
        f'Definition angle_init_stores_all_slots : bool := {b(cinfo["stores_all_slots_on_every_path"]["Angle.__init__"])}.',
        '(* the format_float pipeline *)',
        f'Definition format_float_recognised : bool := {b(cfg["recognised"])}.',
        f'Definition format_float_cfg : fmt_cfg := {{| adds_zero := {b(cfg["adds_zero"])}; places := {cfg["places"]}%N; '
        f'strips := {b(cfg["strips"])}; neg_zero_fix := {b(cfg["neg_zero_fix"])} |}}.',
        f'Definition str_uses_format_float : bool := {b(str_ok)}.',
        '(* parse_vec_str and the from_str classmethods *)',
        f'Definition parse_vec_recognised : bool := {b(pcfg["recognised"])}.',
        f'Definition parse_vec_cfg : parse_cfg := {{| strips_ws := {b(pcfg["strips_ws"])}; opens := [{"; ".join(str(ord(ch)) for ch in pcfg["opens"])}]%N; '
        f'closes := [{"; ".join(str(ord(ch)) for ch in pcfg["closes"])}]%N; splits_ws := {b(pcfg["splits_ws"])}; uses_float := {b(pcfg["uses_float"])} |}}.',
        f'Definition parse_passes_objects_through : bool := {b(pcfg["passthrough"])}.',
        f'Definition vec_from_str_uses_parse : bool := {b(pcfg["VecBase.from_str"])}.',
        f'Definition angle_from_str_uses_parse : bool := {b(pcfg["AngleBase.from_str"])}.',
        '(* writes to objects that are not freshly created inside the method: (class, method, written object, what) *)',
        'Definition mut_events : list (string * string * origin * string) := [',
        ';\n'.join(f'  ({_s(c)}, {_s(m)}, {o}, {_s(w)})' for c, m, o, w, _ in muts),
        '].',
        '(* kind of the result of every public method of the six concrete classes, resolved through inheritance *)',
        'Definition result_kinds : list (string * string * rkind) := [',
        ';\n'.join(f'  ({_s(c)}, {_s(m)}, {k})' for c, m, k in results),
        '].',
        '(* what copy / __copy__ / __deepcopy__ / __reduce__ / freeze / thaw build: (class, method, class of the result, slot transfer) *)',
        'Definition copy_shapes : list copy_entry := [',
        ';\n'.join(f'  ({_s(c)}, {_s(m)}, {_s(rc)}, {"FrozenCopyValue.CUnknown" if t == "CUnknown" else t})' for c, m, rc, t in shapes),
        '].',
        '(* hash(obj) for the six concrete classes after Python\'s resolution of __hash__ / __eq__ *)',
        'Definition hash_kinds : list hash_row := [',
        ';\n'.join(f'  ({_s(c)}, {k})' for c, k in hashes),
        '].',
        '(* __format__ with a user spec: what happens to each component after format(value, spec) *)',
        f'Definition format_spec_recognised : bool := {b(specs["vec"]["recognised"] and specs["angle"]["recognised"])}.',
        f'Definition format_spec_empty_is_str : bool := {b(specs["vec"]["empty_is_str"] and specs["angle"]["empty_is_str"])}.',
    ] + [
        f'Definition {k}_spec_cfg : spec_cfg := {{| guard_dot := {b(c["guard_dot"])}; guard_no_exp := {b(c["guard_no_exp"])}; strip_zeros := {b(c["strip_zeros"])}; '
        f'strip_dot := {b(c["strip_dot"])}; dot_outside := {b(c["dot_outside"])}; spec_neg_zero_fix := {b(c["neg_zero_fix"])} |}}.'
        for k, c in (('vec', specs['vec']), ('angle', specs['angle']))
    ] + [
        '(* == on two objects of one family: comparison per slot; != is its negation *)',
        'Definition eq_shapes : list eq_row := [',
        ';\n'.join(f'  ({_s(c)}, [' + '; '.join(f'({_s(sl)}, {"FrozenEq.CUnknown" if k == "CUnknown" else k})' for sl, k in cm) + '])' for c, cm in eqs),
        '].',
        f'Definition ne_is_negation_of_eq : bool := {b(einfo["ne_is_negation_all"])}.',
        '(* every in-place operator method: (defining class, name) *)',
        'Definition inplace_rows : list inplace_row := [',
        ';\n'.join(f'  ({_s(c)}, {_s(m)})' for c, m in inplace),
        '].',
        '(* state a function keeps between calls besides the objects themselves: (function, kind, name) *)',
        'Definition shared_state : list (string * string * string) := [',
        ';\n'.join(f'  ({_s(q)}, {_s(k)}, {_s(w)})' for q, k, w in shared),
        '].',
        '(* methods whose result the census treats as a new object because of their NAME, with the kind read from their returns *)',
        'Definition fresh_by_name : list (string * rkind) := [',
        ';\n'.join(f'  ({_s(w)}, {k})' for w, k in fresh),
        '].',
        '',
    ]
    side = {'shared_state': [list(r) for r in shared], 'eq_shapes': [[c, [list(x) for x in cm]] for c, cm in eqs], 'format_spec': specs, 'inplace_rows': [list(r) for r in inplace], 'hash_kinds': [list(h) for h in hashes], 'angle_ctor_rows': [list(r) for r in ctor_rows], 'fresh_by_name': [list(x) for x in fresh], 'copy_shapes': [list(x) for x in shapes], 'angle_sites': [list(s) for s in sites], 'angle_creations': [list(c) for c in creations], 'format_float': cfg, 'parse_vec_str': pcfg, 'str_templates': strs,
            'mut_events': [list(m) for m in muts], 'result_kinds': [list(r) for r in results], 'n_methods': len(meths), **info,
            'digests': {'parse_vec_str': _digest(tree, 'parse_vec_str'), 'format_float': cfg['digest']}}
    return '\n'.join(lines), side


def _digest(tree: ast.Module, name: str) -> str:
    for n in tree.body:
        if isinstance(n, ast.FunctionDef) and n.name == name:
            return ast_digest(n)
    raise TranslateError(f'{name} not found')


GEN = {'AngleSites_gen': translate}
