"""C01 translator: the writer side of KeyValues1 -> Gen/KVSer_gen.v.

From keyvalues.py (class Keyvalues):
  * `serialise`: the two definitions of open_brace/close_brace (indent_braces on/off) as templates, and the
    argument list of the call to `_serialise` (must pass indent/open_brace/close_brace/start_indent unchanged);
  * `_serialise`: every `file.write(...)` of the named-block branch (before / after the child loop), of the
    leaf branch, the cur_indent handed to children (named block and root), each f-string piece classified
    Lit / Var / Raw field / Esc field / Other;
  * `export` (deprecated writer): every yielded f-string, classified the same way;
  * a census of attribute/subscript stores and of calls on tree objects inside these three functions.
From tokenizer.py: the ESCAPES dict literal and the exclusion string of ESCAPE_RE, after checking that
`escape_text`, `_escape_matcher`, `ESCAPES_INV` and `ESCAPE_RE` have the shapes the model assumes.

Fail closed: anything not recognised raises TranslateError.
"""
from __future__ import annotations

import ast

from harness.common import TranslateError, ast_digest, src_text

PURE_TREE_METHODS = {'_serialise', 'serialise', 'serialize', 'export', 'has_children', 'is_root'}
WRITER_METHODS = {'_serialise', 'serialise', 'serialize', 'export'}
PURE_STR_METHODS = {'casefold', 'lower', 'upper', 'strip', 'lstrip', 'rstrip', 'startswith', 'endswith', 'replace', 'encode', 'isspace'}
MUTATING_METHODS = {'append', 'extend', 'insert', 'pop', 'remove', 'clear', 'sort', 'reverse', 'edit', 'set_key',
                    'merge_children', 'ensure_exists', '__setitem__', '__delitem__', '__iadd__', 'popitem',
                    'update', 'setdefault'}
PURE_FUNCS = {'isinstance', 'repr', 'escape_text', 'str', 'len', 'iter', 'type', 'id'}


def _err(node: ast.AST, msg: str) -> TranslateError:
    return TranslateError(f'keyvalues.py:{getattr(node, "lineno", "?")}: {msg}')


def coq_chars(s: str) -> str:
    return '[' + ';'.join(str(ord(c)) for c in s) + ']'


def coq_piece(p) -> str:
    k = p[0]
    if k == 'Lit':
        return f'PLit {coq_chars(p[1])}'
    if k == 'Var':
        return f'PVar {p[1]}'
    if k == 'Raw':
        return f'PRaw {p[1]}'
    if k == 'Esc':
        return f'PEsc {p[1]}'
    return 'POther'


def coq_pieces(ps) -> str:
    return '[' + '; '.join(coq_piece(p) for p in ps) + ']'


class FStr:
    """Classify the pieces of an f-string / string constant given the meaning of the names in scope."""
    module_funcs: dict = {}     # module-level `def f(x): return <text expression over x>` of keyvalues.py: inlined at calls

    def __init__(self, self_name: str, varmap: dict[str, str]) -> None:
        self.self_name = self_name
        self.varmap = varmap            # python name -> Coq tvar constructor
        self.locals: dict[str, list] = {}   # local string variables -> pieces

    def field(self, node: ast.AST):
        if isinstance(node, ast.Attribute) and isinstance(node.value, ast.Name) and node.value.id == self.self_name:
            if node.attr in ('_real_name', 'real_name'):
                return 'FName'
            if node.attr in ('_value', 'value'):
                return 'FValue'
        return None

    def simple(self, e: ast.AST):
        """Pieces of an expression that is a known variable, a tree field or escape_text(field); None otherwise."""
        if isinstance(e, ast.Name):
            if e.id in self.locals:
                return list(self.locals[e.id])
            if e.id in self.varmap:
                return [('Var', self.varmap[e.id])]
            return None
        f = self.field(e)
        if f is not None:
            return [('Raw', f)]
        if isinstance(e, ast.Call) and isinstance(e.func, ast.Name) and e.func.id == 'escape_text' \
                and len(e.args) == 1 and not e.keywords and self.field(e.args[0]) is not None:
            return [('Esc', self.field(e.args[0]))]
        # a text-building helper of the same module applied to a field or a known variable: its body, with the parameter
        # replaced by the argument (`def _quoted(s): return f'"{escape_text(s)}"'`)
        if isinstance(e, ast.Call) and isinstance(e.func, ast.Name) and e.func.id in self.module_funcs \
                and len(e.args) == 1 and not e.keywords and getattr(self, '_depth', 0) < 4 \
                and (self.field(e.args[0]) is not None or (isinstance(e.args[0], ast.Name) and self.simple(e.args[0]) is not None)):
            import copy
            hf = self.module_funcs[e.func.id]
            hb = _strip_doc(hf.body)
            a = hf.args
            if len(a.args) == 1 and not (a.posonlyargs or a.kwonlyargs or a.vararg or a.kwarg) and len(hb) == 1 \
                    and isinstance(hb[0], ast.Return) and hb[0].value is not None:
                par = a.args[0].arg

                class Sub(ast.NodeTransformer):
                    def visit_Name(self, n):
                        return copy.deepcopy(e.args[0]) if n.id == par else n
                body_ = Sub().visit(copy.deepcopy(hb[0].value))
                self._depth = getattr(self, '_depth', 0) + 1
                try:
                    return self.pieces(ast.fix_missing_locations(body_))
                except TranslateError:
                    return None
                finally:
                    self._depth -= 1
        return None

    def pieces(self, node: ast.AST) -> list:
        if isinstance(node, ast.Constant) and isinstance(node.value, str):
            return [('Lit', node.value)] if node.value else []
        if isinstance(node, ast.BinOp) and isinstance(node.op, ast.Add):
            return self._merge(self.pieces(node.left) + self.pieces(node.right))
        # 'lit{}lit{}'.format(a, b)  and  'lit%slit%s' % (a, b): the same text as the f-string with a, b in the holes
        # (only plain positional holes `{}` / `%s`; anything else is a piece the model does not know: POther)
        parts = args = None         # parts: [(literal, has_hole)]
        if isinstance(node, ast.Call) and isinstance(node.func, ast.Attribute) and node.func.attr == 'format' \
                and isinstance(node.func.value, ast.Constant) and isinstance(node.func.value.value, str) and not node.keywords \
                and not any(isinstance(a, ast.Starred) for a in node.args):
            import string
            args, parts = list(node.args), []
            try:
                for lit, field, spec, conv in string.Formatter().parse(node.func.value.value):     # resolves {{ and }}
                    if field is None:
                        parts.append((lit, False))
                    elif field == '' and not spec and conv is None:
                        parts.append((lit, True))
                    else:
                        return [('Other', 'format() template with named / indexed / converted fields')]
            except ValueError:
                return [('Other', 'malformed format() template')]
        elif isinstance(node, ast.BinOp) and isinstance(node.op, ast.Mod) and isinstance(node.left, ast.Constant) \
                and isinstance(node.left.value, str):
            args = list(node.right.elts) if isinstance(node.right, ast.Tuple) else [node.right]
            segs = node.left.value.replace('%%', '\0').split('%s')
            if any('%' in x for x in segs):
                return [('Other', '%-template with conversions other than %s')]
            parts = [(x.replace('\0', '%'), i < len(segs) - 1) for i, x in enumerate(segs)]
        if parts is not None:
            if sum(1 for _, h in parts if h) != len(args):
                return [('Other', 'template / argument count mismatch')]
            out_: list = []
            k = 0
            for lit, hole in parts:
                if lit:
                    out_.append(('Lit', lit))
                if hole:
                    sp = self.simple(args[k])
                    out_ += sp if sp is not None else [('Other', ast.dump(args[k])[:60])]
                    k += 1
            return self._merge(out_)
        if not isinstance(node, ast.JoinedStr):
            sp = self.simple(node)
            if sp is None:
                raise _err(node, f'written text is not an f-string/constant/known name/field: {ast.dump(node)[:80]}')
            return sp
        out: list = []
        for v in node.values:
            if isinstance(v, ast.Constant) and isinstance(v.value, str):
                if v.value:
                    out.append(('Lit', v.value))
                continue
            if not isinstance(v, ast.FormattedValue):
                raise _err(v, 'unknown f-string component')
            if v.conversion != -1 or v.format_spec is not None:
                out.append(('Other', ast.dump(v)[:60]))
                continue
            sp = self.simple(v.value)
            out += sp if sp is not None else [('Other', ast.dump(v.value)[:60])]
        return self._merge(out)

    @staticmethod
    def _merge(out: list) -> list:
        # merge adjacent literals
        merged: list = []
        for p in out:
            if p[0] == 'Lit' and merged and merged[-1][0] == 'Lit':
                merged[-1] = ('Lit', merged[-1][1] + p[1])
            else:
                merged.append(p)
        return merged


def _root_name(node: ast.AST):
    while isinstance(node, (ast.Attribute, ast.Subscript, ast.Call)):
        node = node.func if isinstance(node, ast.Call) else node.value
    return node.id if isinstance(node, ast.Name) else None


def _pure_helper(name: str) -> bool:
    """A module-level `def f(x): return <expr>` whose expression calls nothing but the pure functions: it cannot store
    to or mutate what it is given."""
    hf = FStr.module_funcs.get(name)
    if hf is None:
        return False
    hb = _strip_doc(hf.body)
    if len(hb) != 1 or not isinstance(hb[0], ast.Return) or hb[0].value is None:
        return False
    return all(isinstance(c.func, ast.Name) and c.func.id in PURE_FUNCS
               for c in ast.walk(hb[0].value) if isinstance(c, ast.Call))


# ------------------------------------------------------------------------------------------------ state that outlives a call
# Round 5: the writers must neither read nor write anything that outlives the call (a module-level or class-level mutable
# object): otherwise what a call does depends on the calls before it, in particular on calls that were aborted half-way.
STATE_MUTATORS = {'add', 'discard', 'remove', 'pop', 'clear', 'update', 'append', 'extend', 'insert', 'setdefault', 'popitem',
                  'sort', 'reverse', 'appendleft', 'popleft', 'difference_update', 'intersection_update',
                  'symmetric_difference_update', '__setitem__', '__delitem__', 'cache_clear'}
STATE_MARK = {'add', 'append', 'appendleft'}
STATE_UNMARK = {'discard', 'remove', 'pop', 'popleft'}
STATE: dict = {'module': {}, 'cls': {}, 'class_name': None}     # per source module: names of its mutable module-level objects


def _mutable_value(v, depth: int = 0) -> bool:
    """Can the object change (so that holding it at module / class level is state)?  Functions, classes, modules, strings,
    numbers, None, compiled patterns, enum members, typing constructs, frozensets and tuples of such values cannot."""
    import enum
    import re
    import types
    import typing
    if v is None or isinstance(v, (str, bytes, int, float, complex, bool, frozenset, re.Pattern, enum.Enum, type,
                                   types.FunctionType, types.BuiltinFunctionType, types.ModuleType, types.MethodType,
                                   staticmethod, classmethod, property, types.MemberDescriptorType,
                                   types.GetSetDescriptorType, types.WrapperDescriptorType, types.MethodDescriptorType,
                                   typing.TypeVar)):
        return False
    if type(v).__module__ in ('typing', 'typing_extensions', 'types') and not isinstance(v, (list, dict, set)):
        return False
    if isinstance(v, tuple):
        return depth > 3 or any(_mutable_value(x, depth + 1) for x in v)
    return True


def _written_in_functions(tree: ast.Module, name: str) -> list:
    """Lines inside function bodies of the module where the module-level object `name` is changed or rebound."""
    out = []
    for fn in ast.walk(tree):
        if not isinstance(fn, (ast.FunctionDef, ast.AsyncFunctionDef, ast.Lambda)):
            continue
        for n in ast.walk(fn):
            if isinstance(n, (ast.Global, ast.Nonlocal)) and name in n.names:
                out.append(n.lineno)
            elif isinstance(n, ast.Call) and isinstance(n.func, ast.Attribute) and n.func.attr in STATE_MUTATORS \
                    and _root_name(n.func.value) == name:
                out.append(n.lineno)
            elif isinstance(n, (ast.Subscript, ast.Attribute)) and isinstance(n.ctx, (ast.Store, ast.Del)) \
                    and _root_name(n) == name:
                out.append(n.lineno)
    return sorted(set(out))


def init_state(modfile: str, tree: ast.Module, cls: ast.ClassDef | None = None) -> None:
    """The module-level (and, for `cls`, class-level) objects of the module under test that are mutable AND are changed
    by some function of the module (a table that is only ever read is a constant)."""
    import importlib
    try:
        mod = importlib.import_module('srctools.' + modfile[:-3])
    except Exception as e:      # noqa: BLE001   fail closed, not INTERNAL-ERROR
        raise TranslateError(f'{modfile}: the module under test cannot be imported: {e!r}')
    names = {}
    for k, v in vars(mod).items():
        if k.startswith('__') or not _mutable_value(v):
            continue
        w = _written_in_functions(tree, k)
        names[k] = w
    STATE['module'][modfile] = names
    if cls is not None:
        STATE['class_name'] = cls.name
        cobj = getattr(mod, cls.name)
        STATE['cls'] = {k: True for k, v in vars(cobj).items() if not k.startswith('__') and _mutable_value(v)}


def state_refs(node: ast.AST, modfile: str, self_names: set) -> list:
    """[(line, 'read' | 'write', name)] for every use inside `node` of something that outlives the call: a module-level
    mutable object some function changes, a class-level mutable attribute (reached through the class, type(self),
    self.__class__ or the instance), a `global` declaration."""
    mnames = STATE['module'].get(modfile, {})
    out = []
    local_stores = {n.id for n in ast.walk(node) if isinstance(n, ast.Name) and isinstance(n.ctx, ast.Store)}
    globals_decl = {g for n in ast.walk(node) if isinstance(n, (ast.Global, ast.Nonlocal)) for g in n.names}
    for n in ast.walk(node):
        if isinstance(n, (ast.Global, ast.Nonlocal)):
            out += [(n.lineno, 'write', g) for g in n.names]
        elif isinstance(n, ast.Name) and n.id in globals_decl and isinstance(n.ctx, (ast.Store, ast.Del)):
            out.append((n.lineno, 'write', n.id))
        elif isinstance(n, ast.Name) and n.id in mnames and (n.id not in local_stores or n.id in globals_decl):
            if mnames[n.id]:        # changed by some function of the module
                out.append((n.lineno, 'read', n.id))
        elif isinstance(n, ast.Attribute):
            root = n.value
            via_class = _is_name(root, STATE['class_name'] or '') or (
                isinstance(root, ast.Attribute) and root.attr == '__class__') or (
                isinstance(root, ast.Call) and _is_name(root.func, 'type'))
            if (via_class or (isinstance(root, ast.Name) and root.id in self_names)) and n.attr in STATE['cls']:
                out.append((n.lineno, 'write' if isinstance(n.ctx, (ast.Store, ast.Del)) else 'read', n.attr))
            elif via_class and isinstance(n.ctx, (ast.Store, ast.Del)):
                out.append((n.lineno, 'write', n.attr))
    # a mutating method call / item store on such an object is a write
    for n in ast.walk(node):
        tgt = None
        if isinstance(n, ast.Call) and isinstance(n.func, ast.Attribute) and n.func.attr in STATE_MUTATORS:
            tgt = n.func.value
        elif isinstance(n, (ast.Subscript, ast.Attribute)) and isinstance(n.ctx, (ast.Store, ast.Del)):
            tgt = n.value
        if tgt is not None:
            for nm in state_refs_names(tgt, mnames):
                out.append((n.lineno, 'write', nm))
    return sorted(set(out))


def state_refs_names(node: ast.AST, mnames: dict) -> list:
    return [x.id for x in ast.walk(node) if isinstance(x, ast.Name) and x.id in mnames and mnames[x.id]] + \
           [x.attr for x in ast.walk(node) if isinstance(x, ast.Attribute) and x.attr in STATE['cls']]


def state_kind(s: ast.stmt, modfile: str, self_names: set):
    """A statement of a writer that touches state outliving the call, classified for the history model (KV/KvWHist.v):
       'guard'   `if <own identity> in <state>: raise ...`            (no else branch)
       'mark'    `<state>.add(<own identity>)` / append
       'unmark'  `<state>.discard(<own identity>)` / remove
       'state'   anything else that mentions such state
       None      the statement does not touch it."""
    refs = state_refs(s, modfile, self_names)
    if not refs:
        return None

    def own_id(e) -> bool:
        return (isinstance(e, ast.Call) and _is_name(e.func, 'id') and len(e.args) == 1 and not e.keywords
                and isinstance(e.args[0], ast.Name) and e.args[0].id in self_names) \
            or (isinstance(e, ast.Name) and e.id in self_names)

    def is_state_obj(e) -> bool:
        return isinstance(e, (ast.Name, ast.Attribute)) and bool(state_refs(ast.Expr(value=e, lineno=s.lineno), modfile, self_names))
    if isinstance(s, ast.If) and not s.orelse and len(s.body) == 1 and isinstance(s.body[0], ast.Raise) \
            and isinstance(s.test, ast.Compare) and len(s.test.ops) == 1 and isinstance(s.test.ops[0], ast.In) \
            and own_id(s.test.left) and is_state_obj(s.test.comparators[0]):
        return 'guard'
    if isinstance(s, ast.Expr) and isinstance(s.value, ast.Call) and isinstance(s.value.func, ast.Attribute) \
            and is_state_obj(s.value.func.value) and len(s.value.args) == 1 and not s.value.keywords and own_id(s.value.args[0]):
        if s.value.func.attr in STATE_MARK:
            return 'mark'
        if s.value.func.attr in STATE_UNMARK:
            return 'unmark'
    return 'state'


def census(fn: ast.FunctionDef, self_name: str) -> tuple[list, list, list]:
    """(stores on tree objects, mutating calls on tree objects, everything else noteworthy); fail closed on
    calls that cannot be classified."""
    tree_names = {self_name}
    fn = ast.Module(body=list(fn.body), type_ignores=[])     # the body only (decorators/defaults are not executed per call)
    for n in ast.walk(fn):
        if isinstance(n, (ast.For, ast.comprehension)) and isinstance(n.target, ast.Name) \
                and _root_name(n.iter) in tree_names:
            tree_names.add(n.target.id)
    # second pass (names bound from names bound above)
    for n in ast.walk(fn):
        if isinstance(n, (ast.For, ast.comprehension)) and isinstance(n.target, ast.Name) \
                and _root_name(n.iter) in tree_names:
            tree_names.add(n.target.id)
    write_aliases = {n.targets[0].id for n in ast.walk(fn)
                     if isinstance(n, ast.Assign) and len(n.targets) == 1 and isinstance(n.targets[0], ast.Name)
                     and isinstance(n.value, ast.Attribute) and n.value.attr == 'write' and _root_name(n.value) not in tree_names}
    stores, muts, info = [], [], []
    import builtins as _b
    raised = {id(n.exc) for n in ast.walk(fn) if isinstance(n, ast.Raise) and isinstance(n.exc, ast.Call)
              and isinstance(n.exc.func, ast.Name) and isinstance(getattr(_b, n.exc.func.id, None), type)
              and issubclass(getattr(_b, n.exc.func.id), BaseException)}
    for n in ast.walk(fn):
        if id(n) in raised:
            continue        # `raise ValueError(...)`: the construction of a built-in exception
        tgts = []
        if isinstance(n, ast.Assign):
            tgts = n.targets
        elif isinstance(n, (ast.AugAssign, ast.AnnAssign)):
            tgts = [n.target] if getattr(n, 'value', None) is not None or isinstance(n, ast.AugAssign) else []
        elif isinstance(n, ast.Delete):
            tgts = n.targets
        flat = []
        for t in tgts:
            flat += list(t.elts) if isinstance(t, (ast.Tuple, ast.List)) else [t]
        for t in flat:
            if isinstance(t, (ast.Attribute, ast.Subscript)):
                if _root_name(t) in tree_names:
                    stores.append(n.lineno)
                else:
                    info.append(f'store to {ast.unparse(t)} at {n.lineno}')
            elif isinstance(t, ast.Name) and t.id in tree_names and not isinstance(n, ast.AnnAssign):
                raise _err(n, f'tree variable {t.id} is rebound')
        if isinstance(n, ast.Call):
            f = n.func
            if isinstance(f, ast.Attribute):
                rn = _root_name(f.value)
                if rn in tree_names:
                    if f.attr in PURE_TREE_METHODS:
                        # the writers themselves are censused one by one; any other method taken as pure must be a
                        # one-line predicate whose expression calls nothing but pure functions and binds nothing
                        if f.attr not in WRITER_METHODS:
                            mf = SELF_PREDS.get(f.attr)
                            if mf is None or any(isinstance(x, ast.NamedExpr) or (isinstance(x, ast.Call) and not (
                                    isinstance(x.func, ast.Name) and x.func.id in PURE_FUNCS))
                                    for x in ast.walk(_strip_doc(mf.body)[0].value)):
                                raise _err(n, f'.{f.attr}() is taken as pure but is not a one-line pure predicate')
                    elif f.attr in MUTATING_METHODS:
                        muts.append(n.lineno)
                    elif f.attr in PURE_STR_METHODS and isinstance(f.value, ast.Attribute) \
                            and f.value.attr in ('_real_name', 'real_name', 'name', '_folded_name'):
                        pass        # a str method on the name of a node: strings are immutable
                    else:
                        raise _err(n, f'unclassified method call .{f.attr}() on a tree object')
                else:
                    for a in list(n.args) + [k.value for k in n.keywords]:
                        if isinstance(a, ast.Name) and a.id in tree_names:
                            raise _err(n, f'tree object passed to {ast.unparse(f)}')
            elif isinstance(f, ast.Name):
                if f.id in write_aliases:       # `w = file.write; w(text)`: a write to the file, as `file.write(text)` is
                    for a in list(n.args) + [k.value for k in n.keywords]:
                        if isinstance(a, ast.Name) and a.id in tree_names:
                            raise _err(n, f'tree object passed to {f.id}')
                elif f.id not in PURE_FUNCS and not _pure_helper(f.id):
                    raise _err(n, f'unclassified call {f.id}()')
            else:
                raise _err(n, 'unclassified call expression')
    return stores, muts, info


def _is_name(n, ident) -> bool:
    return isinstance(n, ast.Name) and n.id == ident


def _find_method(cls: ast.ClassDef, name: str) -> ast.FunctionDef:
    cands = [n for n in cls.body if isinstance(n, ast.FunctionDef) and n.name == name
             and not any(_is_name(d, 'overload') for d in n.decorator_list)]
    if len(cands) != 1:
        raise TranslateError(f'keyvalues.py: expected exactly one non-overload Keyvalues.{name}, found {len(cands)}')
    return cands[0]


def _strip_doc(body: list) -> list:
    if body and isinstance(body[0], ast.Expr) and isinstance(body[0].value, ast.Constant) \
            and isinstance(body[0].value.value, str):
        return body[1:]
    return body



def _is_bare_return(s: ast.AST) -> bool:
    return isinstance(s, ast.Return) and (s.value is None or (isinstance(s.value, ast.Constant) and s.value.value is None))


def _ends_in_bare_return(stmts: list) -> bool:
    return bool(stmts) and _is_bare_return(stmts[-1])


def norm_tail(stmts: list) -> list:
    """Semantic normalisation of a statement list in *tail position* of a function that returns None (or of a
    generator): control flow is brought to nested if/else form before the shape matchers look at it.
      * `if c: A; return` followed by R          ->  `if c: A else: R`       (early return = else branch)
      * `if c: A else: B; return` followed by R  ->  `if c: A; R else: B`
      * `if not f(...): A else: B`               ->  `if f(...): B else: A`;  `if x is not y: A else: B` -> `if x is y: B else: A`
      * a trailing bare `return` / `return None` is dropped; `pass` is dropped
    applied recursively to the branches (which are then in tail position themselves).  Statements that are not in
    tail position are left alone (a `return` inside a loop stays and is rejected later, fail closed)."""
    stmts = [s for s in stmts if not isinstance(s, ast.Pass)]
    for i, s in enumerate(stmts):
        if not isinstance(s, ast.If):
            continue
        rest = stmts[i + 1:]
        body, orelse = list(s.body), list(s.orelse)
        if rest:
            if _ends_in_bare_return(body) and not _ends_in_bare_return(orelse):
                orelse = orelse + rest
            elif _ends_in_bare_return(orelse) and not _ends_in_bare_return(body):
                body = body + rest
            elif _ends_in_bare_return(orelse) and _ends_in_bare_return(body):
                pass        # rest is unreachable
            else:
                continue    # an ordinary if followed by more statements: not in tail position
        test = s.test
        if isinstance(test, ast.UnaryOp) and isinstance(test.op, ast.Not) and orelse \
                and isinstance(test.operand, ast.Call):
            # `if not isinstance(...)` / `if not self.has_children()`: swap the branches.  A negated *truth test* of a
            # field (`not self._real_name`) is left alone: it is not the negation of an identity test, and the
            # classification of the root test must see it as written.
            test, body, orelse = test.operand, orelse, body
        elif isinstance(test, ast.Compare) and len(test.ops) == 1 and isinstance(test.ops[0], ast.IsNot) and orelse:
            test = ast.copy_location(ast.Compare(left=test.left, ops=[ast.Is()], comparators=test.comparators), test)
            body, orelse = orelse, body
        new = ast.If(test=test, body=norm_tail(body) or [ast.Pass()], orelse=norm_tail(orelse))
        ast.copy_location(new, s)
        return stmts[:i] + [new]
    if _ends_in_bare_return(stmts):
        return norm_tail(stmts[:-1])
    return stmts


def tr_serialise(fn: ast.FunctionDef, inner: ast.FunctionDef):
    """serialise(), executed symbolically path by path (round 4; before: a shape matcher that failed closed).

    Values: the parameters (`file`: not known to be None or not until a test asks; `indent_braces`; `start_indent`;
    `indent`), None, fresh `io.StringIO()` buffers with the text written to them so far, texts (pieces of an
    f-string over `indent`, or a sequence of segments).  Effects: `self._serialise(target, indent, open, close, start)` appends
    the segment "what _serialise writes with these braces and this cur_indent" to the target (a buffer or the caller's
    file); `target.write(text)` appends the text; `buffer.getvalue()` reads a buffer; any other function applied to a
    text gives a *post-processed* segment.  Tests of `file is None`, of `indent_braces`, and of anything else fork the
    path (the last kind is counted: the reference shape has none).  Per path the result is what reached the
    destination -- the caller's file when one was given, else the returned value -- and whether the return value is
    right for the path (the text when file is None, None otherwise).  Names are not fixed; `x = A if c else B`,
    `return A if c else B`, tuple assignments, `buffer = io.StringIO(); file = buffer` are all the same execution.
    -> (brace templates for gen_sercfg, self name, paths)."""
    import copy
    a = fn.args
    params = [x.arg for x in a.posonlyargs + a.args + a.kwonlyargs]
    self_name = params[0]
    for need in ('indent', 'indent_braces', 'start_indent'):
        if need not in params:
            raise _err(fn, f'serialise() has no parameter {need}')
    if len(params) != 5 or a.vararg or a.kwarg:
        raise _err(fn, 'serialise(self, file, *, indent, indent_braces, start_indent) expected')
    file_param = params[1]
    fs = FStr(self_name, {'indent': 'VIndent'})
    inner_params = [x.arg for x in inner.args.posonlyargs + inner.args.args]

    class St:
        def __init__(self):
            self.env = {self_name: ('self',), file_param: ('file',), 'indent': ('str', [('Var', 'VIndent')]),
                        'indent_braces': ('ib',), 'start_indent': ('start',)}
            self.bufs: list = []
            self.ext: list = []
            self.assume = {'file_none': None, 'ib': None}
            self.other: list = []
            self.ret = None

        def copy(self):
            n = St()
            n.env, n.bufs, n.ext = dict(self.env), [list(b) for b in self.bufs], list(self.ext)
            n.assume, n.other, n.ret = dict(self.assume), list(self.other), self.ret
            return n

    def ev(e, st):
        if isinstance(e, ast.Constant):
            if e.value is None:
                return ('none',)
            if isinstance(e.value, str):
                return ('str', [('Lit', e.value)] if e.value else [])
            return ('unknown', repr(e.value))
        if isinstance(e, ast.Name):
            return st.env.get(e.id, ('unknown', e.id))
        if isinstance(e, ast.Call) and not e.args and not e.keywords and (
                (isinstance(e.func, ast.Attribute) and e.func.attr == 'StringIO') or _is_name(e.func, 'StringIO')):
            st.bufs.append([])
            return ('buf', len(st.bufs) - 1)
        if isinstance(e, ast.Call) and isinstance(e.func, ast.Attribute) and e.func.attr == 'getvalue' and not e.args \
                and not e.keywords:
            v = ev(e.func.value, st)
            if v[0] == 'buf':
                return ('text', list(st.bufs[v[1]]))
            return ('unknown', ast.unparse(e))
        if isinstance(e, (ast.JoinedStr, ast.BinOp)) or (isinstance(e, ast.Call) and isinstance(e.func, ast.Attribute)
                                                           and e.func.attr == 'format'):
            # a text over `indent` and string locals
            fs.locals = {k: v[1] for k, v in st.env.items() if v[0] == 'str' and k != 'indent'}
            try:
                return ('str', fs.pieces(e))
            except TranslateError:
                pass
        if isinstance(e, ast.Call):
            vals = [ev(x, st) for x in list(e.args) + [k.value for k in e.keywords]]
            if any(v[0] in ('text', 'buf') for v in vals):
                return ('text', [('post', ast.unparse(e.func))])
            return ('unknown', ast.unparse(e)[:60])
        return ('unknown', ast.unparse(e)[:60])

    def decide(t, st):
        """-> True / False / ('fork', key)"""
        if isinstance(t, ast.UnaryOp) and isinstance(t.op, ast.Not):
            d = decide(t.operand, st)
            return (not d) if isinstance(d, bool) else ('fork-not', d[1])
        if isinstance(t, ast.Compare) and len(t.ops) == 1 and isinstance(t.ops[0], (ast.Is, ast.IsNot)) \
                and isinstance(t.comparators[0], ast.Constant) and t.comparators[0].value is None:
            v = ev(t.left, st)
            pos = isinstance(t.ops[0], ast.Is)
            if v[0] == 'none':
                return pos
            if v[0] == 'file':
                if st.assume['file_none'] is not None:
                    return st.assume['file_none'] == pos
                return ('fork', 'file_none') if pos else ('fork-not', 'file_none')
            if v[0] in ('buf', 'str', 'text', 'self'):
                return not pos
        if isinstance(t, ast.Name):
            v = ev(t, st)
            if v[0] == 'ib':
                if st.assume['ib'] is not None:
                    return st.assume['ib']
                return ('fork', 'ib')
            if v[0] == 'none':
                return False
            if v[0] == 'buf':
                return True
        return ('fork', 'other:' + ast.unparse(t)[:60])

    def assume(st, key, val):
        if key in ('file_none', 'ib'):
            st.assume[key] = val
            if key == 'file_none' and val:
                for k, v in list(st.env.items()):
                    if v == ('file',):
                        st.env[k] = ('none',)
        else:
            st.other.append((key, val))

    def bind(t, v, st, at):
        if isinstance(t, ast.Name):
            if t.id in ('indent', 'indent_braces', 'start_indent', self_name):
                raise _err(at, f'serialise(): {t.id} is rebound')
            st.env[t.id] = v
        else:
            raise _err(at, 'serialise(): assignment target not understood')

    def target_append(tv, seg, st, at):
        if tv[0] == 'buf':
            st.bufs[tv[1]] += seg
        elif tv[0] == 'file' and st.assume['file_none'] is not True:
            if st.assume['file_none'] is None:
                # written to the caller's file without having asked whether there is one: on the path file=None this raises
                st.ext += [('post', 'write to file without a None test')]
            st.ext += seg
        else:
            raise _err(at, 'serialise(): write target is neither a StringIO buffer nor the file parameter')

    def run(stmts, st):
        if st.ret is not None or not stmts:
            return [st]
        s_, rest = stmts[0], list(stmts[1:])
        if isinstance(s_, ast.Pass) or (isinstance(s_, ast.Expr) and isinstance(s_.value, ast.Constant)) \
                or (isinstance(s_, ast.AnnAssign) and s_.value is None) or isinstance(s_, ast.Assert):
            return run(rest, st)
        if isinstance(s_, (ast.Assign, ast.AnnAssign)):
            tgts = s_.targets if isinstance(s_, ast.Assign) else [s_.target]
            if isinstance(s_.value, ast.IfExp):
                ie = s_.value
                mk = lambda v: ast.copy_location(ast.Assign(targets=tgts, value=v), s_)      # noqa: E731
                return run([ast.copy_location(ast.If(test=ie.test, body=[mk(ie.body)], orelse=[mk(ie.orelse)]), s_)] + rest, st)
            if isinstance(s_.value, ast.Tuple) and all(isinstance(t, ast.Tuple) and len(t.elts) == len(s_.value.elts) for t in tgts):
                vals = [ev(x, st) for x in s_.value.elts]
                for t in tgts:
                    for tt, v in zip(t.elts, vals):
                        bind(tt, v, st, s_)
                return run(rest, st)
            v = ev(s_.value, st)
            for t in tgts:
                bind(t, v, st, s_)
            return run(rest, st)
        if isinstance(s_, ast.If):
            d = decide(s_.test, st)
            if isinstance(d, bool):
                return run(list(s_.body if d else s_.orelse) + rest, st)
            neg = d[0] == 'fork-not'
            st1, st2 = st.copy(), st.copy()
            assume(st1, d[1], not neg)
            assume(st2, d[1], neg)
            return run(list(s_.body) + rest, st1) + run(list(s_.orelse) + rest, st2)
        if isinstance(s_, ast.Return):
            if isinstance(s_.value, ast.IfExp):
                ie = s_.value
                mk = lambda v: ast.copy_location(ast.Return(value=v), s_)      # noqa: E731
                return run([ast.copy_location(ast.If(test=ie.test, body=[mk(ie.body)], orelse=[mk(ie.orelse)]), s_)], st)
            st.ret = ('none',) if s_.value is None else ev(s_.value, st)
            return [st]
        if isinstance(s_, ast.Expr) and isinstance(s_.value, ast.Call) and isinstance(s_.value.func, ast.Attribute):
            c = s_.value
            if c.func.attr == inner.name and _is_name(c.func.value, self_name):
                cargs = list(c.args)
                if any(isinstance(x, ast.Starred) for x in cargs) or any(k.arg is None for k in c.keywords):
                    raise _err(s_, 'serialise(): */** arguments in the call of _serialise')
                kw = {k.arg: k.value for k in c.keywords}
                for pname in inner_params[1 + len(cargs):]:
                    if pname not in kw:
                        raise _err(s_, f'serialise(): _serialise is not given {pname}')
                    cargs.append(kw.pop(pname))
                if kw or len(cargs) != 5:
                    raise _err(s_, 'serialise(): _serialise is not called with its 5 arguments')
                tv, iv, ov, cv, sv = [ev(x, st) for x in cargs]
                if iv != ('str', [('Var', 'VIndent')]):
                    raise _err(s_, 'serialise(): indent is not passed through unchanged')
                if ov[0] != 'str' or cv[0] != 'str':
                    raise _err(s_, 'serialise(): open_brace / close_brace are not texts over indent')
                start = 'SAStart' if sv == ('start',) else 'SAEmpty' if sv == ('str', []) else 'SAOther'
                target_append(tv, [('ser', ov[1], cv[1], start)], st, s_)
                return run(rest, st)
            if c.func.attr == 'write' and len(c.args) == 1 and not c.keywords:
                tv = ev(c.func.value, st)
                v = ev(c.args[0], st)
                seg = v[1] if v[0] == 'text' else [('lit', v[1])] if v[0] == 'str' else \
                    [('post', 'a text the writer model does not know: ' + ast.unparse(c.args[0])[:40])]
                target_append(tv, seg, st, s_)
                return run(rest, st)
        raise _err(s_, f'serialise(): statement not understood: {ast.unparse(s_)[:60]}')

    finals = run(_strip_doc(copy.deepcopy(fn.body)), St())
    paths = []
    braces: dict = {}
    for st in finals:
        ret = st.ret or ('none',)
        for fnone in ([True, False] if st.assume['file_none'] is None else [st.assume['file_none']]):
            for ib in ([True, False] if st.assume['ib'] is None else [st.assume['ib']]):
                if fnone:
                    dest = ret[1] if ret[0] == 'text' else [('post', 'the returned value is not the text of a buffer')]
                    if st.ext:
                        dest = dest + [('post', 'text also written to the file parameter although it is None')]
                    ret_ok = ret[0] == 'text'
                else:
                    dest = st.ext
                    ret_ok = ret[0] == 'none'
                segs = []
                for sg in dest:
                    if sg[0] == 'ser':
                        key_o, key_c = ('open_ind', 'close_ind') if ib else ('open_plain', 'close_plain')
                        if braces.setdefault(key_o, sg[1]) != sg[1] or braces.setdefault(key_c, sg[2]) != sg[2]:
                            raise _err(fn, 'serialise(): different brace templates on different paths')
                        segs.append(f'SSer {sg[3]}')
                    elif sg[0] == 'lit':
                        if sg[1]:
                            segs.append('SLit')
                    else:
                        segs.append('SPost')
                paths.append(dict(file_none=fnone, ib=ib, extra_tests=len(st.other), segs=segs, ret_ok=ret_ok,
                                  why=[sg[1] for sg in dest if sg[0] == 'post'] + [k for k, _ in st.other]))
    for k in ('open_ind', 'close_ind', 'open_plain', 'close_plain'):
        if k not in braces:
            raise _err(fn, f'serialise(): no path hands a {k} template to _serialise')
    return braces, self_name, paths


def tr_inner(fn: ast.FunctionDef):
    params = [x.arg for x in fn.args.posonlyargs + fn.args.args]
    if len(params) != 6 or fn.args.kwonlyargs or fn.args.vararg or fn.args.kwarg:
        raise _err(fn, '_serialise(self, file, indent, open_brace, close_brace, cur_indent) expected')
    self_name, file_name, ind, ob, cb, cur = params
    fs = FStr(self_name, {ind: 'VIndent', ob: 'VOpenBrace', cb: 'VCloseBrace', cur: 'VCurIndent'})

    def is_self_attr(n, attr):
        return isinstance(n, ast.Attribute) and n.attr == attr and _is_name(n.value, self_name)

    # `w = file.write` (hoisted attribute lookup): a call of `w` is a call of `file.write`
    write_aliases = {n.targets[0].id for n in ast.walk(fn)
                     if isinstance(n, ast.Assign) and len(n.targets) == 1 and isinstance(n.targets[0], ast.Name)
                     and isinstance(n.value, ast.Attribute) and n.value.attr == 'write' and _is_name(n.value.value, file_name)}
    for n in ast.walk(fn):      # such a name must not be bound to anything else
        if isinstance(n, (ast.Assign, ast.AugAssign, ast.AnnAssign, ast.For)):
            tg = n.targets if isinstance(n, ast.Assign) else [n.target]
            for t in tg:
                for nm in ast.walk(t):
                    if isinstance(nm, ast.Name) and nm.id in write_aliases and not (
                            isinstance(n, ast.Assign) and isinstance(n.value, ast.Attribute) and n.value.attr == 'write'
                            and _is_name(n.value.value, file_name)):
                        raise _err(n, f'{nm.id} is bound to file.write and to something else')

    def write_arg(s):
        if isinstance(s, ast.Expr) and isinstance(s.value, ast.Call) and (
                (isinstance(s.value.func, ast.Attribute) and s.value.func.attr == 'write'
                 and _is_name(s.value.func.value, file_name))
                or (isinstance(s.value.func, ast.Name) and s.value.func.id in write_aliases)):
            if len(s.value.args) != 1 or s.value.keywords:
                raise _err(s, 'file.write with other than one argument')
            return s.value.args[0]
        return None

    def is_alias_def(s) -> bool:
        return isinstance(s, ast.Assign) and len(s.targets) == 1 and isinstance(s.targets[0], ast.Name) \
            and s.targets[0].id in write_aliases

    def child_loop(s):
        """for child in self._value: child._serialise(file, indent, open_brace, close_brace, X) -> pieces of X"""
        if not (isinstance(s, ast.For) and isinstance(s.target, ast.Name) and is_self_attr(s.iter, '_value')
                and not s.orelse and len(s.body) == 1 and isinstance(s.body[0], ast.Expr)):
            return None
        c = s.body[0].value
        if not (isinstance(c, ast.Call) and isinstance(c.func, ast.Attribute) and c.func.attr == fn.name
                and _is_name(c.func.value, s.target.id)):
            raise _err(s, 'child loop does not call child._serialise')
        cargs = list(c.args)
        if any(isinstance(x, ast.Starred) for x in cargs) or any(k.arg is None for k in c.keywords):
            raise _err(s, 'child loop passes */** arguments')
        kw = {k.arg: k.value for k in c.keywords}
        for pname in params[1 + len(cargs):]:       # keyword arguments, resolved against the parameter list
            if pname not in kw:
                raise _err(s, f'child loop does not pass {pname}')
            cargs.append(kw.pop(pname))
        if kw or len(cargs) != 5:
            raise _err(s, 'child loop does not call child._serialise with its 5 arguments')
        if [getattr(x, 'id', None) for x in cargs[:4]] != [file_name, ind, ob, cb]:
            raise _err(s, 'file/indent/open_brace/close_brace are not passed through unchanged to the children')
        return fs.pieces(cargs[4])

    tree_names = {self_name} | {n.target.id for n in ast.walk(fn) if isinstance(n, ast.For) and isinstance(n.target, ast.Name)}

    def store_kind(s):
        """A statement that stores to a tree object ('store') or calls a mutating method on one ('mutate'); else None."""
        tgts = []
        if isinstance(s, ast.Assign):
            tgts = s.targets
        elif isinstance(s, ast.AugAssign) or (isinstance(s, ast.AnnAssign) and s.value is not None):
            tgts = [s.target]
        elif isinstance(s, ast.Delete):
            tgts = s.targets
        flat = []
        for t in tgts:
            flat += list(t.elts) if isinstance(t, (ast.Tuple, ast.List)) else [t]
        if any(isinstance(t, (ast.Attribute, ast.Subscript)) and _root_name(t) in tree_names for t in flat):
            return 'store'
        if isinstance(s, ast.Expr) and isinstance(s.value, ast.Call) and isinstance(s.value.func, ast.Attribute) \
                and s.value.func.attr in MUTATING_METHODS and _root_name(s.value.func.value) in tree_names:
            return 'mutate'
        # a statement that touches state outliving the call (round 5): guard / mark / unmark / state
        k = state_kind(s, 'keyvalues.py', {self_name})
        if k == 'state' and isinstance(s, ast.If) and not s.orelse and len(s.body) == 1 and isinstance(s.body[0], ast.Raise) \
                and state_refs(ast.Expr(value=s.test, lineno=s.lineno), 'keyvalues.py', {self_name}):
            return 'state'      # `if <test over such state>: raise ...`: one instruction (not the membership guard)
        if k != 'guard' and isinstance(s, (ast.If, ast.For, ast.While, ast.Try, ast.With, ast.Return)):
            return None     # a compound statement is not one instruction: left to the shape matchers (fail closed)
        return k

    def seq(stmts, allow_loop):
        """-> (pieces before loop, child indent pieces or None, pieces after loop, the statements in order as instructions)"""
        pre, post, loop, instrs = [], [], None, []
        for s in stmts:
            if isinstance(s, (ast.Assert, ast.Pass)):
                continue
            if isinstance(s, ast.Expr) and isinstance(s.value, ast.Constant):
                continue
            if is_alias_def(s):
                continue
            w = write_arg(s)
            if w is not None:
                ps = fs.pieces(w)
                (pre if loop is None else post).extend(ps)
                instrs.append(('write', ps))
                continue
            sk = store_kind(s)
            if sk is not None:
                instrs.append((sk, s.lineno))
                continue
            if isinstance(s, ast.Assign) and len(s.targets) == 1 and isinstance(s.targets[0], ast.Name) \
                    and s.targets[0].id not in fs.varmap and s.targets[0].id != self_name:
                fs.locals[s.targets[0].id] = fs.pieces(s.value)
                continue
            lp = child_loop(s) if allow_loop else None
            if lp is not None:
                if loop is not None:
                    raise _err(s, 'two child loops')
                loop = lp
                instrs.append(('children', lp))
                continue
            raise _err(s, f'unrecognised statement in _serialise: {type(s).__name__}')
        return pre, loop, post, instrs

    body = norm_tail([s for s in _strip_doc(fn.body) if not (isinstance(s, ast.AnnAssign) and s.value is None)
                      and not is_alias_def(s)])
    # stores / mutating calls in front of the branches belong to every branch
    prefix = []
    while len(body) > 1 and store_kind(body[0]) is not None:
        prefix.append((store_kind(body[0]), body[0].lineno))
        body = norm_tail(body[1:])
    if len(body) != 1 or not isinstance(body[0], ast.If):
        raise _err(fn, '_serialise body is not a single if/else')
    top = body[0]
    t = inline_self_preds(top.test, self_name)
    if not (isinstance(t, ast.Call) and _is_name(t.func, 'isinstance') and len(t.args) == 2
            and is_self_attr(t.args[0], '_value') and _is_name(t.args[1], 'list')):
        raise _err(top, 'top test is not isinstance(self._value, list)')
    blk = [s for s in top.body if not isinstance(s, (ast.Assert, ast.Pass))]
    pre_blk, post_blk = [], []
    while len(blk) > 1 and store_kind(blk[0]) is not None:
        pre_blk.append((store_kind(blk[0]), blk[0].lineno))
        blk = blk[1:]
    while len(blk) > 1 and store_kind(blk[-1]) is not None:      # after the two branches have joined again
        post_blk.insert(0, (store_kind(blk[-1]), blk[-1].lineno))
        blk = blk[:-1]
    if len(blk) != 1 or not isinstance(blk[0], ast.If):
        raise _err(top, 'block branch is not a single if/else on the root test')
    root_test = classify_root_test(blk[0].test, self_name)
    rpre, rloop, rpost, rins = seq(blk[0].body, True)
    if rpre or rpost or rloop is None:
        raise _err(blk[0], 'root branch writes text of its own or has no child loop')
    head, child, tail, bins = seq(blk[0].orelse, True)
    if child is None:
        raise _err(blk[0], 'named-block branch has no child loop')
    lpre, lloop, lpost, lins = seq(top.orelse, False)
    return dict(head=head, child_indent=child, tail=tail, leaf=lpre + lpost, root_indent=rloop,
                root_test=root_test, prog=dict(root=prefix + pre_blk + rins + post_blk, block=prefix + pre_blk + bins + post_blk,
                                               leaf=prefix + lins)), self_name


def tree_store_kind(s: ast.stmt, tree_names: set):
    """'store' for a statement that assigns to / deletes an attribute or item of a tree object, 'mutate' for a call of a
    mutating method on one, else None."""
    tgts = []
    if isinstance(s, ast.Assign):
        tgts = s.targets
    elif isinstance(s, ast.AugAssign) or (isinstance(s, ast.AnnAssign) and s.value is not None):
        tgts = [s.target]
    elif isinstance(s, ast.Delete):
        tgts = s.targets
    flat = []
    for t in tgts:
        flat += list(t.elts) if isinstance(t, (ast.Tuple, ast.List)) else [t]
    if any(isinstance(t, (ast.Attribute, ast.Subscript)) and _root_name(t) in tree_names for t in flat):
        return 'store'
    if isinstance(s, ast.Expr) and isinstance(s.value, ast.Call) and isinstance(s.value.func, ast.Attribute) \
            and s.value.func.attr in MUTATING_METHODS and _root_name(s.value.func.value) in tree_names:
        return 'mutate'
    return None


def tr_export_struct(fn: ast.FunctionDef) -> dict:
    """The deprecated generator export(), structurally:
         if isinstance(self._value, list):
             if <root test>:  for kv in self._value: yield from kv.export()
             else:            yield ...; ...; yield from (PREFIX + line for kv in self._value for line in kv.export()); yield ...
         else:                yield ...
       -> root test, yields before/after the children, the constant prefix, yields of a leaf.  Fail closed."""
    self_name = fn.args.args[0].arg
    fs = FStr(self_name, {})

    def is_self_attr(n, attr):
        return isinstance(n, ast.Attribute) and n.attr == attr and _is_name(n.value, self_name)

    def is_export_call(c, var):
        return isinstance(c, ast.Call) and isinstance(c.func, ast.Attribute) and c.func.attr == fn.name \
            and _is_name(c.func.value, var) and not c.args and not c.keywords

    def child_prefix(e, line_var, at):
        """CONSTANT + line  /  f'CONSTANT{line}'  -> the constant as pieces"""
        if isinstance(e, ast.BinOp) and isinstance(e.op, ast.Add) and _is_name(e.right, line_var) \
                and isinstance(e.left, ast.Constant) and isinstance(e.left.value, str):
            c = e.left.value
        elif isinstance(e, ast.JoinedStr) and len(e.values) == 2 and isinstance(e.values[0], ast.Constant) \
                and isinstance(e.values[0].value, str) and isinstance(e.values[1], ast.FormattedValue) \
                and _is_name(e.values[1].value, line_var) and e.values[1].conversion == -1 and e.values[1].format_spec is None:
            c = e.values[0].value
        elif _is_name(e, line_var):
            c = ''
        else:
            raise _err(at, 'child lines are not CONSTANT + line')
        return [('Lit', c)] if c else []

    tree_names = {self_name} | {n.target.id for n in ast.walk(fn) if isinstance(n, (ast.For, ast.comprehension))
                                and isinstance(n.target, ast.Name)}

    def yields(stmts, allow_children, instrs):
        pre, post, prefix = [], [], None
        for st in stmts:
            if isinstance(st, ast.Assert):
                continue
            sk = tree_store_kind(st, tree_names)
            if sk is not None:      # (round 5) a store to / mutating call on a tree object: an instruction of the program
                instrs.append((sk, st.lineno))
                continue
            if isinstance(st, ast.For) and allow_children:
                # for kv in self._value: for line in kv.export(): yield PREFIX + line     (= the generator expression)
                if prefix is not None:
                    raise _err(st, 'two child generators in export()')
                inner_ = st.body[0] if len(st.body) == 1 else None
                if not (isinstance(st.target, ast.Name) and is_self_attr(st.iter, '_value') and not st.orelse
                        and isinstance(inner_, ast.For) and isinstance(inner_.target, ast.Name) and not inner_.orelse
                        and is_export_call(inner_.iter, st.target.id) and len(inner_.body) == 1
                        and isinstance(inner_.body[0], ast.Expr) and isinstance(inner_.body[0].value, ast.Yield)
                        and inner_.body[0].value.value is not None):
                    raise _err(st, 'children are not yielded as `for kv in self._value: for line in kv.export(): yield PREFIX + line`')
                prefix = child_prefix(inner_.body[0].value.value, inner_.target.id, st)
                instrs.append(('children', prefix))
                continue
            if not isinstance(st, ast.Expr):
                raise _err(st, f'unrecognised statement in export(): {type(st).__name__}')
            v = st.value
            if isinstance(v, ast.Constant) and isinstance(v.value, str):
                continue        # a docstring-like expression statement
            if isinstance(v, ast.Yield) and v.value is not None:
                (pre if prefix is None else post).append(fs.pieces(v.value))
                instrs.append(('write', fs.pieces(v.value)))
                continue
            if isinstance(v, ast.YieldFrom) and allow_children:
                g = v.value
                if prefix is not None:
                    raise _err(st, 'two child generators in export()')
                if not (isinstance(g, ast.GeneratorExp) and len(g.generators) == 2
                        and all(not x.ifs and not x.is_async for x in g.generators)):
                    raise _err(st, 'children are not yielded as (PREFIX + line for kv in self._value for line in kv.export())')
                g1, g2 = g.generators
                if not (isinstance(g1.target, ast.Name) and is_self_attr(g1.iter, '_value')
                        and isinstance(g2.target, ast.Name) and is_export_call(g2.iter, g1.target.id)):
                    raise _err(st, 'child generator does not iterate kv.export() for kv in self._value')
                prefix = child_prefix(g.elt, g2.target.id, st)
                instrs.append(('children', prefix))
                continue
            raise _err(st, 'unrecognised expression statement in export()')
        return pre, prefix, post

    body = norm_tail(_strip_doc(fn.body))
    x_prefix = []       # stores / mutating calls in front of the branches belong to every branch
    while len(body) > 1 and tree_store_kind(body[0], tree_names) is not None:
        x_prefix.append((tree_store_kind(body[0], tree_names), body[0].lineno))
        body = norm_tail(body[1:])
    if len(body) != 1 or not isinstance(body[0], ast.If):
        raise _err(fn, 'export() body is not a single if/else')
    top = body[0]
    t = inline_self_preds(top.test, self_name)
    if not (isinstance(t, ast.Call) and _is_name(t.func, 'isinstance') and len(t.args) == 2
            and is_self_attr(t.args[0], '_value') and _is_name(t.args[1], 'list')):
        raise _err(top, 'export(): top test is not isinstance(self._value, list)')
    blk = [x for x in top.body if not isinstance(x, (ast.Assert, ast.Pass))]
    x_pre_blk = []
    while len(blk) > 1 and tree_store_kind(blk[0], tree_names) is not None:
        x_pre_blk.append((tree_store_kind(blk[0], tree_names), blk[0].lineno))
        blk = blk[1:]
    if len(blk) != 1 or not isinstance(blk[0], ast.If):
        raise _err(top, 'export(): block branch is not a single if/else on the root test')
    root_test = classify_root_test(blk[0].test, self_name)
    rb = [x for x in blk[0].body if not isinstance(x, ast.Assert)]
    x_root = []
    while len(rb) > 1 and tree_store_kind(rb[0], tree_names) is not None:
        x_root.append((tree_store_kind(rb[0], tree_names), rb[0].lineno))
        rb = rb[1:]
    ok_root = (len(rb) == 1 and isinstance(rb[0], ast.For) and isinstance(rb[0].target, ast.Name)
               and is_self_attr(rb[0].iter, '_value') and not rb[0].orelse and len(rb[0].body) == 1
               and isinstance(rb[0].body[0], ast.Expr) and isinstance(rb[0].body[0].value, ast.YieldFrom)
               and is_export_call(rb[0].body[0].value.value, rb[0].target.id))
    if not ok_root:
        raise _err(blk[0], 'export(): root branch is not `for kv in self._value: yield from kv.export()`')
    x_root.append(('children', []))
    x_block, x_leaf = [], []
    head, prefix, tail = yields(blk[0].orelse, True, x_block)
    if prefix is None:
        raise _err(blk[0], 'export(): named-block branch does not yield its children')
    leaf, lp, lpost = yields(top.orelse, False, x_leaf)
    return dict(root_test=root_test, head=head, prefix=prefix, tail=tail, leaf=leaf + lpost,
                prog=dict(root=x_prefix + x_pre_blk + x_root, block=x_prefix + x_pre_blk + x_block, leaf=x_prefix + x_leaf))


SELF_PREDS: dict = {}      # methods of Keyvalues of the form `def m(self): return <expression>`: inlined where a test calls them


def inline_self_preds(t: ast.AST, self_name: str, depth: int = 0) -> ast.AST:
    """A test that asks a predicate method of the same object (`self.is_root()`, `self.has_children()`) is the test the
    method's body makes: `self.m()` is replaced by the returned expression of `def m(self): return <expr>` (the method's
    own name for self replaced by the caller's), repeatedly.  A fault inside such a helper is then seen exactly as if
    it were written in place; a call that cannot be resolved is left alone (the classification then says RTOther)."""
    import copy
    if depth > 4:
        return t

    class Inl(ast.NodeTransformer):
        def visit_Call(self, n):
            self.generic_visit(n)
            if isinstance(n.func, ast.Attribute) and _is_name(n.func.value, self_name) and not n.args and not n.keywords \
                    and n.func.attr in SELF_PREDS:
                mf = SELF_PREDS[n.func.attr]
                par = mf.args.args[0].arg
                body_ = copy.deepcopy(_strip_doc(mf.body)[0].value)
                for x in ast.walk(body_):
                    if isinstance(x, ast.Name) and x.id == par:
                        x.id = self_name
                return inline_self_preds(body_, self_name, depth + 1)
            return n
    out = Inl().visit(copy.deepcopy(t))
    # `not (x is None)` = `x is not None`, `not (not x)` stays (truth test of a truth test: classified RTOther)
    return ast.fix_missing_locations(ast.copy_location(out, t))


def self_preds_of(cls: ast.ClassDef) -> dict:
    out = {}
    for n in cls.body:
        if isinstance(n, ast.FunctionDef) and not n.decorator_list:
            a = n.args
            b = _strip_doc(n.body)
            if len(a.args) == 1 and not (a.posonlyargs or a.kwonlyargs or a.vararg or a.kwarg) and len(b) == 1 \
                    and isinstance(b[0], ast.Return) and b[0].value is not None:
                out[n.name] = n
    return out


def classify_root_test(t: ast.AST, self_name: str) -> str:
    """The test that sends a list-valued node to the 'root' branch (children only, no header, no braces).
    `self._real_name is None` -> RTIsNone; a truth test `not self._real_name` -> RTFalsy (also true of the name '');
    anything else -> RTOther (the obligation root_test_is_None_identity fails, the translator does not).
    Predicate methods of the object (`self.is_root()`) are read through (inline_self_preds)."""
    t = inline_self_preds(t, self_name)
    def is_name_attr(n):
        return isinstance(n, ast.Attribute) and n.attr in ('_real_name', 'real_name', 'name') \
            and _is_name(n.value, self_name)
    if isinstance(t, ast.Compare) and is_name_attr(t.left) and len(t.ops) == 1 and isinstance(t.ops[0], ast.Is) \
            and isinstance(t.comparators[0], ast.Constant) and t.comparators[0].value is None:
        return 'RTIsNone'
    if isinstance(t, ast.UnaryOp) and isinstance(t.op, ast.Not) and is_name_attr(t.operand):
        return 'RTFalsy'
    return 'RTOther'


def tr_export(fn: ast.FunctionDef):
    self_name = fn.args.args[0].arg
    fs = FStr(self_name, {})
    ys = []
    # `yield PREFIX + line` inside `for line in kv.export()`: a child's line handed on, described by export_struct
    handed_on = set()
    for n in ast.walk(fn):
        if isinstance(n, ast.For) and isinstance(n.target, ast.Name) and isinstance(n.iter, ast.Call) \
                and isinstance(n.iter.func, ast.Attribute) and n.iter.func.attr == fn.name and len(n.body) == 1 \
                and isinstance(n.body[0], ast.Expr) and isinstance(n.body[0].value, ast.Yield):
            handed_on.add(id(n.body[0].value))
    for n in ast.walk(fn):
        if isinstance(n, ast.Yield) and n.value is not None and id(n) not in handed_on:
            ys.append((n.lineno, fs.pieces(n.value)))      # fails closed on text it cannot classify
    ys.sort(key=lambda t: t[0])
    return ys, self_name


def tr_parse(fn: ast.FunctionDef, tree: ast.Module | None = None, cls: ast.ClassDef | None = None) -> dict:
    """(The names of the loop's variables are the roles found by translate/c01_kvloop.py in the prologue of parse:
    a renamed local changes nothing.)
    Decisive sites of Keyvalues.parse:
      * the options handed to Tokenizer(...) (the lexer model hard-codes string_bracket=True and takes
        allow_escapes from the caller; anything else fails closed);
      * the tests guarding the two 'Illegal newline' errors: `not newline_keys and (<test>)`, `not newline_values
        and (<test>)`, with <test> a disjunction of `'<char>' in <name>` -> the list of characters, else BTOther;
      * the two flag-replacement tests `can_flag_replace and ... cur_block_contents[-1] ...`: whether the list is
        tested for emptiness before it is indexed."""
    out: dict = {}
    from translate.c01_kvloop import LoopTr, module_helpers
    roles = LoopTr(fn, module_helpers(tree, cls) if tree is not None and cls is not None else None)
    v_cfr, v_cont, v_tok, v_cur = roles.cfrv, roles.contv, roles.tokenizer, roles.curv
    # --- Tokenizer(...) construction
    calls = [n for n in ast.walk(fn) if isinstance(n, ast.Call) and _is_name(n.func, 'Tokenizer')]
    if len(calls) != 1:
        raise _err(fn, f'expected one Tokenizer(...) construction in parse, found {len(calls)}')
    kws = {}
    for k in calls[0].keywords:
        if k.arg is None:
            raise _err(calls[0], 'Tokenizer(**kwargs) in parse')
        kws[k.arg] = k.value
    if len(calls[0].args) != 3:
        raise _err(calls[0], 'Tokenizer(file_contents, filename, KeyValError, ...) expected')
    # the options in effect = the keyword-only defaults of Tokenizer.__init__ overridden by the keywords of the call
    # (an option spelled out with its default value is the same call); the lexer model KV/KvLex.v hard-codes them
    ttree = ast.parse(src_text('tokenizer.py'))
    tcls = next((n for n in ttree.body if isinstance(n, ast.ClassDef) and n.name == 'Tokenizer'), None)
    tinit = next((n for n in (tcls.body if tcls else []) if isinstance(n, ast.FunctionDef) and n.name == '__init__'), None)
    if tinit is None:
        raise TranslateError('tokenizer.py: Tokenizer.__init__ not found')
    order = ['string_bracket', 'string_parens', 'allow_star_comments', 'preserve_comments', 'colon_operator', 'plus_operator']
    eff: dict = {}
    for a_, d_ in zip(tinit.args.kwonlyargs, tinit.args.kw_defaults):
        if not (isinstance(d_, ast.Constant) and isinstance(d_.value, bool)):
            raise _err(tinit, f'Tokenizer option {a_.arg} has no constant bool default')
        eff[a_.arg] = d_.value
    if set(eff) != set(order) | {'allow_escapes'} or tinit.args.kwarg is not None:
        raise _err(tinit, f'Tokenizer options are {sorted(eff)}: not the ones the lexer model knows')
    for k, v in kws.items():
        if k not in eff:
            raise _err(calls[0], f'unknown Tokenizer option {k} in parse')
        if k == 'allow_escapes':
            continue
        if not (isinstance(v, ast.Constant) and isinstance(v.value, bool)):
            raise _err(calls[0], f'Tokenizer option {k} is not a constant in parse')
        eff[k] = v.value
    if not _is_name(kws.get('allow_escapes'), 'allow_escapes'):
        raise _err(calls[0], 'allow_escapes is not passed through')
    out['tokenizer_options'] = [eff[k] for k in order]

    # --- newline tests: every test in the loop body that looks at nothing but the text of the key token (token 0) /
    # of the value token (token 1) is the atom `ABrk 0` / `ABrk 1` of the regenerated decision tree (which option guards
    # it, and what happens when it holds, is in the tree); here its character set is read: `'c' in v or 'd' in v ...`
    # -> BTChars, anything else -> BTOther.  No such test at all: the empty set (the model then never reports it).
    roles.body_tree()

    def charset(e, depth=0):
        # a predicate of the same module applied to the token text: `def f(s): return <expr over s>` is inlined
        if isinstance(e, ast.Call) and isinstance(e.func, ast.Name) and depth < 4 \
                and tree is not None and len(e.args) == 1 and not e.keywords and isinstance(e.args[0], ast.Name):
            hf = next((n for n in tree.body if isinstance(n, ast.FunctionDef) and n.name == e.func.id), None)
            hb = _strip_doc(hf.body) if hf is not None else []
            if hf is not None and len(hf.args.args) == 1 and not hf.args.kwonlyargs and not hf.args.vararg \
                    and not hf.args.kwarg and len(hb) == 1 and isinstance(hb[0], ast.Return) and hb[0].value is not None:
                import copy
                par, arg = hf.args.args[0].arg, e.args[0].id
                body_ = copy.deepcopy(hb[0].value)
                for n in ast.walk(body_):
                    if isinstance(n, ast.Name) and n.id == par:
                        n.id = arg
                return charset(body_, depth + 1)
            return None
        parts = e.values if isinstance(e, ast.BoolOp) and isinstance(e.op, ast.Or) else [e]
        chars = []
        for c in parts:
            if isinstance(c, ast.BoolOp) and isinstance(c.op, ast.Or):
                sub = charset(c)
                if sub is None:
                    return None
                chars += sub
            elif isinstance(c, ast.Compare) and len(c.ops) == 1 and isinstance(c.ops[0], ast.In) \
                    and isinstance(c.left, ast.Constant) and isinstance(c.left.value, str) and len(c.left.value) == 1 \
                    and isinstance(c.comparators[0], ast.Name) and c.comparators[0].id in roles.locals:
                chars.append(c.left.value)      # (the test mentions one local only: the text of that token)
            else:
                return None
        return chars

    def brk(i: int):
        tests = list(roles.brk_tests[i].values())
        sets = [charset(e) for e in tests]
        lines = [e.lineno for e in tests]
        if not tests:
            return [], lines
        if any(x is None for x in sets) or any(sorted(set(x)) != sorted(set(sets[0])) for x in sets):
            return None, lines
        return sets[0], lines
    kch, klines = brk(0)
    vch, vlines = brk(1)
    out['key_break'] = kch
    out['value_break'] = vch
    out['break_lines'] = [klines, vlines]

    # --- emptiness guards, read off the symbolic execution of the loop body (translate/c01_kvloop.py), not off the
    # spelling of the tests: is there a path on which `cur_block_contents[-1]` is evaluated while the list may be empty
    # (the flag-replacement tests / the replacement itself), and is root known to have a child on every path that
    # returns `root[0]`?
    out['replace_guards'] = [roles.n_index == 0]
    out['unguarded_index_paths'] = roles.n_index
    if not roles.root0_guarded:
        raise _err(fn, 'no `return root[0]` path found in the token loop (single_block at a closing brace)')
    out['single_block_guard'] = all(roles.root0_guarded)
    return out


READ_FLAG_REF = """
flag_inv = flag_val[:1] == '!'
if flag_inv:
    flag_val = flag_val[1:]
flag_val = flag_val.casefold()
try:
    flag_result = bool(flags[flag_val])
except KeyError:
    flag_result = FLAGS_DEFAULT.get(flag_val, False)
return flag_inv is not flag_result
"""


def _alpha(body: list, params: list) -> str:
    """ast dump of a function body with the local names replaced by their order of first binding (a renamed local is
    the same function)."""
    mod = ast.Module(body=body, type_ignores=[])
    order: dict = {p_: f'p{i}' for i, p_ in enumerate(params)}
    for n in ast.walk(mod):
        if isinstance(n, ast.Name) and isinstance(n.ctx, ast.Store) and n.id not in order:
            order[n.id] = f'v{len(order)}'
    for n in ast.walk(mod):
        if isinstance(n, ast.Name) and n.id in order:
            n.id = order[n.id]
    return ast.dump(mod)


def tr_read_flag(tree: ast.Module) -> bool:
    """Is _read_flag(flags, flag_val) the function that KV/KvFlags.v read_flag mirrors, up to the names of its
    locals?  Not an obligation: no theorem depends on _read_flag (its verdicts are an arbitrary predicate), and the
    model is compared with it directly (correspondence:read_flag); an unrecognised shape only enlarges that comparison."""
    fn = next((n for n in tree.body if isinstance(n, ast.FunctionDef) and n.name == '_read_flag'), None)
    if fn is None:
        raise TranslateError('keyvalues.py: _read_flag not found')
    if len(fn.args.args) != 2 or fn.args.kwonlyargs or fn.args.vararg or fn.args.kwarg or fn.args.posonlyargs:
        raise _err(fn, '_read_flag(flags, flag_val) expected')
    import copy
    got = _alpha(copy.deepcopy(_strip_doc(fn.body)), [a.arg for a in fn.args.args])
    ref_fn = ast.parse('def f(flags, flag_val):\n' + ''.join('    ' + ln + '\n' for ln in READ_FLAG_REF.strip().splitlines())).body[0]
    want = _alpha(ref_fn.body, ['flags', 'flag_val'])
    return got == want


def coq_brk(chars) -> str:
    return 'BTOther' if chars is None else f'BTChars {coq_chars("".join(chars))}'


def regex_charset(pat) -> set:
    """The set of code points matched by a compiled regular expression that matches exactly one character from a
    finite set (alternation of literals, character class with literals / ranges), however it was spelled; fail closed
    on anything else (negated classes, categories, longer matches, flags other than the default)."""
    import re
    try:
        import re._parser as sp       # Python >= 3.11
    except ImportError:               # pragma: no cover
        import sre_parse as sp
    if not isinstance(pat, re.Pattern) or not isinstance(pat.pattern, str):
        raise TranslateError('tokenizer.py: escape pattern is not a compiled str pattern')
    if pat.flags & ~re.UNICODE:
        raise TranslateError(f'tokenizer.py: escape pattern compiled with flags {pat.flags}')

    def one(item) -> set:
        op, arg = item
        name = str(op)
        if name == 'LITERAL':
            return {arg}
        if name == 'IN':
            out: set = set()
            for o2, a2 in arg:
                if str(o2) == 'LITERAL':
                    out.add(a2)
                elif str(o2) == 'RANGE' and a2[1] - a2[0] < 4096:
                    out |= set(range(a2[0], a2[1] + 1))
                else:
                    raise TranslateError(f'tokenizer.py: escape pattern uses {o2} in a character class')
            return out
        if name == 'BRANCH':
            out = set()
            for alt in arg[1]:
                if len(alt) != 1:
                    raise TranslateError('tokenizer.py: escape pattern alternative is not one character')
                out |= one(alt[0])
            return out
        if name == 'SUBPATTERN' and len(arg[-1]) == 1:
            return one(arg[-1][0])
        raise TranslateError(f'tokenizer.py: escape pattern uses {op}')
    parsed = list(sp.parse(pat.pattern))
    if len(parsed) != 1:
        raise TranslateError('tokenizer.py: escape pattern does not match exactly one character')
    return one(parsed[0])


def tr_escapes() -> dict:
    """escape_text(text) with multiline=False, read semantically:
      * ESCAPES must be a literal dict of character pairs (the table of the model);
      * the body of escape_text is evaluated with multiline=False (locals inlined, `A if multiline else B` and
        `if multiline:` decided): it must come down to `<pattern>.sub(<matcher>, text)`, optionally after fast paths
        `if <pattern'>.search(text) is None: return text`;
      * the patterns are taken as the VALUES the module under test holds (it is imported from VERIF_REPO/src by this
        run) and reduced to the set of characters they match (regex_charset), whatever expression built them;
      * the matcher (module-level function or lambda) must return `D[m.group()]` (or `m.group(0)`, `m[0]`, with an
        optional constant prefix); D is taken as the value the module holds, and for every character the pattern
        matches it must give a backslash plus the symbol the ESCAPES literal has for that character (last entry wins).
    Result: the table, the characters of the table's values that are NOT escaped (e_excl of the model), and the
    characters that are escaped but would be missed by a fast path."""
    import re
    from srctools import tokenizer as tokmod
    tree = ast.parse(src_text('tokenizer.py'))
    out: dict = {}
    funcs: dict = {}
    for n in tree.body:
        if isinstance(n, ast.FunctionDef):
            funcs[n.name] = n
        tgt = None
        if isinstance(n, ast.Assign) and len(n.targets) == 1 and isinstance(n.targets[0], ast.Name):
            tgt, val = n.targets[0].id, n.value
        elif isinstance(n, ast.AnnAssign) and isinstance(n.target, ast.Name) and n.value is not None:
            tgt, val = n.target.id, n.value
        if tgt == 'ESCAPES':
            if not isinstance(val, ast.Dict):
                raise TranslateError('tokenizer.py: ESCAPES is not a dict literal')
            tbl = []
            for k, v in zip(val.keys, val.values):
                if not (isinstance(k, ast.Constant) and isinstance(v, ast.Constant) and isinstance(k.value, str)
                        and isinstance(v.value, str) and len(k.value) == 1 and len(v.value) == 1):
                    raise TranslateError(f'tokenizer.py:{n.lineno}: ESCAPES entry is not char: char')
                tbl.append((k.value, v.value))
            if len({k for k, _ in tbl}) != len(tbl):
                raise TranslateError('tokenizer.py: duplicate key in ESCAPES')
            out['table'] = tbl
        if isinstance(n, ast.ClassDef) and n.name == 'Tokenizer':
            out['tokenizer_digest'] = ast_digest(n)
    for need in ('table', 'tokenizer_digest'):
        if need not in out:
            raise TranslateError(f'tokenizer.py: {need} not found')
    fn = funcs.get('escape_text')
    if fn is None:
        raise TranslateError('tokenizer.py: escape_text not found')
    a = fn.args
    if len(a.args) != 2 or a.posonlyargs or a.kwonlyargs or a.vararg or a.kwarg or len(a.defaults) != 1 \
            or not (isinstance(a.defaults[0], ast.Constant) and a.defaults[0].value is False):
        raise TranslateError(f'tokenizer.py:{fn.lineno}: escape_text(text, multiline=False) expected')
    p_text, p_multi = a.args[0].arg, a.args[1].arg
    env: dict = {}

    def static_bool(t):
        if _is_name(t, p_multi):
            return False
        if isinstance(t, ast.UnaryOp) and isinstance(t.op, ast.Not):
            v = static_bool(t.operand)
            return None if v is None else not v
        if isinstance(t, ast.Compare) and len(t.ops) == 1 and _is_name(t.left, p_multi) \
                and isinstance(t.comparators[0], ast.Constant) and isinstance(t.comparators[0].value, bool) \
                and isinstance(t.ops[0], (ast.Is, ast.Eq, ast.IsNot, ast.NotEq)):
            return (False == t.comparators[0].value) == isinstance(t.ops[0], (ast.Is, ast.Eq))     # noqa: E712
        return None

    def pattern_of(e, depth=0):
        if depth > 8:
            raise _err(e, 'escape_text: pattern expression too deep')
        if isinstance(e, ast.Name) and e.id in env:
            return pattern_of(env[e.id], depth + 1)
        if isinstance(e, ast.Name) and e.id not in (p_text, p_multi):
            v = getattr(tokmod, e.id, None)
            if isinstance(v, re.Pattern):
                return v
            raise _err(e, f'escape_text: {e.id} is not a compiled pattern of the module')
        if isinstance(e, ast.IfExp):
            b_ = static_bool(e.test)
            if b_ is None:
                raise _err(e, 'escape_text: conditional pattern does not depend on multiline only')
            return pattern_of(e.body if b_ else e.orelse, depth + 1)
        raise _err(e, 'escape_text: pattern expression not understood')

    def is_text(e) -> bool:
        return _is_name(e, p_text)

    def no_match_test(t):
        """`P.search(text) is None` / `not P.search(text)` -> P"""
        call = None
        if isinstance(t, ast.Compare) and len(t.ops) == 1 and isinstance(t.ops[0], ast.Is) \
                and isinstance(t.comparators[0], ast.Constant) and t.comparators[0].value is None:
            call = t.left
        elif isinstance(t, ast.UnaryOp) and isinstance(t.op, ast.Not):
            call = t.operand
        if isinstance(call, ast.Call) and isinstance(call.func, ast.Attribute) and call.func.attr == 'search' \
                and len(call.args) == 1 and not call.keywords and is_text(call.args[0]):
            return pattern_of(call.func.value)
        return None

    fast: list = []

    def walk(stmts):
        for i, s_ in enumerate(stmts):
            if isinstance(s_, ast.Expr) and isinstance(s_.value, ast.Constant):
                continue
            if isinstance(s_, ast.Assign) and len(s_.targets) == 1 and isinstance(s_.targets[0], ast.Name) \
                    and s_.targets[0].id not in (p_text, p_multi):
                env[s_.targets[0].id] = s_.value
                continue
            if isinstance(s_, ast.If):
                test = s_.test
                if isinstance(test, ast.BoolOp) and isinstance(test.op, ast.And):
                    # operands that depend on multiline only are decided; one undecided operand may remain
                    vals = [(static_bool(v), v) for v in test.values]
                    if any(b0 is False for b0, _ in vals):
                        test = ast.Constant(value=False)
                    else:
                        rest_ = [v for b0, v in vals if b0 is None]
                        test = ast.Constant(value=True) if not rest_ else rest_[0] if len(rest_) == 1 else test
                b_ = test.value if isinstance(test, ast.Constant) and isinstance(test.value, bool) else static_bool(test)
                if b_ is not None:
                    return walk(list(s_.body if b_ else s_.orelse) + list(stmts[i + 1:]))
                pat = no_match_test(test)
                if pat is not None and not s_.orelse and len(s_.body) == 1 and isinstance(s_.body[0], ast.Return) \
                        and is_text(s_.body[0].value):
                    fast.append(pat)
                    continue
                raise _err(s_, 'escape_text: test not understood')
            if isinstance(s_, ast.Return):
                return s_
            raise _err(s_, f'escape_text: statement {type(s_).__name__} not understood')
        raise _err(fn, 'escape_text: no return')
    ret = walk(_strip_doc(fn.body))
    c = ret.value
    if not (isinstance(c, ast.Call) and isinstance(c.func, ast.Attribute) and c.func.attr == 'sub'):
        raise _err(ret, 'escape_text does not return <pattern>.sub(...)')
    kw = {k.arg: k.value for k in c.keywords}
    if None in kw or set(kw) - {'repl', 'string'} or len(c.args) + len(kw) != 2:
        raise _err(ret, 'escape_text: arguments of sub() not understood')
    repl = c.args[0] if c.args else kw.get('repl')
    string = c.args[1] if len(c.args) == 2 else kw.get('string')
    if repl is None or string is None or not is_text(string):
        raise _err(ret, 'escape_text: sub() is not applied to the text')
    pat = pattern_of(c.func.value)
    if isinstance(repl, ast.Name) and repl.id in env:
        repl = env[repl.id]
    # the matcher
    if isinstance(repl, ast.Lambda):
        margs, mval, mnode = repl.args, repl.body, repl
    elif isinstance(repl, ast.Name) and repl.id in funcs:
        mf = funcs[repl.id]
        mb = _strip_doc(mf.body)
        if len(mb) != 1 or not isinstance(mb[0], ast.Return) or mb[0].value is None:
            raise _err(mf, 'escape matcher is not a single return')
        margs, mval, mnode = mf.args, mb[0].value, mf
    else:
        raise _err(ret, 'escape_text: replacement is not a module-level function or a lambda')
    if len(margs.args) != 1 or margs.posonlyargs or margs.kwonlyargs or margs.vararg or margs.kwarg:
        raise _err(mnode, 'escape matcher does not take exactly one argument')
    m_name = margs.args[0].arg
    prefix = ''
    if isinstance(mval, ast.BinOp) and isinstance(mval.op, ast.Add) and isinstance(mval.left, ast.Constant) \
            and isinstance(mval.left.value, str):
        prefix, mval = mval.left.value, mval.right
    elif isinstance(mval, ast.JoinedStr) and len(mval.values) == 2 and isinstance(mval.values[0], ast.Constant) \
            and isinstance(mval.values[1], ast.FormattedValue) and mval.values[1].conversion == -1 \
            and mval.values[1].format_spec is None:
        prefix, mval = mval.values[0].value, mval.values[1].value

    def whole_match(g) -> bool:
        if isinstance(g, ast.Call) and isinstance(g.func, ast.Attribute) and g.func.attr == 'group' \
                and _is_name(g.func.value, m_name) and not g.keywords:
            return not g.args or (len(g.args) == 1 and isinstance(g.args[0], ast.Constant) and g.args[0].value == 0
                                  and type(g.args[0].value) is int)
        return isinstance(g, ast.Subscript) and _is_name(g.value, m_name) and isinstance(g.slice, ast.Constant) \
            and g.slice.value == 0 and type(g.slice.value) is int
    if not (isinstance(mval, ast.Subscript) and isinstance(mval.value, ast.Name) and whole_match(mval.slice)):
        raise _err(mnode, 'escape matcher does not return <table>[match.group()]')
    inv_rt = getattr(tokmod, mval.value.id, None)
    if not isinstance(inv_rt, dict):
        raise _err(mnode, f'escape matcher: {mval.value.id} is not a dict of the module')
    matched = regex_charset(pat)
    inv_last = {}
    for sym, ch in out['table']:
        inv_last[ch] = sym
    for cp in sorted(matched):
        ch = chr(cp)
        if ch not in inv_rt:
            raise TranslateError(f'tokenizer.py: the escape pattern matches {ch!r}, for which {mval.value.id} has no entry')
        if ch not in inv_last or prefix + inv_rt[ch] != '\\' + inv_last[ch]:
            raise TranslateError(f'tokenizer.py: {ch!r} is written as {prefix + str(inv_rt[ch])!r}, which is not a backslash '
                                 'and the symbol ESCAPES has for it')
    seen: list = []
    for _, ch in out['table']:
        if ord(ch) not in matched and ch not in seen:
            seen.append(ch)
    out['excl'] = ''.join(seen)
    miss: set = set()
    for fp in fast:
        miss |= matched - regex_charset(fp)
    out['fast_paths'] = len(fast)
    out['fast_path_missing'] = sorted(miss)
    out['escaped'] = sorted(matched)
    multi = getattr(tokmod, 'ESCAPE_MULTILINE_RE', None)
    try:
        mm = regex_charset(multi)
        out['excl_multi'] = ''.join(ch for ch in dict.fromkeys(c_ for _, c_ in out['table']) if ord(ch) not in mm)
    except TranslateError:
        out['excl_multi'] = None
    return out


def translate() -> tuple[str, dict]:
    tree = ast.parse(src_text('keyvalues.py'))
    cls = next((n for n in tree.body if isinstance(n, ast.ClassDef) and n.name == 'Keyvalues'), None)
    if cls is None:
        raise TranslateError('keyvalues.py: class Keyvalues not found')
    FStr.module_funcs = {n.name: n for n in tree.body if isinstance(n, ast.FunctionDef)}
    SELF_PREDS.clear()
    SELF_PREDS.update(self_preds_of(cls))
    init_state('keyvalues.py', tree, cls)
    f_ser = _find_method(cls, 'serialise')
    f_in = _find_method(cls, '_serialise')
    f_exp = _find_method(cls, 'export')
    f_parse = _find_method(cls, 'parse')
    braces, s1, serpaths = tr_serialise(f_ser, f_in)
    inner, s2 = tr_inner(f_in)
    yields, s3 = tr_export(f_exp)
    xs = tr_export_struct(f_exp)
    xprog = xs.pop('prog')
    psites = tr_parse(f_parse, tree, cls)
    read_flag_known = tr_read_flag(tree)
    stores, muts, info = [], [], []
    for fn, sn in ((f_ser, s1), (f_in, s2), (f_exp, s3)):
        a, b, c = census(fn, sn)
        stores += a
        muts += b
        info += c
    esc = tr_escapes()
    L = ['(* GENERATED by translate/c01_kvser.py from src/srctools/keyvalues.py and tokenizer.py. Do not edit. *)',
         'From Coq Require Import List NArith.', 'From SV Require Import KV.KvBase.', 'Import ListNotations.',
         'Open Scope N_scope.', '',
         'Definition gen_escfg : escfg := {|',
         '  e_table := [' + '; '.join(f'({ord(k)}, {ord(v)})' for k, v in esc['table']) + '];',
         '  e_excl := ' + coq_chars(esc['excl']) + ' |}.',
         '(* Tokenizer options in effect in Keyvalues.parse: string_bracket, string_parens, allow_star_comments, '
         'preserve_comments, colon_operator, plus_operator (allow_escapes is the caller\'s) *)',
         'Definition gen_parse_topts : list bool := [' + '; '.join('true' if x else 'false' for x in psites['tokenizer_options']) + '].',
         '(* characters that escape_text escapes but that a fast path "nothing to escape: return text" does not look for *)',
         'Definition gen_esc_fastpath_missing : list N := [' + '; '.join(str(x) for x in esc['fast_path_missing']) + '].', '',
         'Definition gen_sercfg : sercfg := {|',
         f'  t_root_test := {inner["root_test"]};',
         f'  t_open_ind := {coq_pieces(braces["open_ind"])};',
         f'  t_close_ind := {coq_pieces(braces["close_ind"])};',
         f'  t_open_plain := {coq_pieces(braces["open_plain"])};',
         f'  t_close_plain := {coq_pieces(braces["close_plain"])};',
         f'  t_head := {coq_pieces(inner["head"])};',
         f'  t_child_indent := {coq_pieces(inner["child_indent"])};',
         f'  t_tail := {coq_pieces(inner["tail"])};',
         f'  t_leaf := {coq_pieces(inner["leaf"])};',
         f'  t_root_indent := {coq_pieces(inner["root_indent"])} |}}.', '',
         '(* decisive sites of Keyvalues.parse *)',
         'Definition gen_parsecfg : parsecfg := {|',
         f'  p_key_break := {coq_brk(psites["key_break"])};',
         f'  p_value_break := {coq_brk(psites["value_break"])};',
         f'  p_replace_guard := {"true" if all(psites["replace_guards"]) else "false"};',
         f'  p_single_block_guard := {"true" if psites["single_block_guard"] else "false"} |}}.', '',
         '(* f-strings yielded by the deprecated Keyvalues.export() *)',
         'Definition gen_export_yields : list (list piece) := [' + '; '.join(coq_pieces(p) for _, p in yields) + '].', '',
         '(* the same generator, structurally *)',
         'Definition gen_expcfg : expcfg := {|',
         f'  x_root_test := {xs["root_test"]};',
         '  x_head := [' + '; '.join(coq_pieces(p) for p in xs['head']) + '];',
         f'  x_prefix := {coq_pieces(xs["prefix"])};',
         '  x_tail := [' + '; '.join(coq_pieces(p) for p in xs['tail']) + '];',
         '  x_leaf := [' + '; '.join(coq_pieces(p) for p in xs['leaf']) + '] |}.', '',
         '(* line numbers of stores to / mutating calls on tree objects inside serialise, _serialise, export *)',
         'Definition gen_tree_stores : list N := ' + coq_chars(''.join(chr(x) for x in stores)) + '.',
         'Definition gen_tree_mut_calls : list N := ' + coq_chars(''.join(chr(x) for x in muts)) + '.', '']
    root_test = inner.pop('root_test')
    wprog = inner.pop('prog')
    side = {'templates': {k: [list(p) for p in v] for k, v in {**braces, **inner}.items()},
            'root_test': root_test, 'parse_sites': psites,
            'export_struct': {k: (v if isinstance(v, str) else [list(map(list, y)) if k != 'prefix' else list(y) for y in v])
                              for k, v in xs.items()},
            'export_yields': [[ln, [list(p) for p in ps]] for ln, ps in yields],
            'escapes': esc['table'], 'escape_re_excluded': esc['excl'],
            'escape_multiline_re_excluded': esc.get('excl_multi'), 'escaped_code_points': esc['escaped'],
            'escape_fast_paths': esc['fast_paths'], 'escape_fast_path_missing': esc['fast_path_missing'],
            'tree_stores': stores, 'tree_mut_calls': muts, 'other_stores': info,
            'lines': {'serialise': f_ser.lineno, '_serialise': f_in.lineno, 'export': f_exp.lineno},
            'digests': {'parse': ast_digest(f_parse), 'Tokenizer': esc['tokenizer_digest'],
                        '_serialise': ast_digest(f_in), 'serialise': ast_digest(f_ser)}}
    side['read_flag_shape_recognised'] = read_flag_known
    side['serialise_paths'] = serpaths
    side['export_program'] = {k: [i[0] for i in v] for k, v in xprog.items()}
    side['writer_program'] = {k: [[i[0], ([list(p) for p in i[1]] if isinstance(i[1], list) else i[1])] for i in v] for k, v in wprog.items()}
    return '\n'.join(L), side


GEN = {'KVSer_gen': translate}
