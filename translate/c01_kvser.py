"""C01 translator: the writer side of KeyValues1 -> Gen/KVSer_gen.v.

From keyvalues.py (class Keyvalues):
  * `serialise`: the two definitions of open_brace/close_brace (indent_braces on/off) as templates, and the
    argument list of the call to `_serialise` (must pass indent/open_brace/close_brace/start_indent unchanged);
  * `_serialise`: every `file.write(...)` of the named-block branch (before / after the child loop), of the
    leaf branch, the cur_indent handed to children (named block and root), each f-string piece classified
    Lit / Var / Raw field / Esc field / Other;
  * `export` (deprecated writer): every yielded f-string, classified the same way;
  * a census of attribute/subscript stores and of calls on tree objects inside these three functions.
From tokenizer.py: the ESCAPES dict literal and the exclusion string of ESCAPE_RE, after checking that
`escape_text`, `_escape_matcher`, `ESCAPES_INV` and `ESCAPE_RE` have the shapes the model assumes.

Fail closed: anything not recognised raises TranslateError.
"""
from __future__ import annotations

import ast

from harness.common import TranslateError, ast_digest, src_text

PURE_TREE_METHODS = {'_serialise', 'serialise', 'serialize', 'export', 'has_children', 'is_root'}
MUTATING_METHODS = {'append', 'extend', 'insert', 'pop', 'remove', 'clear', 'sort', 'reverse', 'edit', 'set_key',
                    'merge_children', 'ensure_exists', '__setitem__', '__delitem__', '__iadd__', 'popitem',
                    'update', 'setdefault'}
PURE_FUNCS = {'isinstance', 'repr', 'escape_text', 'str', 'len', 'iter', 'type'}


def _err(node: ast.AST, msg: str) -> TranslateError:
    return TranslateError(f'keyvalues.py:{getattr(node, "lineno", "?")}: {msg}')


def coq_chars(s: str) -> str:
    return '[' + ';'.join(str(ord(c)) for c in s) + ']'


def coq_piece(p) -> str:
    k = p[0]
    if k == 'Lit':
        return f'PLit {coq_chars(p[1])}'
    if k == 'Var':
        return f'PVar {p[1]}'
    if k == 'Raw':
        return f'PRaw {p[1]}'
    if k == 'Esc':
        return f'PEsc {p[1]}'
    return 'POther'


def coq_pieces(ps) -> str:
    return '[' + '; '.join(coq_piece(p) for p in ps) + ']'


class FStr:
    """Classify the pieces of an f-string / string constant given the meaning of the names in scope."""

    def __init__(self, self_name: str, varmap: dict[str, str]) -> None:
        self.self_name = self_name
        self.varmap = varmap            # python name -> Coq tvar constructor
        self.locals: dict[str, list] = {}   # local string variables -> pieces

    def field(self, node: ast.AST):
        if isinstance(node, ast.Attribute) and isinstance(node.value, ast.Name) and node.value.id == self.self_name:
            if node.attr in ('_real_name', 'real_name'):
                return 'FName'
            if node.attr in ('_value', 'value'):
                return 'FValue'
        return None

    def simple(self, e: ast.AST):
        """Pieces of an expression that is a known variable, a tree field or escape_text(field); None otherwise."""
        if isinstance(e, ast.Name):
            if e.id in self.locals:
                return list(self.locals[e.id])
            if e.id in self.varmap:
                return [('Var', self.varmap[e.id])]
            return None
        f = self.field(e)
        if f is not None:
            return [('Raw', f)]
        if isinstance(e, ast.Call) and isinstance(e.func, ast.Name) and e.func.id == 'escape_text' \
                and len(e.args) == 1 and not e.keywords and self.field(e.args[0]) is not None:
            return [('Esc', self.field(e.args[0]))]
        return None

    def pieces(self, node: ast.AST) -> list:
        if isinstance(node, ast.Constant) and isinstance(node.value, str):
            return [('Lit', node.value)] if node.value else []
        if isinstance(node, ast.BinOp) and isinstance(node.op, ast.Add):
            return self._merge(self.pieces(node.left) + self.pieces(node.right))
        if not isinstance(node, ast.JoinedStr):
            sp = self.simple(node)
            if sp is None:
                raise _err(node, f'written text is not an f-string/constant/known name/field: {ast.dump(node)[:80]}')
            return sp
        out: list = []
        for v in node.values:
            if isinstance(v, ast.Constant) and isinstance(v.value, str):
                if v.value:
                    out.append(('Lit', v.value))
                continue
            if not isinstance(v, ast.FormattedValue):
                raise _err(v, 'unknown f-string component')
            if v.conversion != -1 or v.format_spec is not None:
                out.append(('Other', ast.dump(v)[:60]))
                continue
            sp = self.simple(v.value)
            out += sp if sp is not None else [('Other', ast.dump(v.value)[:60])]
        return self._merge(out)

    @staticmethod
    def _merge(out: list) -> list:
        # merge adjacent literals
        merged: list = []
        for p in out:
            if p[0] == 'Lit' and merged and merged[-1][0] == 'Lit':
                merged[-1] = ('Lit', merged[-1][1] + p[1])
            else:
                merged.append(p)
        return merged


def _root_name(node: ast.AST):
    while isinstance(node, (ast.Attribute, ast.Subscript, ast.Call)):
        node = node.func if isinstance(node, ast.Call) else node.value
    return node.id if isinstance(node, ast.Name) else None


def census(fn: ast.FunctionDef, self_name: str) -> tuple[list, list, list]:
    """(stores on tree objects, mutating calls on tree objects, everything else noteworthy); fail closed on
    calls that cannot be classified."""
    tree_names = {self_name}
    fn = ast.Module(body=list(fn.body), type_ignores=[])     # the body only (decorators/defaults are not executed per call)
    for n in ast.walk(fn):
        if isinstance(n, (ast.For, ast.comprehension)) and isinstance(n.target, ast.Name) \
                and _root_name(n.iter) in tree_names:
            tree_names.add(n.target.id)
    # second pass (names bound from names bound above)
    for n in ast.walk(fn):
        if isinstance(n, (ast.For, ast.comprehension)) and isinstance(n.target, ast.Name) \
                and _root_name(n.iter) in tree_names:
            tree_names.add(n.target.id)
    stores, muts, info = [], [], []
    for n in ast.walk(fn):
        tgts = []
        if isinstance(n, ast.Assign):
            tgts = n.targets
        elif isinstance(n, (ast.AugAssign, ast.AnnAssign)):
            tgts = [n.target] if getattr(n, 'value', None) is not None or isinstance(n, ast.AugAssign) else []
        elif isinstance(n, ast.Delete):
            tgts = n.targets
        flat = []
        for t in tgts:
            flat += list(t.elts) if isinstance(t, (ast.Tuple, ast.List)) else [t]
        for t in flat:
            if isinstance(t, (ast.Attribute, ast.Subscript)):
                if _root_name(t) in tree_names:
                    stores.append(n.lineno)
                else:
                    info.append(f'store to {ast.unparse(t)} at {n.lineno}')
            elif isinstance(t, ast.Name) and t.id in tree_names and not isinstance(n, ast.AnnAssign):
                raise _err(n, f'tree variable {t.id} is rebound')
        if isinstance(n, ast.Call):
            f = n.func
            if isinstance(f, ast.Attribute):
                rn = _root_name(f.value)
                if rn in tree_names:
                    if f.attr in PURE_TREE_METHODS:
                        pass
                    elif f.attr in MUTATING_METHODS:
                        muts.append(n.lineno)
                    else:
                        raise _err(n, f'unclassified method call .{f.attr}() on a tree object')
                else:
                    for a in list(n.args) + [k.value for k in n.keywords]:
                        if isinstance(a, ast.Name) and a.id in tree_names:
                            raise _err(n, f'tree object passed to {ast.unparse(f)}')
            elif isinstance(f, ast.Name):
                if f.id not in PURE_FUNCS:
                    raise _err(n, f'unclassified call {f.id}()')
            else:
                raise _err(n, 'unclassified call expression')
    return stores, muts, info


def _is_name(n, ident) -> bool:
    return isinstance(n, ast.Name) and n.id == ident


def _find_method(cls: ast.ClassDef, name: str) -> ast.FunctionDef:
    cands = [n for n in cls.body if isinstance(n, ast.FunctionDef) and n.name == name
             and not any(_is_name(d, 'overload') for d in n.decorator_list)]
    if len(cands) != 1:
        raise TranslateError(f'keyvalues.py: expected exactly one non-overload Keyvalues.{name}, found {len(cands)}')
    return cands[0]


def _strip_doc(body: list) -> list:
    if body and isinstance(body[0], ast.Expr) and isinstance(body[0].value, ast.Constant) \
            and isinstance(body[0].value.value, str):
        return body[1:]
    return body



def _is_bare_return(s: ast.AST) -> bool:
    return isinstance(s, ast.Return) and (s.value is None or (isinstance(s.value, ast.Constant) and s.value.value is None))


def _ends_in_bare_return(stmts: list) -> bool:
    return bool(stmts) and _is_bare_return(stmts[-1])


def norm_tail(stmts: list) -> list:
    """Semantic normalisation of a statement list in *tail position* of a function that returns None (or of a
    generator): control flow is brought to nested if/else form before the shape matchers look at it.
      * `if c: A; return` followed by R          ->  `if c: A else: R`       (early return = else branch)
      * `if c: A else: B; return` followed by R  ->  `if c: A; R else: B`
      * `if not f(...): A else: B`               ->  `if f(...): B else: A`;  `if x is not y: A else: B` -> `if x is y: B else: A`
      * a trailing bare `return` / `return None` is dropped; `pass` is dropped
    applied recursively to the branches (which are then in tail position themselves).  Statements that are not in
    tail position are left alone (a `return` inside a loop stays and is rejected later, fail closed)."""
    stmts = [s for s in stmts if not isinstance(s, ast.Pass)]
    for i, s in enumerate(stmts):
        if not isinstance(s, ast.If):
            continue
        rest = stmts[i + 1:]
        body, orelse = list(s.body), list(s.orelse)
        if rest:
            if _ends_in_bare_return(body) and not _ends_in_bare_return(orelse):
                orelse = orelse + rest
            elif _ends_in_bare_return(orelse) and not _ends_in_bare_return(body):
                body = body + rest
            elif _ends_in_bare_return(orelse) and _ends_in_bare_return(body):
                pass        # rest is unreachable
            else:
                continue    # an ordinary if followed by more statements: not in tail position
        test = s.test
        if isinstance(test, ast.UnaryOp) and isinstance(test.op, ast.Not) and orelse \
                and isinstance(test.operand, ast.Call):
            # `if not isinstance(...)` / `if not self.has_children()`: swap the branches.  A negated *truth test* of a
            # field (`not self._real_name`) is left alone: it is not the negation of an identity test, and the
            # classification of the root test must see it as written.
            test, body, orelse = test.operand, orelse, body
        elif isinstance(test, ast.Compare) and len(test.ops) == 1 and isinstance(test.ops[0], ast.IsNot) and orelse:
            test = ast.copy_location(ast.Compare(left=test.left, ops=[ast.Is()], comparators=test.comparators), test)
            body, orelse = orelse, body
        new = ast.If(test=test, body=norm_tail(body) or [ast.Pass()], orelse=norm_tail(orelse))
        ast.copy_location(new, s)
        return stmts[:i] + [new]
    if _ends_in_bare_return(stmts):
        return norm_tail(stmts[:-1])
    return stmts


def tr_serialise(fn: ast.FunctionDef, inner: ast.FunctionDef):
    a = fn.args
    params = [x.arg for x in a.posonlyargs + a.args + a.kwonlyargs]
    self_name = params[0]
    for need in ('indent', 'indent_braces', 'start_indent'):
        if need not in params:
            raise _err(fn, f'serialise() has no parameter {need}')
    call = None
    for n in ast.walk(fn):
        if isinstance(n, ast.Call) and isinstance(n.func, ast.Attribute) and n.func.attr == inner.name \
                and _is_name(n.func.value, self_name):
            if call is not None:
                raise _err(n, 'more than one call to _serialise in serialise')
            call = n
    if call is None or call.keywords or len(call.args) != 5 or not all(isinstance(x, ast.Name) for x in call.args):
        raise _err(fn, 'call self._serialise(file, indent, open_brace, close_brace, start_indent) not recognised')
    _file, ind, ob, cb, start = [x.id for x in call.args]
    if ind != 'indent' or start != 'start_indent':
        raise _err(call, 'indent/start_indent are not passed through unchanged')
    # the returned string is what was written: `if file is None: file = buffer = io.StringIO()` ... `_serialise(file, ...)`
    # ... `if buffer is not None: return buffer.getvalue()` (the text model describes the writes to `file`)
    file_param = params[1] if len(params) > 1 else None
    if _file != file_param:
        raise _err(call, 'the file parameter is not what _serialise writes to')
    bufs = [n for n in ast.walk(fn) if isinstance(n, ast.Assign) and isinstance(n.value, ast.Call)
            and isinstance(n.value.func, ast.Attribute) and n.value.func.attr == 'StringIO' and not n.value.args]
    if len(bufs) != 1 or len(bufs[0].targets) != 2 or not all(isinstance(t, ast.Name) for t in bufs[0].targets) \
            or file_param not in [t.id for t in bufs[0].targets]:
        raise _err(fn, '`file = buffer = io.StringIO()` not recognised')
    buf_name = next(t.id for t in bufs[0].targets if t.id != file_param)
    guard = [n for n in ast.walk(fn) if isinstance(n, ast.If) and bufs[0] in n.body]
    if len(guard) != 1 or ast.dump(guard[0].test) != ast.dump(ast.parse(f'{file_param} is None', mode='eval').body):
        raise _err(fn, 'the StringIO buffer is not created exactly when file is None')
    rets = [n for n in ast.walk(fn) if isinstance(n, ast.Return) and n.value is not None
            and not (isinstance(n.value, ast.Constant) and n.value.value is None)]
    if len(rets) != 1 or ast.dump(rets[0].value) != ast.dump(ast.parse(f'{buf_name}.getvalue()', mode='eval').body):
        raise _err(fn, 'serialise() does not return buffer.getvalue()')
    if rets[0].lineno < call.lineno:
        raise _err(fn, 'serialise() returns before writing')
    # `x = A if c else B` (also on tuples) is `if c: x = A else: x = B`
    for holder in ast.walk(fn):
        for fld in ('body', 'orelse'):
            stmts = getattr(holder, fld, None)
            if not isinstance(stmts, list):
                continue
            for i, st_ in enumerate(stmts):
                if isinstance(st_, ast.Assign) and isinstance(st_.value, ast.IfExp):
                    ie = st_.value
                    new = ast.If(test=ie.test,
                                 body=[ast.copy_location(ast.Assign(targets=st_.targets, value=ie.body), st_)],
                                 orelse=[ast.copy_location(ast.Assign(targets=st_.targets, value=ie.orelse), st_)])
                    stmts[i] = ast.copy_location(new, st_)
    # no rebinding of the option names
    brace_if = None
    for n in ast.walk(fn):
        if isinstance(n, ast.If) and _is_name(n.test, 'indent_braces'):
            if brace_if is not None:
                raise _err(n, 'two tests of indent_braces')
            brace_if = n
    if brace_if is None:
        raise _err(fn, 'if indent_braces: ... not found')
    inside = {id(x) for x in ast.walk(brace_if)}
    for n in ast.walk(fn):
        if isinstance(n, (ast.Assign, ast.AugAssign, ast.AnnAssign)) and id(n) not in inside:
            tg = n.targets if isinstance(n, ast.Assign) else [n.target]
            for t in tg:
                for nm in ast.walk(t):
                    if isinstance(nm, ast.Name) and nm.id in (ind, ob, cb, start, 'indent_braces'):
                        raise _err(n, f'{nm.id} is assigned outside the indent_braces test')
    fs = FStr(self_name, {ind: 'VIndent'})

    def branch(stmts):
        got = {}
        for s in stmts:
            if not isinstance(s, ast.Assign) or len(s.targets) != 1:
                raise _err(s, 'unexpected statement in the indent_braces test')
            t, v = s.targets[0], s.value
            if isinstance(t, ast.Tuple) and isinstance(v, ast.Tuple) and len(t.elts) == len(v.elts):
                pairs = list(zip(t.elts, v.elts))
            else:
                pairs = [(t, v)]
            for tt, vv in pairs:
                if not isinstance(tt, ast.Name) or tt.id not in (ob, cb):
                    raise _err(s, 'unexpected assignment target in the indent_braces test')
                got[tt.id] = fs.pieces(vv)
        if set(got) != {ob, cb}:
            raise _err(brace_if, 'open_brace/close_brace not both defined in a branch')
        return got[ob], got[cb]
    oi, ci = branch(brace_if.body)
    op, cp = branch(brace_if.orelse)
    return dict(open_ind=oi, close_ind=ci, open_plain=op, close_plain=cp), self_name


def tr_inner(fn: ast.FunctionDef):
    params = [x.arg for x in fn.args.posonlyargs + fn.args.args]
    if len(params) != 6 or fn.args.kwonlyargs or fn.args.vararg or fn.args.kwarg:
        raise _err(fn, '_serialise(self, file, indent, open_brace, close_brace, cur_indent) expected')
    self_name, file_name, ind, ob, cb, cur = params
    fs = FStr(self_name, {ind: 'VIndent', ob: 'VOpenBrace', cb: 'VCloseBrace', cur: 'VCurIndent'})

    def is_self_attr(n, attr):
        return isinstance(n, ast.Attribute) and n.attr == attr and _is_name(n.value, self_name)

    def write_arg(s):
        if isinstance(s, ast.Expr) and isinstance(s.value, ast.Call) and isinstance(s.value.func, ast.Attribute) \
                and s.value.func.attr == 'write' and _is_name(s.value.func.value, file_name):
            if len(s.value.args) != 1 or s.value.keywords:
                raise _err(s, 'file.write with other than one argument')
            return s.value.args[0]
        return None

    def child_loop(s):
        """for child in self._value: child._serialise(file, indent, open_brace, close_brace, X) -> pieces of X"""
        if not (isinstance(s, ast.For) and isinstance(s.target, ast.Name) and is_self_attr(s.iter, '_value')
                and not s.orelse and len(s.body) == 1 and isinstance(s.body[0], ast.Expr)):
            return None
        c = s.body[0].value
        if not (isinstance(c, ast.Call) and isinstance(c.func, ast.Attribute) and c.func.attr == fn.name
                and _is_name(c.func.value, s.target.id)):
            raise _err(s, 'child loop does not call child._serialise')
        cargs = list(c.args)
        if any(isinstance(x, ast.Starred) for x in cargs) or any(k.arg is None for k in c.keywords):
            raise _err(s, 'child loop passes */** arguments')
        kw = {k.arg: k.value for k in c.keywords}
        for pname in params[1 + len(cargs):]:       # keyword arguments, resolved against the parameter list
            if pname not in kw:
                raise _err(s, f'child loop does not pass {pname}')
            cargs.append(kw.pop(pname))
        if kw or len(cargs) != 5:
            raise _err(s, 'child loop does not call child._serialise with its 5 arguments')
        if [getattr(x, 'id', None) for x in cargs[:4]] != [file_name, ind, ob, cb]:
            raise _err(s, 'file/indent/open_brace/close_brace are not passed through unchanged to the children')
        return fs.pieces(cargs[4])

    def seq(stmts, allow_loop):
        """-> (pieces before loop, child indent pieces or None, pieces after loop)"""
        pre, post, loop = [], [], None
        for s in stmts:
            if isinstance(s, (ast.Assert, ast.Pass)):
                continue
            if isinstance(s, ast.Expr) and isinstance(s.value, ast.Constant):
                continue
            w = write_arg(s)
            if w is not None:
                (pre if loop is None else post).extend(fs.pieces(w))
                continue
            if isinstance(s, ast.Assign) and len(s.targets) == 1 and isinstance(s.targets[0], ast.Name) \
                    and s.targets[0].id not in fs.varmap and s.targets[0].id != self_name:
                fs.locals[s.targets[0].id] = fs.pieces(s.value)
                continue
            lp = child_loop(s) if allow_loop else None
            if lp is not None:
                if loop is not None:
                    raise _err(s, 'two child loops')
                loop = lp
                continue
            raise _err(s, f'unrecognised statement in _serialise: {type(s).__name__}')
        return pre, loop, post

    body = norm_tail([s for s in _strip_doc(fn.body) if not (isinstance(s, ast.AnnAssign) and s.value is None)])
    if len(body) != 1 or not isinstance(body[0], ast.If):
        raise _err(fn, '_serialise body is not a single if/else')
    top = body[0]
    t = top.test
    if not (isinstance(t, ast.Call) and _is_name(t.func, 'isinstance') and len(t.args) == 2
            and is_self_attr(t.args[0], '_value') and _is_name(t.args[1], 'list')):
        raise _err(top, 'top test is not isinstance(self._value, list)')
    blk = [s for s in top.body if not isinstance(s, (ast.Assert, ast.Pass))]
    if len(blk) != 1 or not isinstance(blk[0], ast.If):
        raise _err(top, 'block branch is not a single if/else on the root test')
    root_test = classify_root_test(blk[0].test, self_name)
    rpre, rloop, rpost = seq(blk[0].body, True)
    if rpre or rpost or rloop is None:
        raise _err(blk[0], 'root branch writes text of its own or has no child loop')
    head, child, tail = seq(blk[0].orelse, True)
    if child is None:
        raise _err(blk[0], 'named-block branch has no child loop')
    lpre, lloop, lpost = seq(top.orelse, False)
    return dict(head=head, child_indent=child, tail=tail, leaf=lpre + lpost, root_indent=rloop,
                root_test=root_test), self_name


def tr_export_struct(fn: ast.FunctionDef) -> dict:
    """The deprecated generator export(), structurally:
         if isinstance(self._value, list):
             if <root test>:  for kv in self._value: yield from kv.export()
             else:            yield ...; ...; yield from (PREFIX + line for kv in self._value for line in kv.export()); yield ...
         else:                yield ...
       -> root test, yields before/after the children, the constant prefix, yields of a leaf.  Fail closed."""
    self_name = fn.args.args[0].arg
    fs = FStr(self_name, {})

    def is_self_attr(n, attr):
        return isinstance(n, ast.Attribute) and n.attr == attr and _is_name(n.value, self_name)

    def is_export_call(c, var):
        return isinstance(c, ast.Call) and isinstance(c.func, ast.Attribute) and c.func.attr == fn.name \
            and _is_name(c.func.value, var) and not c.args and not c.keywords

    def yields(stmts, allow_children):
        pre, post, prefix = [], [], None
        for st in stmts:
            if isinstance(st, ast.Assert):
                continue
            if not isinstance(st, ast.Expr):
                raise _err(st, f'unrecognised statement in export(): {type(st).__name__}')
            v = st.value
            if isinstance(v, ast.Constant) and isinstance(v.value, str):
                continue        # a docstring-like expression statement
            if isinstance(v, ast.Yield) and v.value is not None:
                (pre if prefix is None else post).append(fs.pieces(v.value))
                continue
            if isinstance(v, ast.YieldFrom) and allow_children:
                g = v.value
                if prefix is not None:
                    raise _err(st, 'two child generators in export()')
                if not (isinstance(g, ast.GeneratorExp) and len(g.generators) == 2
                        and all(not x.ifs and not x.is_async for x in g.generators)):
                    raise _err(st, 'children are not yielded as (PREFIX + line for kv in self._value for line in kv.export())')
                g1, g2 = g.generators
                if not (isinstance(g1.target, ast.Name) and is_self_attr(g1.iter, '_value')
                        and isinstance(g2.target, ast.Name) and is_export_call(g2.iter, g1.target.id)):
                    raise _err(st, 'child generator does not iterate kv.export() for kv in self._value')
                e = g.elt
                if not (isinstance(e, ast.BinOp) and isinstance(e.op, ast.Add) and _is_name(e.right, g2.target.id)
                        and isinstance(e.left, ast.Constant) and isinstance(e.left.value, str)):
                    raise _err(st, 'child lines are not CONSTANT + line')
                prefix = [('Lit', e.left.value)] if e.left.value else []
                continue
            raise _err(st, 'unrecognised expression statement in export()')
        return pre, prefix, post

    body = norm_tail(_strip_doc(fn.body))
    if len(body) != 1 or not isinstance(body[0], ast.If):
        raise _err(fn, 'export() body is not a single if/else')
    top = body[0]
    t = top.test
    if not (isinstance(t, ast.Call) and _is_name(t.func, 'isinstance') and len(t.args) == 2
            and is_self_attr(t.args[0], '_value') and _is_name(t.args[1], 'list')):
        raise _err(top, 'export(): top test is not isinstance(self._value, list)')
    blk = [x for x in top.body if not isinstance(x, (ast.Assert, ast.Pass))]
    if len(blk) != 1 or not isinstance(blk[0], ast.If):
        raise _err(top, 'export(): block branch is not a single if/else on the root test')
    root_test = classify_root_test(blk[0].test, self_name)
    rb = [x for x in blk[0].body if not isinstance(x, ast.Assert)]
    ok_root = (len(rb) == 1 and isinstance(rb[0], ast.For) and isinstance(rb[0].target, ast.Name)
               and is_self_attr(rb[0].iter, '_value') and not rb[0].orelse and len(rb[0].body) == 1
               and isinstance(rb[0].body[0], ast.Expr) and isinstance(rb[0].body[0].value, ast.YieldFrom)
               and is_export_call(rb[0].body[0].value.value, rb[0].target.id))
    if not ok_root:
        raise _err(blk[0], 'export(): root branch is not `for kv in self._value: yield from kv.export()`')
    head, prefix, tail = yields(blk[0].orelse, True)
    if prefix is None:
        raise _err(blk[0], 'export(): named-block branch does not yield its children')
    leaf, lp, lpost = yields(top.orelse, False)
    return dict(root_test=root_test, head=head, prefix=prefix, tail=tail, leaf=leaf + lpost)


def classify_root_test(t: ast.AST, self_name: str) -> str:
    """The test that sends a list-valued node to the 'root' branch (children only, no header, no braces).
    `self._real_name is None` -> RTIsNone; a truth test `not self._real_name` -> RTFalsy (also true of the name '');
    anything else -> RTOther (the obligation root_test_is_None_identity fails, the translator does not)."""
    def is_name_attr(n):
        return isinstance(n, ast.Attribute) and n.attr in ('_real_name', 'real_name', 'name') \
            and _is_name(n.value, self_name)
    if isinstance(t, ast.Compare) and is_name_attr(t.left) and len(t.ops) == 1 and isinstance(t.ops[0], ast.Is) \
            and isinstance(t.comparators[0], ast.Constant) and t.comparators[0].value is None:
        return 'RTIsNone'
    if isinstance(t, ast.UnaryOp) and isinstance(t.op, ast.Not) and is_name_attr(t.operand):
        return 'RTFalsy'
    return 'RTOther'


def tr_export(fn: ast.FunctionDef):
    self_name = fn.args.args[0].arg
    fs = FStr(self_name, {})
    ys = []
    for n in ast.walk(fn):
        if isinstance(n, ast.Yield) and n.value is not None:
            if isinstance(n.value, (ast.JoinedStr, ast.Constant)):
                ys.append((n.lineno, fs.pieces(n.value)))
            else:
                raise _err(n, 'export() yields something that is not a string literal/f-string')
    ys.sort(key=lambda t: t[0])
    return ys, self_name


def tr_parse(fn: ast.FunctionDef) -> dict:
    """(The names of the loop's variables are the roles found by translate/c01_kvloop.py in the prologue of parse:
    a renamed local changes nothing.)
    Decisive sites of Keyvalues.parse:
      * the options handed to Tokenizer(...) (the lexer model hard-codes string_bracket=True and takes
        allow_escapes from the caller; anything else fails closed);
      * the tests guarding the two 'Illegal newline' errors: `not newline_keys and (<test>)`, `not newline_values
        and (<test>)`, with <test> a disjunction of `'<char>' in <name>` -> the list of characters, else BTOther;
      * the two flag-replacement tests `can_flag_replace and ... cur_block_contents[-1] ...`: whether the list is
        tested for emptiness before it is indexed."""
    out: dict = {}
    from translate.c01_kvloop import LoopTr
    roles = LoopTr(fn)
    v_cfr, v_cont, v_tok, v_cur = roles.cfrv, roles.contv, roles.tokenizer, roles.curv
    # --- Tokenizer(...) construction
    calls = [n for n in ast.walk(fn) if isinstance(n, ast.Call) and _is_name(n.func, 'Tokenizer')]
    if len(calls) != 1:
        raise _err(fn, f'expected one Tokenizer(...) construction in parse, found {len(calls)}')
    kws = {}
    for k in calls[0].keywords:
        if k.arg is None:
            raise _err(calls[0], 'Tokenizer(**kwargs) in parse')
        kws[k.arg] = k.value
    if len(calls[0].args) != 3:
        raise _err(calls[0], 'Tokenizer(file_contents, filename, KeyValError, ...) expected')
    if set(kws) != {'string_bracket', 'allow_escapes'}:
        raise _err(calls[0], f'Tokenizer options in parse are {sorted(kws)}, the lexer model assumes '
                             'string_bracket=True, allow_escapes=allow_escapes and defaults otherwise')
    sb = kws['string_bracket']
    if not (isinstance(sb, ast.Constant) and sb.value is True):
        raise _err(calls[0], 'string_bracket is not True')
    if not _is_name(kws['allow_escapes'], 'allow_escapes'):
        raise _err(calls[0], 'allow_escapes is not passed through')

    # --- newline tests
    def brk(opt: str):
        ifs = [n for n in ast.walk(fn) if isinstance(n, ast.If)
               and any(_is_name(x, opt) for x in ast.walk(n.test))]
        if len(ifs) != 1:
            raise _err(fn, f'expected exactly one test of {opt} in parse, found {len(ifs)}')
        node = ifs[0]
        if not (len(node.body) == 1 and isinstance(node.body[0], ast.Raise) and not node.orelse):
            raise _err(node, f'the test of {opt} does not guard a single raise')
        t = node.test
        if not (isinstance(t, ast.BoolOp) and isinstance(t.op, ast.And) and len(t.values) == 2
                and isinstance(t.values[0], ast.UnaryOp) and isinstance(t.values[0].op, ast.Not)
                and _is_name(t.values[0].operand, opt)):
            raise _err(node, f'test is not `not {opt} and (...)`')
        inner = t.values[1]
        parts = inner.values if isinstance(inner, ast.BoolOp) and isinstance(inner.op, ast.Or) else [inner]
        chars, names = [], set()
        for c in parts:
            if isinstance(c, ast.Compare) and len(c.ops) == 1 and isinstance(c.ops[0], ast.In) \
                    and isinstance(c.left, ast.Constant) and isinstance(c.left.value, str) and len(c.left.value) == 1 \
                    and isinstance(c.comparators[0], ast.Name):
                chars.append(c.left.value)
                names.add(c.comparators[0].id)
            else:
                return None, node.lineno, None
        if len(names) != 1:
            return None, node.lineno, None
        return chars, node.lineno, names.pop()
    kch, kline, kname = brk('newline_keys')
    vch, vline, vname = brk('newline_values')
    # the key test must look at the token value of the main loop, the value test at the value token
    loops = [n for n in ast.walk(fn) if isinstance(n, ast.For) and _is_name(n.iter, v_tok)]
    if len(loops) != 1 or not (isinstance(loops[0].target, ast.Tuple) and len(loops[0].target.elts) == 2
                               and all(isinstance(e, ast.Name) for e in loops[0].target.elts)):
        raise _err(fn, 'main loop `for token_type, token_value in tokenizer` not recognised')
    tok_val = loops[0].target.elts[1].id
    if kname is not None and kname != tok_val:
        raise _err(fn, f'the newline_keys test looks at {kname}, not at the key token {tok_val}')
    if vname is not None and vname == tok_val:
        raise _err(fn, f'the newline_values test looks at the key token {tok_val}')
    out['key_break'] = kch
    out['value_break'] = vch
    out['break_lines'] = [kline, vline]

    # --- flag replacement tests
    reps = [n for n in ast.walk(fn) if isinstance(n, ast.If) and isinstance(n.test, ast.BoolOp)
            and isinstance(n.test.op, ast.And) and n.test.values and _is_name(n.test.values[0], v_cfr)]
    if len(reps) != 2:
        raise _err(fn, f'expected two `can_flag_replace and ...` tests, found {len(reps)}')
    guards = []
    for n in reps:
        guarded = False
        for v in n.test.values[1:]:
            if _is_name(v, v_cont):
                guarded = True
                break
            if any(isinstance(x, ast.Subscript) and _is_name(x.value, v_cont) for x in ast.walk(v)):
                break
        guards.append(guarded)
    out['replace_guards'] = guards
    out['replace_lines'] = [n.lineno for n in reps]

    # --- single_block early return `return root[0]` at a closing brace: is root tested for a child first?
    def returns_root0(n: ast.If) -> bool:
        return any(isinstance(x, ast.Return) and isinstance(x.value, ast.Subscript) and isinstance(x.value.value, ast.Name)
                   and isinstance(x.value.slice, ast.Constant) and x.value.slice.value == 0 for x in n.body)
    sbs = [n for n in ast.walk(fn) if isinstance(n, ast.If) and returns_root0(n)]
    if len(sbs) != 1:
        raise _err(fn, f'expected one `return root[0]` site, found {len(sbs)}')
    t = sbs[0].test
    ops = t.values if isinstance(t, ast.BoolOp) and isinstance(t.op, ast.And) else [t]
    root_name = next(x.value.value.id for x in sbs[0].body if isinstance(x, ast.Return))
    base, extra = 0, []
    for v in ops:
        if _is_name(v, 'single_block'):
            base += 1
        elif isinstance(v, ast.Compare) and len(v.ops) == 1 and isinstance(v.ops[0], ast.Is) \
                and _is_name(v.left, v_cur) and _is_name(v.comparators[0], root_name):
            base += 1
        else:
            extra.append(v)
    if base != 2:
        raise _err(sbs[0], 'single_block return is not guarded by `single_block and cur_block is root`')
    if not extra:
        out['single_block_guard'] = False
    elif len(extra) == 1 and isinstance(extra[0], ast.Attribute) and extra[0].attr == '_value' \
            and _is_name(extra[0].value, root_name):
        out['single_block_guard'] = True
    else:
        raise _err(sbs[0], 'unrecognised extra condition on the single_block return')
    return out


READ_FLAG_REF = """
flag_inv = flag_val[:1] == '!'
if flag_inv:
    flag_val = flag_val[1:]
flag_val = flag_val.casefold()
try:
    flag_result = bool(flags[flag_val])
except KeyError:
    flag_result = FLAGS_DEFAULT.get(flag_val, False)
return flag_inv is not flag_result
"""


def tr_read_flag(tree: ast.Module) -> None:
    """_read_flag(flags, flag_val) must have the shape that KV/KvFlags.v read_flag mirrors (fail closed)."""
    fn = next((n for n in tree.body if isinstance(n, ast.FunctionDef) and n.name == '_read_flag'), None)
    if fn is None:
        raise TranslateError('keyvalues.py: _read_flag not found')
    if [a.arg for a in fn.args.args] != ['flags', 'flag_val'] or fn.args.kwonlyargs or fn.args.vararg or fn.args.kwarg:
        raise _err(fn, '_read_flag(flags, flag_val) expected')
    got = ast.dump(ast.Module(body=_strip_doc(fn.body), type_ignores=[]))
    ref_fn = ast.parse('def f():\n' + ''.join('    ' + ln + '\n' for ln in READ_FLAG_REF.strip().splitlines())).body[0]
    want = ast.dump(ast.Module(body=ref_fn.body, type_ignores=[]))
    if got != want:
        raise _err(fn, '_read_flag has an unexpected shape (KV/KvFlags.v mirrors: strip one leading "!", casefold, '
                       'flags[...] else FLAGS_DEFAULT.get(..., False), inverted is-not)')


def coq_brk(chars) -> str:
    return 'BTOther' if chars is None else f'BTChars {coq_chars("".join(chars))}'


def tr_escapes() -> dict:
    tree = ast.parse(src_text('tokenizer.py'))
    out: dict = {}
    for n in tree.body:
        if isinstance(n, ast.Assign) and len(n.targets) == 1 and isinstance(n.targets[0], ast.Name):
            nm = n.targets[0].id
            if nm == 'ESCAPES':
                if not isinstance(n.value, ast.Dict):
                    raise TranslateError('tokenizer.py: ESCAPES is not a dict literal')
                tbl = []
                for k, v in zip(n.value.keys, n.value.values):
                    if not (isinstance(k, ast.Constant) and isinstance(v, ast.Constant) and isinstance(k.value, str)
                            and isinstance(v.value, str) and len(k.value) == 1 and len(v.value) == 1):
                        raise TranslateError(f'tokenizer.py:{n.lineno}: ESCAPES entry is not char: char')
                    tbl.append((k.value, v.value))
                if len({k for k, _ in tbl}) != len(tbl):
                    raise TranslateError('tokenizer.py: duplicate key in ESCAPES')
                out['table'] = tbl
            elif nm == 'ESCAPES_INV':
                want = "DictComp(key=Name(id='char', ctx=Load()), value=JoinedStr(values=[Constant(value='\\\\'), " \
                       "FormattedValue(value=Name(id='sym', ctx=Load()), conversion=-1)]), generators=[comprehension(" \
                       "target=Tuple(elts=[Name(id='sym', ctx=Store()), Name(id='char', ctx=Store())], ctx=Store()), " \
                       "iter=Call(func=Attribute(value=Name(id='ESCAPES', ctx=Load()), attr='items', ctx=Load()), " \
                       "args=[], keywords=[]), ifs=[], is_async=0)])"
                if ast.dump(n.value) != want:
                    raise TranslateError(f'tokenizer.py:{n.lineno}: ESCAPES_INV has an unexpected shape')
                out['inv'] = True
            elif nm in ('ESCAPE_RE', 'ESCAPE_MULTILINE_RE'):
                d = ast.dump(n.value)
                pre = "Call(func=Attribute(value=Name(id='re', ctx=Load()), attr='compile', ctx=Load()), args=[Call(func=" \
                      "Attribute(value=Constant(value='|'), attr='join', ctx=Load()), args=[GeneratorExp(elt=Call(func=" \
                      "Attribute(value=Name(id='re', ctx=Load()), attr='escape', ctx=Load()), args=[Name(id='c', ctx=Load())], " \
                      "keywords=[]), generators=[comprehension(target=Name(id='c', ctx=Store()), iter=Name(id='ESCAPES_INV', " \
                      "ctx=Load()), ifs=[Compare(left=Name(id='c', ctx=Load()), ops=[NotIn()], comparators=[Constant(value="
                if not d.startswith(pre):
                    raise TranslateError(f'tokenizer.py:{n.lineno}: {nm} has an unexpected shape')
                g = n.value.args[0].args[0].generators[0]
                excl = g.ifs[0].comparators[0].value
                if not isinstance(excl, str) or len(g.ifs) != 1:
                    raise TranslateError(f'tokenizer.py:{n.lineno}: {nm} exclusion is not one string')
                out['excl' if nm == 'ESCAPE_RE' else 'excl_multi'] = excl
        elif isinstance(n, ast.FunctionDef) and n.name == 'escape_text':
            body = _strip_doc(n.body)
            want = "Return(value=Call(func=Attribute(value=IfExp(test=Name(id='multiline', ctx=Load()), body=Name(id=" \
                   "'ESCAPE_MULTILINE_RE', ctx=Load()), orelse=Name(id='ESCAPE_RE', ctx=Load())), attr='sub', ctx=Load()), " \
                   "args=[Name(id='_escape_matcher', ctx=Load()), Name(id='text', ctx=Load())], keywords=[]))"
            args = [a.arg for a in n.args.args]
            dflt = [ast.dump(x) for x in n.args.defaults]
            if len(body) != 1 or ast.dump(body[0]) != want or args != ['text', 'multiline'] \
                    or dflt != ['Constant(value=False)']:
                raise TranslateError(f'tokenizer.py:{n.lineno}: escape_text has an unexpected shape')
            out['escape_text'] = True
        elif isinstance(n, ast.FunctionDef) and n.name == '_escape_matcher':
            body = _strip_doc(n.body)
            want = "Return(value=Subscript(value=Name(id='ESCAPES_INV', ctx=Load()), slice=Call(func=Attribute(value=" \
                   "Name(id='match', ctx=Load()), attr='group', ctx=Load()), args=[], keywords=[]), ctx=Load()))"
            if len(body) != 1 or ast.dump(body[0]) != want:
                raise TranslateError(f'tokenizer.py:{n.lineno}: _escape_matcher has an unexpected shape')
            out['matcher'] = True
        elif isinstance(n, ast.ClassDef) and n.name == 'Tokenizer':
            out['tokenizer_digest'] = ast_digest(n)
    for need in ('table', 'inv', 'excl', 'escape_text', 'matcher', 'tokenizer_digest'):
        if need not in out:
            raise TranslateError(f'tokenizer.py: {need} not found')
    return out


def translate() -> tuple[str, dict]:
    tree = ast.parse(src_text('keyvalues.py'))
    cls = next((n for n in tree.body if isinstance(n, ast.ClassDef) and n.name == 'Keyvalues'), None)
    if cls is None:
        raise TranslateError('keyvalues.py: class Keyvalues not found')
    f_ser = _find_method(cls, 'serialise')
    f_in = _find_method(cls, '_serialise')
    f_exp = _find_method(cls, 'export')
    f_parse = _find_method(cls, 'parse')
    braces, s1 = tr_serialise(f_ser, f_in)
    inner, s2 = tr_inner(f_in)
    yields, s3 = tr_export(f_exp)
    xs = tr_export_struct(f_exp)
    psites = tr_parse(f_parse)
    tr_read_flag(tree)
    stores, muts, info = [], [], []
    for fn, sn in ((f_ser, s1), (f_in, s2), (f_exp, s3)):
        a, b, c = census(fn, sn)
        stores += a
        muts += b
        info += c
    esc = tr_escapes()
    L = ['(* GENERATED by translate/c01_kvser.py from src/srctools/keyvalues.py and tokenizer.py. Do not edit. *)',
         'From Coq Require Import List NArith.', 'From SV Require Import KV.KvBase.', 'Import ListNotations.',
         'Open Scope N_scope.', '',
         'Definition gen_escfg : escfg := {|',
         '  e_table := [' + '; '.join(f'({ord(k)}, {ord(v)})' for k, v in esc['table']) + '];',
         '  e_excl := ' + coq_chars(esc['excl']) + ' |}.', '',
         'Definition gen_sercfg : sercfg := {|',
         f'  t_root_test := {inner["root_test"]};',
         f'  t_open_ind := {coq_pieces(braces["open_ind"])};',
         f'  t_close_ind := {coq_pieces(braces["close_ind"])};',
         f'  t_open_plain := {coq_pieces(braces["open_plain"])};',
         f'  t_close_plain := {coq_pieces(braces["close_plain"])};',
         f'  t_head := {coq_pieces(inner["head"])};',
         f'  t_child_indent := {coq_pieces(inner["child_indent"])};',
         f'  t_tail := {coq_pieces(inner["tail"])};',
         f'  t_leaf := {coq_pieces(inner["leaf"])};',
         f'  t_root_indent := {coq_pieces(inner["root_indent"])} |}}.', '',
         '(* decisive sites of Keyvalues.parse *)',
         'Definition gen_parsecfg : parsecfg := {|',
         f'  p_key_break := {coq_brk(psites["key_break"])};',
         f'  p_value_break := {coq_brk(psites["value_break"])};',
         f'  p_replace_guard := {"true" if all(psites["replace_guards"]) else "false"};',
         f'  p_single_block_guard := {"true" if psites["single_block_guard"] else "false"} |}}.', '',
         '(* f-strings yielded by the deprecated Keyvalues.export() *)',
         'Definition gen_export_yields : list (list piece) := [' + '; '.join(coq_pieces(p) for _, p in yields) + '].', '',
         '(* the same generator, structurally *)',
         'Definition gen_expcfg : expcfg := {|',
         f'  x_root_test := {xs["root_test"]};',
         '  x_head := [' + '; '.join(coq_pieces(p) for p in xs['head']) + '];',
         f'  x_prefix := {coq_pieces(xs["prefix"])};',
         '  x_tail := [' + '; '.join(coq_pieces(p) for p in xs['tail']) + '];',
         '  x_leaf := [' + '; '.join(coq_pieces(p) for p in xs['leaf']) + '] |}.', '',
         '(* line numbers of stores to / mutating calls on tree objects inside serialise, _serialise, export *)',
         'Definition gen_tree_stores : list N := ' + coq_chars(''.join(chr(x) for x in stores)) + '.',
         'Definition gen_tree_mut_calls : list N := ' + coq_chars(''.join(chr(x) for x in muts)) + '.', '']
    root_test = inner.pop('root_test')
    side = {'templates': {k: [list(p) for p in v] for k, v in {**braces, **inner}.items()},
            'root_test': root_test, 'parse_sites': psites,
            'export_struct': {k: (v if isinstance(v, str) else [list(map(list, y)) if k != 'prefix' else list(y) for y in v])
                              for k, v in xs.items()},
            'export_yields': [[ln, [list(p) for p in ps]] for ln, ps in yields],
            'escapes': esc['table'], 'escape_re_excluded': esc['excl'],
            'escape_multiline_re_excluded': esc.get('excl_multi'),
            'tree_stores': stores, 'tree_mut_calls': muts, 'other_stores': info,
            'lines': {'serialise': f_ser.lineno, '_serialise': f_in.lineno, 'export': f_exp.lineno},
            'digests': {'parse': ast_digest(f_parse), 'Tokenizer': esc['tokenizer_digest'],
                        '_serialise': ast_digest(f_in), 'serialise': ast_digest(f_ser)}}
    return '\n'.join(L), side


GEN = {'KVSer_gen': translate}
