"""C06 translator (round 2): the export methods of vmf.py as structured *write programs* -> Gen/VmfProg_gen.v.

Every export method becomes a `wprog` of rocq/Fmt/VmfBlocks.v: keyvalue lines (templates classified as in
translate/c06_vmf.py), blocks (name / { / } lines matched up), optional wrapper blocks (`if T: open; ind += TAB` ...
`if T: close`), conditionals, loops and calls of other export methods (with the indentation they pass).  Loops over
`range(K)` that write block names depending on the loop variable are unrolled; methods whose block name is a parameter
(`_export_disp_rowset(name, ...)`, the viewport `title`) are specialised per literal argument.
Fails closed (TranslateError) on any statement / write / block structure it does not recognise.
"""
from __future__ import annotations

import ast
import re
from typing import Any

from harness.common import TranslateError, src_text
from translate import c06_vmf as T

_ROOT = 'VMF.export'


class Line:
    """One written line: kind in name/open/close/kv, indentation (uses the ind variable?, literal tabs, ind[:-1]?)."""
    def __init__(self, kind: str, use_ind: bool, tabs: int, minus: bool, lineno: int, **kw: Any) -> None:
        self.kind, self.use_ind, self.tabs, self.minus, self.lineno = kind, use_ind, tabs, minus, lineno
        self.__dict__.update(kw)


def _indentation(fn: str, pieces: list) -> tuple[bool, int, bool]:
    use_ind, minus, tabs = False, False, 0
    for p in pieces:
        if p.kind == 'ip' and p.cls == 'Struct' and p.field in ('ind', 'ind[:-1]'):
            if use_ind or tabs:
                raise TranslateError(f'{fn}:{p.line}: ind interpolated twice / after tabs')
            use_ind, minus = True, p.field == 'ind[:-1]'
        elif p.kind == 'lit':
            m = re.match(r'\t*', p.text)
            tabs += m.end()      # type: ignore[union-attr]
            if m.end() != len(p.text):      # type: ignore[union-attr]
                break
        else:
            break
    return use_ind, tabs, minus


class Walker:
    """Statements of one export method -> nested items."""

    def __init__(self, fn: str, node: ast.FunctionDef, funcs: dict[str, ast.FunctionDef]) -> None:
        self.fn, self.funcs = fn, funcs
        self.alt_tests: dict[str, str] = {}
        self.items = self.body(node.body)

    def body(self, stmts: list[ast.stmt]) -> list:
        out: list = []
        for s in stmts:
            out += self.stmt(s)
        return out

    def lines_of(self, e: ast.AST, lineno: int) -> list:
        for n in ast.walk(e):
            if isinstance(n, ast.IfExp) and isinstance(n.body, ast.Constant) and isinstance(n.orelse, ast.Constant) \
                    and isinstance(n.body.value, str) and isinstance(n.orelse.value, str):
                self.alt_tests[f'{n.body.value}|{n.orelse.value}'] = ast.unparse(n.test)
        pieces = T.flatten(self.fn, e)
        # Output.export: `ind + self.as_keyvalue()` -> the f-string as_keyvalue returns
        if any(p.kind == 'call' for p in pieces):
            kvf = self.funcs.get('Output.as_keyvalue')
            rets = [n for n in ast.walk(kvf) if isinstance(n, ast.Return) and n.value is not None] if kvf else []
            if len(rets) != 1:
                raise TranslateError('Output.as_keyvalue: a single return of an f-string is expected')
            inl = T.flatten('Output.as_keyvalue', rets[0].value)
            pieces = [q for p in pieces for q in (inl if p.kind == 'call' else [p])]
        out = []
        for ln in T._split_lines(pieces):
            r = T._parse_line(self.fn, ln)
            if r[0] == 'empty':
                continue
            use_ind, tabs, minus = _indentation(self.fn, ln)
            if r[0] == 'name':
                quoted = bool(ln) and any(p.kind == 'lit' and p.text.lstrip('\t').startswith('"') for p in ln[:2])
                out.append(Line('name', use_ind, tabs, minus, lineno, names=r[1], quoted=quoted,
                                struct=[p.field for p in ln if p.kind == 'ip' and p.cls == 'Struct' and '|' in p.field]))
            elif r[0] in ('open', 'close'):
                out.append(Line(r[0], use_ind, tabs, minus, lineno))
            else:
                out.append(Line('kv', use_ind, tabs, minus, lineno, key=r[1], val=r[2]))
        return out

    def stmt(self, s: ast.stmt) -> list:
        fn = self.fn
        if isinstance(s, ast.Expr) and isinstance(s.value, ast.Constant):
            return []
        if isinstance(s, ast.Expr) and isinstance(s.value, ast.Call):
            c = s.value
            f = c.func
            if isinstance(f, ast.Attribute) and f.attr == 'write' and isinstance(f.value, ast.Name) and f.value.id in T.WRITERS:
                if len(c.args) != 1 or c.keywords:
                    raise TranslateError(f'{fn}:{s.lineno}: write() call shape')
                return self.lines_of(c.args[0], s.lineno)
            fs = ast.unparse(f)
            passes_buf = any(isinstance(a, ast.Name) and a.id in T.WRITERS for a in c.args) or \
                any(isinstance(k.value, ast.Name) and k.value.id in T.WRITERS for k in c.keywords)
            if passes_buf or (fn, fs) in T.CALLS:
                if (fn, fs) not in T.CALLS:
                    raise TranslateError(f'{fn}:{s.lineno}: call {fs}(...) receives the output buffer but is not in the call table')
                return [('call', fs, c, s.lineno)]
            if isinstance(f, ast.Attribute) and f.attr == 'write':
                raise TranslateError(f'{fn}:{s.lineno}: write() on unknown receiver')
            return []
        if isinstance(s, ast.If):
            th, el = self.body(s.body), self.body(s.orelse)
            if not th and not el:
                return []
            return [('if', ast.unparse(s.test), th, el, s.lineno)]
        if isinstance(s, ast.For):
            if s.orelse:
                raise TranslateError(f'{fn}:{s.lineno}: for/else')
            b = self.body(s.body)
            if not b:
                return []
            return [('for', ast.unparse(s.target), ast.unparse(s.iter), b, s.lineno, s.iter)]
        if isinstance(s, ast.AugAssign):
            if ast.unparse(s) == "ind += '\\t'":
                return [('indinc', s.lineno)]
            if ast.unparse(s.target) == 'ind':
                raise TranslateError(f'{fn}:{s.lineno}: unrecognised change of ind')
            return []
        if isinstance(s, (ast.Assign, ast.AnnAssign)):
            tg = s.targets if isinstance(s, ast.Assign) else [s.target]
            if any(ast.unparse(t) == 'ind' for t in tg):
                raise TranslateError(f'{fn}:{s.lineno}: assignment to ind')
            for sub in ast.walk(s):
                if isinstance(sub, ast.Attribute) and sub.attr == 'write':
                    raise TranslateError(f'{fn}:{s.lineno}: write inside an expression')
            return []
        if isinstance(s, (ast.Assert, ast.Delete, ast.Pass, ast.Return, ast.Expr)):
            return []
        raise TranslateError(f'{fn}:{s.lineno}: statement {type(s).__name__} in an export method')


class Builder:
    """Items of all export methods -> program table."""

    def __init__(self, funcs: dict[str, ast.FunctionDef]) -> None:
        self.funcs = funcs
        self.walkers = {}
        for fn in T.EXPORT_FUNCS:
            if fn == 'Output.as_keyvalue':
                continue
            if fn not in funcs:
                raise TranslateError(f'export method {fn} not found')
            self.walkers[fn] = Walker(fn, funcs[fn], funcs)
        self.fields: dict[tuple[str, str], int] = {}
        self.nums: set[int] = set()
        self.conds: dict[tuple[str, str], int] = {}
        self.slots: dict[tuple, int] = {}
        self.fn_ids: dict[tuple[str, tuple], int] = {}
        self.progs: dict[int, str] = {}
        self.site_set: set[tuple[str, str, str]] = set()
        self.census: dict[str, dict[str, int]] = {}
        self.pending: list[tuple[str, tuple]] = []
        self.fn_id(_ROOT, ())
        while self.pending:
            fn, params = self.pending.pop(0)
            self.cur = (fn, params)
            self.cnt = self.census.setdefault(self.fn_label(fn, params), {'kv': 0, 'block': 0, 'opt': 0, 'if': 0, 'for': 0, 'call': 0})
            self.progs[self.fn_ids[(fn, params)]] = self.build(self.walkers[fn].items, dict(params), 'PEnd')

    # -- tables
    @staticmethod
    def fn_label(fn: str, params: tuple) -> str:
        return fn + (''.join(f'[{v}]' for _, v in params))

    def fn_id(self, fn: str, params: tuple) -> int:
        k = (fn, params)
        if k not in self.fn_ids:
            self.fn_ids[k] = len(self.fn_ids)
            self.pending.append(k)
        return self.fn_ids[k]

    def field(self, fn: str, expr: str) -> int:
        return self.fields.setdefault((fn, expr), len(self.fields))

    def cond(self, test: str) -> int:
        return self.conds.setdefault((self.cur[0], test), len(self.conds))

    def slot(self, *key: Any) -> int:
        return self.slots.setdefault((self.cur, *key), len(self.slots))

    # -- emit
    def seg(self, p: Any, sub: dict[str, str]) -> str:
        if p.kind == 'lit':
            return f'TLit {T._coq_str(p.text)}'
        owner = 'Output.as_keyvalue' if self.cur[0] == 'Output.export' else self.cur[0]
        idx = self.field(owner, p.field)
        if p.cls in ('Num', 'Sep'):
            self.nums.add(idx)
        return f'TIp {p.cls} {idx}'

    @staticmethod
    def idt(ln: Line) -> str:
        return f'({"true" if ln.use_ind else "false"}, {ln.tabs}%nat)'

    def build(self, items: list, sub: dict[str, str], k: str) -> str:
        """Items (in order) followed by continuation k, as a Coq term."""
        # optional wrapper: if T: [name, open, indinc] ... if T: [close with ind[:-1]]
        for i, it in enumerate(items):
            if isinstance(it, tuple) and it[0] == 'if' and not it[3] and len(it[2]) == 3 and isinstance(it[2][0], Line) \
                    and it[2][0].kind == 'name' and isinstance(it[2][1], Line) and it[2][1].kind == 'open' \
                    and isinstance(it[2][2], tuple) and it[2][2][0] == 'indinc':
                for j in range(len(items) - 1, i, -1):
                    jt = items[j]
                    if isinstance(jt, tuple) and jt[0] == 'if' and jt[1] == it[1] and not jt[3] and len(jt[2]) == 1 \
                            and isinstance(jt[2][0], Line) and jt[2][0].kind == 'close':
                        break
                else:
                    raise TranslateError(f'{self.cur[0]}:{it[4]}: wrapper block opened under `if {it[1]}` is never closed under the same test')
                nm, op, cl = it[2][0], it[2][1], jt[2][0]
                # indentation of the "{" and "}" lines is whitespace only: the model writes them like the name line
                if len(nm.names) != 1 or nm.quoted or nm.minus:
                    raise TranslateError(f'{self.cur[0]}:{it[4]}: wrapper block shape')
                self.check_not_assigned(it[1])
                self.cnt['opt'] += 1
                rest = self.build(items[j + 1:], sub, k)
                inner = self.build(items[i + 1:j], sub, 'PEnd')
                node = f'(POpt {self.cond(it[1])} {self.idt(nm)} {T._coq_str(nm.names[0])} {inner} {rest})'
                return self.build(items[:i], sub, node)
        return self.seq(items, 0, sub, k)

    def check_not_assigned(self, test: str) -> None:
        names = {n.id for n in ast.walk(ast.parse(test, mode='eval')) if isinstance(n, ast.Name)} | \
                {ast.unparse(n) for n in ast.walk(ast.parse(test, mode='eval')) if isinstance(n, ast.Attribute)}
        for s in ast.walk(self.funcs[self.cur[0]]):
            if isinstance(s, (ast.Assign, ast.AugAssign, ast.AnnAssign)):
                tg = s.targets if isinstance(s, ast.Assign) else [s.target]
                if any(ast.unparse(t) in names for t in tg):
                    raise TranslateError(f'{self.cur[0]}:{s.lineno}: {ast.unparse(s)} changes a name used in the wrapper test `{test}`')

    def seq(self, items: list, pos: int, sub: dict[str, str], k: str) -> str:
        if pos >= len(items):
            return k
        it = items[pos]
        fn = self.cur[0]
        if isinstance(it, Line):
            if it.kind == 'kv':
                self.cnt['kv'] += 1
                key = '[' + '; '.join(self.seg(p, sub) for p in it.key) + ']'
                val = '[' + '; '.join(self.seg(p, sub) for p in it.val) + ']'
                self.site_set.add(('Output.as_keyvalue' if fn == 'Output.export' else fn, repr(it.key), repr(it.val)))
                return f'(PKv {self.idt(it)} {key} {val} {self.seq(items, pos + 1, sub, k)})'
            if it.kind == 'name':
                if pos + 1 >= len(items) or not isinstance(items[pos + 1], Line) or items[pos + 1].kind != 'open':
                    raise TranslateError(f'{fn}:{it.lineno}: block name not followed by "{{"')
                depth, j = 1, pos + 2
                while j < len(items):
                    x = items[j]
                    if isinstance(x, Line) and x.kind == 'open':
                        depth += 1
                    elif isinstance(x, Line) and x.kind == 'close':
                        depth -= 1
                        if depth == 0:
                            break
                    j += 1
                else:
                    raise TranslateError(f'{fn}:{it.lineno}: block {it.names} is not closed in the statement list that opens it')
                rest = self.seq(items, j + 1, sub, k)
                names = []
                for n in it.names:
                    for pn, pv in sub.items():
                        n = n.replace('{' + pn + '}', pv)
                    if '{' in n:
                        raise TranslateError(f'{fn}:{it.lineno}: block name {n} has an unresolved parameter')
                    names.append(n)
                q = 'true' if it.quoted else 'false'

                def blk(name: str, cont: str) -> str:
                    self.cnt['block'] += 1
                    return f'(PBlock {self.idt(it)} {T._coq_str(name)} {q} {self.build(items[pos + 2:j], sub, "PEnd")} {cont})'
                if len(names) == 1:
                    return blk(names[0], rest)
                if len(names) == 2 and len(it.struct) == 1 and it.struct[0] in self.walkers[fn].alt_tests:
                    a, b = it.struct[0].split('|')
                    if names != [n for n in names if n in (a, b)] or {a, b} != set(names):
                        raise TranslateError(f'{fn}:{it.lineno}: conditional block name {names}')
                    self.cnt['if'] += 1
                    c = self.cond(self.walkers[fn].alt_tests[it.struct[0]])
                    return f'(PIf {c} {blk(a, "PEnd")} {blk(b, "PEnd")} {rest})'
                raise TranslateError(f'{fn}:{it.lineno}: block name alternatives {names}')
            raise TranslateError(f'{fn}:{it.lineno}: "{it.kind}" line without a matching block name')
        kind = it[0]
        if kind == 'indinc':
            raise TranslateError(f'{fn}:{it[1]}: ind += TAB outside a wrapper block')
        if kind == 'if':
            _, test, th, el, ln = it
            self.cnt['if'] += 1
            return f'(PIf {self.cond(test)} {self.build(th, sub, "PEnd")} {self.build(el, sub, "PEnd")} {self.seq(items, pos + 1, sub, k)})'
        if kind == 'for':
            _, tgt, iters, body, ln, iter_node = it
            rest = self.seq(items, pos + 1, sub, k)
            m = re.fullmatch(r'range\((\d+)\)', iters)
            uses = any(isinstance(x, Line) and x.kind == 'name' and any('{' + tgt + '}' in n for n in x.names) for x in self.flat(body))
            if uses:
                if not m:
                    raise TranslateError(f'{fn}:{ln}: a block name uses {tgt} outside `for {tgt} in range(K)`')
                out = rest
                for kk in reversed(range(int(m.group(1)))):
                    self.cnt['for'] += 1
                    out = f'(PFor {self.slot("for", ln, kk)} {self.build(body, dict(sub, **{tgt: str(kk)}), "PEnd")} {out})'
                return out
            # zip(('v0', ...), xs): one specialised call per literal title
            if isinstance(iter_node, ast.Call) and ast.unparse(iter_node.func) == 'zip' and iter_node.args \
                    and isinstance(iter_node.args[0], ast.Tuple) and all(isinstance(e, ast.Constant) and isinstance(e.value, str) for e in iter_node.args[0].elts):
                titles = [e.value for e in iter_node.args[0].elts]      # type: ignore[attr-defined]
                first = tgt.strip('()').split(',')[0].strip()
                if len(body) != 1 or not (isinstance(body[0], tuple) and body[0][0] == 'call'):
                    raise TranslateError(f'{fn}:{ln}: zip loop body is not a single export call')
                out = rest
                for t in reversed(titles):
                    out = self.call(body[0], dict(sub, **{first: t}), out, extra=('zip', t))
                return out
            self.cnt['for'] += 1
            return f'(PFor {self.slot("for", ln)} {self.build(body, sub, "PEnd")} {rest})'
        if kind == 'call':
            return self.call(it, sub, self.seq(items, pos + 1, sub, k))
        raise TranslateError(f'{fn}: item {kind}')

    def flat(self, items: list) -> list:
        out = []
        for x in items:
            if isinstance(x, Line):
                out.append(x)
            elif x[0] == 'if':
                out += self.flat(x[2]) + self.flat(x[3])
            elif x[0] == 'for':
                out += self.flat(x[3])
        return out

    def call(self, it: tuple, sub: dict[str, str], k: str, extra: tuple = ()) -> str:
        _, fs, c, ln = it
        fn = self.cur[0]
        out = k
        for callee in reversed(T.CALLS[(fn, fs)]):
            if callee == 'Output.as_keyvalue':
                raise TranslateError(f'{fn}:{ln}: direct call of as_keyvalue with the buffer')
            node = self.funcs[callee]
            argnames = [a.arg for a in node.args.args][1:]          # without self
            bound: dict[str, ast.AST] = {}
            for a, v in zip(argnames, c.args):
                bound[a] = v
            for kw in c.keywords:
                if kw.arg is None:
                    raise TranslateError(f'{fn}:{ln}: **kwargs in an export call')
                bound[kw.arg] = kw.value
            # indentation passed
            if 'ind' in argnames:
                e = bound.get('ind')
                if e is None:
                    defaults = dict(zip(reversed(argnames), reversed(node.args.defaults)))
                    d = defaults.get('ind')
                    if not (isinstance(d, ast.Constant) and d.value == ''):
                        raise TranslateError(f'{fn}:{ln}: {callee} called without ind and without an empty default')
                    idt = '(false, 0%nat)'
                else:
                    idt = self.ind_expr(e, ln)
            else:
                idt = '(false, 0%nat)'
            # literal Struct parameters of the callee
            params: list[tuple[str, str]] = []
            for pname in ('name', 'title'):
                if pname in argnames:
                    uses = any(x.kind == 'name' and any('{' + pname + '}' in n for n in x.names) for x in self.flat(self.walkers[callee].items))
                    if not uses:
                        continue
                    v = bound.get(pname)
                    if isinstance(v, ast.Constant) and isinstance(v.value, str):
                        params.append((pname, v.value))
                    elif isinstance(v, ast.Name) and v.id in sub:
                        params.append((pname, sub[v.id]))
                    else:
                        raise TranslateError(f'{fn}:{ln}: {callee} needs a literal {pname}')
            self.cnt['call'] += 1
            fid = self.fn_id(callee, tuple(params))
            out = f'(PCall {self.slot("call", ln, callee, *extra)} {fid} {idt} {out})'
        return out

    def ind_expr(self, e: ast.AST, ln: int) -> str:
        src = ast.unparse(e)
        if src == 'ind':
            return '(true, 0%nat)'
        if isinstance(e, ast.Constant) and isinstance(e.value, str) and set(e.value) <= {'\t'}:
            return f'(false, {len(e.value)}%nat)'
        if isinstance(e, ast.BinOp) and isinstance(e.op, ast.Add) and ast.unparse(e.left) == 'ind' \
                and isinstance(e.right, ast.Constant) and isinstance(e.right.value, str) and set(e.right.value) <= {'\t'}:
            return f'(true, {len(e.right.value)}%nat)'
        if isinstance(e, ast.JoinedStr) and len(e.values) == 2 and isinstance(e.values[0], ast.FormattedValue) \
                and ast.unparse(e.values[0].value) == 'ind' and isinstance(e.values[1], ast.Constant) and set(str(e.values[1].value)) <= {'\t'}:
            return f'(true, {len(str(e.values[1].value))}%nat)'
        raise TranslateError(f'{self.cur[0]}:{ln}: indentation argument {src} not recognised')


_CACHE: dict[str, Any] = {}


def analyse() -> Builder:
    src = src_text('vmf.py')
    key = str(hash(src))
    if _CACHE.get('key') == key:
        return _CACHE['val']
    T.analyse()          # loads the number-format tables and the inlinable locals that flatten/classify use
    funcs = T._funcs(ast.parse(src))
    b = Builder(funcs)
    _CACHE.update(key=key, val=b)
    return b


def gen_prog() -> tuple[str, dict]:
    b = analyse()
    names = {v: Builder.fn_label(*k) for k, v in b.fn_ids.items()}
    lines = ['(* GENERATED by translate/c06_prog.py from src/srctools/vmf.py. Do not edit. *)',
             'From Coq Require Import NArith List String.', 'From SV Require Import Fmt.VmfText Fmt.VmfBlocks.', 'Import ListNotations.',
             'Open Scope N_scope.', '',
             '(* export method (specialised per literal block-name argument) -> write program *)',
             'Definition vmf_progs : list (N * wprog) := [']
    lines.append(';\n'.join(f'  (* {names[i]} *)\n  ({i}, {b.progs[i]})' for i in sorted(b.progs)))
    lines.append('].')
    lines.append('Definition vmf_root : N := 0.')
    lines.append('(* fields whose text is produced by number formatting (classes Num and Sep) *)')
    lines.append('Definition vmf_nums : list N := [' + '; '.join(str(i) for i in sorted(b.nums)) + '].')
    lines.append('Definition vmf_fn_names : list (N * string) := [' + '; '.join(f'({i}, {T._coq_name(names[i])}%string)' for i in sorted(names)) + '].')
    lines.append('Definition vmf_field_names : list (N * string) := [' +
                 '; '.join(f'({i}, {T._coq_name(fn + ": " + ex)}%string)' for (fn, ex), i in sorted(b.fields.items(), key=lambda x: x[1])) + '].')
    lines.append('Definition vmf_cond_names : list (N * string) := [' +
                 '; '.join(f'({i}, {T._coq_name(fn + ": " + ex)}%string)' for (fn, ex), i in sorted(b.conds.items(), key=lambda x: x[1])) + '].')
    lines.append('')
    side = {'functions': names, 'census': b.census, 'n_fields': len(b.fields), 'n_conds': len(b.conds), 'n_slots': len(b.slots),
            'sites': sorted(b.site_set)}
    return '\n'.join(lines), side


GEN = {'VmfProg_gen': gen_prog}


# ---------------------------------------------------------------------------------------------- field-level glue
def row_writers(b: Builder) -> list[tuple[str, str]]:
    """(method, literal prefix) of every written key of the form  prefix{y}  with y the loop variable of a range()."""
    out = []
    for fn, key, _val in sorted(b.site_set):
        m = re.fullmatch(r"\[Lit\('([A-Za-z_]+)'\), Ip\(Num,y\)\]", key)
        if m:
            out.append((fn, m.group(1)))
    if not out:
        raise TranslateError('no written row key of the form prefix{y} found')
    return out


class _Sym:
    """Tiny symbolic evaluator for the separator logic of Output.as_keyvalue / Output.parse.  One instance per *world*
    (as_keyvalue: self.comma_sep true/false; parse: the ESC separator occurs in the value / does not).  Values:
    ('bool', b) ('str', s) ('value',) = prop.value, ('split', ch) = prop.value.split(ch), None = unknown.
    Statements: simple assignments to names and if/else (the branch whose test evaluates to a known bool is followed;
    an unknown test fails closed).  Anything else -> TranslateError."""

    def __init__(self, where: str, esc: str, atoms: dict[str, tuple], has_esc: bool | None = None) -> None:
        self.where, self.esc, self.atoms, self.has_esc = where, esc, atoms, has_esc
        self.env: dict[str, tuple | None] = {}

    def ev(self, e: ast.AST) -> tuple | None:
        src = ast.unparse(e)
        if src in self.atoms:
            return self.atoms[src]
        if isinstance(e, ast.Constant):
            if isinstance(e.value, bool):
                return ('bool', e.value)
            if isinstance(e.value, str):
                return ('str', e.value)
            return None
        if isinstance(e, ast.Name):
            if e.id in self.env:
                return self.env[e.id]
            if e.id == 'OUTPUT_SEP':
                return ('str', self.esc)
            return None
        if isinstance(e, ast.Attribute):
            if e.attr == 'SEP' and isinstance(e.value, ast.Name) and e.value.id in ('self', 'cls', 'Output'):
                return ('str', self.esc)         # class attribute SEP = OUTPUT_SEP (checked by output_seps)
            if e.attr == 'value' and isinstance(e.value, ast.Name) and e.value.id == 'prop':
                return ('value',)
            return None
        if isinstance(e, ast.UnaryOp) and isinstance(e.op, ast.Not):
            v = self.ev(e.operand)
            return ('bool', not v[1]) if v and v[0] == 'bool' else None
        if isinstance(e, ast.BoolOp):
            vs = [self.ev(x) for x in e.values]
            if any(v is None or v[0] != 'bool' for v in vs):
                return None
            bs = [v[1] for v in vs]       # type: ignore[index]
            return ('bool', all(bs) if isinstance(e.op, ast.And) else any(bs))
        if isinstance(e, ast.IfExp):
            t = self.ev(e.test)
            if not t or t[0] != 'bool':
                return None
            return self.ev(e.body if t[1] else e.orelse)
        if isinstance(e, ast.Compare) and len(e.ops) == 1:
            a, b = self.ev(e.left), self.ev(e.comparators[0])
            op = e.ops[0]
            if isinstance(op, (ast.In, ast.NotIn)) and b == ('value',) and a and a[0] == 'str' and self.has_esc is not None:
                if a[1] != self.esc:
                    return None                # membership of another character: not decided by the world
                return ('bool', self.has_esc if isinstance(op, ast.In) else not self.has_esc)
            if isinstance(op, (ast.Is, ast.IsNot, ast.Eq, ast.NotEq)) and a and b and a[0] == b[0] == 'bool':
                same = a[1] == b[1]
                return ('bool', same if isinstance(op, (ast.Is, ast.Eq)) else not same)
            return None
        if isinstance(e, ast.Call) and isinstance(e.func, ast.Attribute) and e.func.attr == 'split' and len(e.args) == 1 \
                and not e.keywords and self.ev(e.func.value) == ('value',):
            ch = self.ev(e.args[0])
            return ('split', ch[1]) if ch and ch[0] == 'str' and len(ch[1]) == 1 else None
        if isinstance(e, ast.Call) and ast.unparse(e.func) == 'bool' and len(e.args) == 1:
            v = self.ev(e.args[0])
            return v if v and v[0] == 'bool' else None
        return None

    def run(self, stmts: list[ast.stmt]) -> None:
        for s in stmts:
            if isinstance(s, ast.Expr) and isinstance(s.value, ast.Constant):
                continue
            if isinstance(s, (ast.Assign, ast.AnnAssign)):
                tg = s.targets if isinstance(s, ast.Assign) else [s.target]
                if s.value is None:
                    continue
                if len(tg) == 1 and isinstance(tg[0], ast.Name):
                    self.env[tg[0].id] = self.ev(s.value)
                    continue
                if len(tg) == 1 and isinstance(tg[0], ast.Tuple) and isinstance(s.value, ast.Tuple) \
                        and len(tg[0].elts) == len(s.value.elts) and all(isinstance(t, ast.Name) for t in tg[0].elts):
                    vals = [self.ev(v) for v in s.value.elts]
                    for t, v in zip(tg[0].elts, vals):
                        self.env[t.id] = v        # type: ignore[attr-defined]
                    continue
                raise TranslateError(f'{self.where}:{s.lineno}: assignment shape in the separator logic')
            if isinstance(s, ast.If):
                t = self.ev(s.test)
                if not t or t[0] != 'bool':
                    raise TranslateError(f'{self.where}:{s.lineno}: test `{ast.unparse(s.test)}` is not decided by the separator in use')
                self.run(s.body if t[1] else s.orelse)
                continue
            raise TranslateError(f'{self.where}:{s.lineno}: statement {type(s).__name__} in the separator logic')


def _prefix_until(stmts: list[ast.stmt], stop: type) -> tuple[list[ast.stmt], ast.stmt]:
    for i, s in enumerate(stmts):
        if isinstance(s, stop):
            return stmts[:i], s
    raise TranslateError(f'no {stop.__name__} statement found')


def output_seps(tree: ast.Module, funcs: dict[str, ast.FunctionDef]) -> dict:
    """Separator characters of Output.as_keyvalue / Output.parse and the order of the fields.  The separator logic of
    both methods is *evaluated* (class _Sym) in the two possible worlds, not matched textually."""
    esc = None
    for n in tree.body:
        tg = n.targets[0] if isinstance(n, ast.Assign) else n.target if isinstance(n, ast.AnnAssign) else None
        if tg is not None and ast.unparse(tg) == 'OUTPUT_SEP' and n.value is not None:
            v = n.value
            if isinstance(v, ast.Constant) and isinstance(v.value, str) and len(v.value) == 1:
                esc = ord(v.value)
            elif isinstance(v, ast.Call) and ast.unparse(v.func) == 'chr' and isinstance(v.args[0], ast.Constant):
                esc = int(v.args[0].value)
    if esc is None:
        raise TranslateError('OUTPUT_SEP: a one-character constant is expected')
    # class attribute Output.SEP must be OUTPUT_SEP
    ocls = next((n for n in tree.body if isinstance(n, ast.ClassDef) and n.name == 'Output'), None)
    sep_attr = [n for n in (ocls.body if ocls else []) if isinstance(n, (ast.Assign, ast.AnnAssign))
                and ast.unparse(n.targets[0] if isinstance(n, ast.Assign) else n.target) == 'SEP']
    if len(sep_attr) != 1 or sep_attr[0].value is None or ast.unparse(sep_attr[0].value) != 'OUTPUT_SEP':
        raise TranslateError('Output.SEP = OUTPUT_SEP expected')
    kv = funcs['Output.as_keyvalue']
    pre, ret = _prefix_until(kv.body, ast.Return)
    sepnames = T.sep_locals(kv)
    if len(sepnames) != 1:
        raise TranslateError(f'Output.as_keyvalue: one separator variable expected, found {sorted(sepnames)}')
    wsep = {}
    for comma in (True, False):
        sy = _Sym('Output.as_keyvalue', chr(esc), {'self.comma_sep': ('bool', comma)})
        sy.run(pre)
        v = sy.env.get(next(iter(sepnames)))
        if not v or v[0] != 'str' or len(v[1]) != 1:
            raise TranslateError('Output.as_keyvalue: the separator is not a known character')
        wsep[comma] = ord(v[1])
    w_comma, w_esc = wsep[True], wsep[False]
    pieces = T.flatten('Output.as_keyvalue', ret.value)       # type: ignore[attr-defined]
    r = T._parse_line('Output.as_keyvalue', T._split_lines(pieces)[0])
    if r[0] != 'kv':
        raise TranslateError('Output.as_keyvalue: not a keyvalue line')
    worder, cur = [], []
    for p in r[2]:
        if p.kind == 'ip' and p.cls == 'Sep':
            worder.append(cur)
            cur = []
        else:
            cur.append(p.field if p.kind == 'ip' else 'lit:' + p.text)
    worder.append(cur)
    canon = {'self.target': 'target', 'self.exp_in()': 'input', 'self.params': 'params', 'self.delay': 'delay', 'self.times': 'times'}

    def canon_of(x: str) -> str | None:
        for k, v in canon.items():
            if x == k or re.fullmatch(r'[A-Za-z_\.]+\(' + re.escape(k) + r'\)', x):      # e.g. conv_kv(self.delay)
                return v
        return None
    if any(len(x) != 1 or canon_of(x[0]) is None for x in worder):
        raise TranslateError(f'Output.as_keyvalue: value fields {worder}')
    w_fields = [canon_of(x[0]) for x in worder]
    # reader: evaluate the statements before the `try` in both worlds
    ps = funcs['Output.parse']
    pre, tr = _prefix_until(ps.body, ast.Try)
    ctor = [n for n in ast.walk(ps) if isinstance(n, ast.Call) and ast.unparse(n.func) == 'cls']
    if len(ctor) != 1:
        raise TranslateError('Output.parse: constructor call')
    flag_e = next((k.value for k in ctor[0].keywords if k.arg == 'comma_sep'), None)
    if flag_e is None:
        raise TranslateError('Output.parse: comma_sep is not passed to the constructor')
    assert isinstance(tr, ast.Try)
    unpack1 = [n for n in tr.body if isinstance(n, ast.Assign) and isinstance(n.targets[0], ast.Tuple)]
    if len(tr.body) != 1 or len(unpack1) != 1:
        raise TranslateError('Output.parse: the try body must be the exact unpacking of the pieces')
    u1 = [ast.unparse(e) for e in unpack1[0].targets[0].elts]          # type: ignore[attr-defined]
    world: dict[bool, tuple] = {}
    syms: dict[bool, _Sym] = {}
    for has in (True, False):
        sy = _Sym('Output.parse', chr(esc), {}, has_esc=has)
        sy.run(pre)
        sp, fl = sy.ev(unpack1[0].value), sy.ev(flag_e)
        if not sp or sp[0] != 'split':
            raise TranslateError('Output.parse: the unpacked pieces are not prop.value.split(<known character>)')
        if not fl or fl[0] != 'bool':
            raise TranslateError('Output.parse: comma_sep flag is not decided by the separator in use')
        world[has] = (ord(sp[1]), fl[1])
        syms[has] = sy
    r_esc, flag_esc = world[True]
    r_comma, flag_comma = world[False]
    # the recombination of extra separators in the except handler
    if len(tr.handlers) != 1:
        raise TranslateError('Output.parse: one except handler expected')
    guard = next((n for n in tr.handlers[0].body if isinstance(n, ast.If)), None)
    if guard is None or not (isinstance(guard.test, ast.BoolOp) and isinstance(guard.test.op, ast.And) and len(guard.test.values) == 2):
        raise TranslateError('Output.parse: recombination guard `<comma form> and len(pieces) > N` expected')
    flag_t = [x for x in guard.test.values if not isinstance(x, ast.Compare)]
    cmp_t = [x for x in guard.test.values if isinstance(x, ast.Compare)]
    if len(flag_t) != 1 or len(cmp_t) != 1 or syms[False].ev(flag_t[0]) != ('bool', True) or syms[True].ev(flag_t[0]) != ('bool', False):
        raise TranslateError('Output.parse: the recombination must be guarded by the comma form')
    c = cmp_t[0]
    left, op, right = c.left, c.ops[0], c.comparators[0]
    if isinstance(left, ast.Constant):        # N < len(v)  ->  len(v) > N
        left, right = right, left
        op = {ast.Lt: ast.Gt, ast.LtE: ast.GtE}.get(type(op), type(None))()
    if not (isinstance(left, ast.Call) and ast.unparse(left.func) == 'len' and len(left.args) == 1
            and (syms[False].ev(left.args[0]) or ('?',))[0] == 'split' and isinstance(right, ast.Constant) and isinstance(right.value, int)
            and isinstance(op, (ast.Gt, ast.GtE))):
        raise TranslateError(f'Output.parse: recombination guard {ast.unparse(c)}')
    recombine_from = right.value + (1 if isinstance(op, ast.Gt) else 0)      # smallest number of pieces that is recombined
    unpack2 = [n for n in guard.body if isinstance(n, ast.Assign) and isinstance(n.targets[0], ast.Tuple)]
    if len(unpack2) != 1 or (syms[False].ev(unpack2[0].value) or ('?',))[0] != 'split':
        raise TranslateError('Output.parse: the starred unpacking of the pieces is expected in the recombination branch')
    u2 = [ast.unparse(e) for e in unpack2[0].targets[0].elts]          # type: ignore[attr-defined]
    star = [x for x in u2 if x.startswith('*')]
    if len(u1) != 5 or len(star) != 1 or u2 != [u1[0], u1[1], star[0], u1[3], u1[4]]:
        raise TranslateError(f'Output.parse: recombination of extra separators {u2}')
    rejoin = [n for n in guard.body if isinstance(n, ast.Assign) and ast.unparse(n.targets[0]) == u1[2]]
    ok = len(rejoin) == 1 and isinstance(rejoin[0].value, ast.Call) and isinstance(rejoin[0].value.func, ast.Attribute) \
        and rejoin[0].value.func.attr == 'join' and len(rejoin[0].value.args) == 1 and ast.unparse(rejoin[0].value.args[0]) == star[0][1:]
    jc = syms[False].ev(rejoin[0].value.func.value) if ok else None          # type: ignore[attr-defined]
    if not ok or not jc or jc[0] != 'str' or len(jc[1]) != 1 or ord(jc[1]) != r_comma:
        raise TranslateError('Output.parse: the extra pieces must be re-joined with the separator they were split on')
    # which constructor argument each unpacked variable feeds
    init_args = [a.arg for a in funcs['Output.__init__'].args.args][1:]
    canon_init = {'targ': 'target', 'inp': 'input', 'param': 'params', 'delay': 'delay', 'times': 'times', 'out': 'output'}
    feeds: dict[str, str] = {}
    for a, v in list(zip(init_args, ctor[0].args)) + [(k.arg, k.value) for k in ctor[0].keywords]:
        names = [x.id for x in ast.walk(v) if isinstance(x, ast.Name)]
        for nm_ in names:
            if nm_ in u1 and a in canon_init:
                feeds[nm_] = canon_init[a]
    r_fields = [feeds.get(v, '?') for v in u1]
    return {'esc': esc, 'w_comma': w_comma, 'w_esc': w_esc, 'r_comma': r_comma, 'r_esc': r_esc, 'flag_esc': flag_esc,
            'flag_comma': flag_comma, 'w_fields': w_fields, 'r_fields': r_fields, 'n_exact': len(u1),
            'recombine_from': recombine_from}


def _guard_form(e: ast.AST) -> tuple[str, str]:
    """any(<v>.<m> for <v> in self._disp_verts) -> ('GAnyTruthy', m); any(<v>.<m> is not None for ...) -> ('GAnyNotNone', m);
    a generator or a list comprehension, `bool(v.m)` allowed; anything else -> ('GOther', '')."""
    if isinstance(e, ast.Call) and ast.unparse(e.func) == 'any' and len(e.args) == 1 and not e.keywords \
            and isinstance(e.args[0], (ast.GeneratorExp, ast.ListComp)) and len(e.args[0].generators) == 1:
        g = e.args[0].generators[0]
        if isinstance(g.target, ast.Name) and not g.ifs and ast.unparse(g.iter) == 'self._disp_verts':
            v, elt = g.target.id, e.args[0].elt
            if isinstance(elt, ast.Call) and ast.unparse(elt.func) == 'bool' and len(elt.args) == 1:
                elt = elt.args[0]
            if isinstance(elt, ast.Attribute) and isinstance(elt.value, ast.Name) and elt.value.id == v:
                return 'GAnyTruthy', elt.attr
            if isinstance(elt, ast.Compare) and len(elt.ops) == 1 and isinstance(elt.ops[0], ast.IsNot) \
                    and isinstance(elt.comparators[0], ast.Constant) and elt.comparators[0].value is None \
                    and isinstance(elt.left, ast.Attribute) and isinstance(elt.left.value, ast.Name) and elt.left.value.id == v:
                return 'GAnyNotNone', elt.left.attr
    return 'GOther', ''


def _falsy_defaults(tree: ast.Module) -> list[str]:
    """Members of DispVertex whose value in a freshly made vertex is falsy: numeric literal 0, Vec4() with Vec4's fields all
    defaulting to 0 and Vec4.__bool__ = any component non-zero, attrs.field(factory=Vec) (Vec() is the zero vector), None."""
    classes = {n.name: n for n in tree.body if isinstance(n, ast.ClassDef)}
    dv, v4 = classes.get('DispVertex'), classes.get('Vec4')
    if dv is None or v4 is None:
        raise TranslateError('DispVertex / Vec4 not found')
    v4_fields = [n for n in v4.body if isinstance(n, ast.AnnAssign)]
    v4_zero = bool(v4_fields) and all(isinstance(n.value, ast.Constant) and n.value.value == 0 for n in v4_fields)
    v4_bool = next((n for n in v4.body if isinstance(n, ast.FunctionDef) and n.name == '__bool__'), None)
    v4_truth = False
    if v4_bool is not None:
        rets = [n for n in ast.walk(v4_bool) if isinstance(n, ast.Return) and n.value is not None]
        if len(rets) == 1:
            attrs_ = {n.attr for n in ast.walk(rets[0].value) if isinstance(n, ast.Attribute)}
            only = all(isinstance(n, (ast.Call, ast.Name, ast.BoolOp, ast.Or, ast.Attribute, ast.Load)) for n in ast.walk(rets[0].value))
            v4_truth = only and attrs_ == {ast.unparse(n.target) for n in v4_fields}
    out = []
    for n in dv.body:
        if not isinstance(n, ast.AnnAssign) or n.value is None:
            continue
        v = n.value
        src = ast.unparse(v)
        if (isinstance(v, ast.Constant) and (v.value is None or v.value == 0)) or (src == 'Vec4()' and v4_zero and v4_truth) \
                or re.fullmatch(r'attrs\.field\(factory=Vec\b.*\)', src) or re.fullmatch(r'attrs\.field\(default=None\b.*\)', src, re.S):
            out.append(ast.unparse(n.target))
    return out


def optional_groups(tree: ast.Module, funcs: dict[str, ast.FunctionDef]) -> list[dict]:
    """`if` statements of Side._export_displacement (without else) that guard the writing of whole arrays."""
    ed = funcs['Side._export_displacement']
    params = {a.arg for a in ed.args.args}
    falsy = _falsy_defaults(tree)
    groups = []

    def arrays_in(stmts: list[ast.stmt]) -> list[tuple[str, str]]:
        out: list[tuple[str, str]] = []
        for s in stmts:
            for n in ast.walk(s):
                if isinstance(n, ast.Call) and ast.unparse(n.func) == 'self._export_disp_rowset':
                    a = n.args
                    if len(a) >= 2 and isinstance(a[0], ast.Constant) and isinstance(a[1], ast.Constant):
                        out.append((a[0].value, a[1].value))
                    else:
                        raise TranslateError('_export_displacement: rowset call without literal array / member names')
            if isinstance(s, ast.For):
                # inline arrays: block names written in the loop, member read from the vertices
                m = re.fullmatch(r'range\((\d+)\)', ast.unparse(s.iter))
                names = set()
                for n in ast.walk(s):
                    if isinstance(n, ast.JoinedStr):
                        txt = ''.join(str(v.value) if isinstance(v, ast.Constant) else '{}' for v in n.values)
                        for mm in re.finditer(r'([a-z_]+_)\{\}\n', txt):
                            names.add(mm.group(1))
                mem = {n.attr for n in ast.walk(s) if isinstance(n, ast.Attribute) and isinstance(n.value, ast.Name) and n.value.id == 'vert'}
                if names and m and len(mem) == 1:
                    for nm in sorted(names):
                        out += [(f'{nm}{k}', next(iter(mem))) for k in range(int(m.group(1)))]
        return out
    for s in ed.body:
        if isinstance(s, ast.If):
            arrs = arrays_in(s.body)
            if not arrs:
                continue
            if s.orelse:
                raise TranslateError('_export_displacement: arrays written under if/else')
            parts = s.test.values if (isinstance(s.test, ast.BoolOp) and isinstance(s.test.op, ast.And)) else [s.test]
            opts = [p.id for p in parts if isinstance(p, ast.Name) and p.id in params]
            rest = [p for p in parts if not (isinstance(p, ast.Name) and p.id in params)]
            form, mem = _guard_form(rest[0]) if len(rest) == 1 else ('GOther', '')
            groups.append({'arrays': arrs, 'form': form, 'member': mem, 'falsy': falsy, 'options': opts, 'test': ast.unparse(s.test)})
    return groups


def gen_fields() -> tuple[str, dict]:
    src = src_text('vmf.py')
    tree = ast.parse(src)
    funcs = T._funcs(tree)
    b = analyse()
    prefix, skip, lo, hi, form, below = T.row_reader(funcs, tree)
    writers = row_writers(b)
    o = output_seps(tree, funcs)
    fw, fr = T.fixup_index_shape(funcs)
    groups = optional_groups(tree, funcs)
    order = ['target', 'input', 'params', 'delay', 'times']
    lines = ['(* GENERATED by translate/c06_prog.py from src/srctools/vmf.py. Do not edit. *)',
             'From Coq Require Import NArith List String.', 'From SV Require Import Fmt.VmfText Fmt.VmfFields Fmt.VmfGuard.', 'Import ListNotations.',
             'Open Scope N_scope.', '',
             f'(* Side._iter_disp_row ({form} form): prefix tested, characters skipped before int(), digit count accepted *)',
             f'Definition gen_rowreader : rowreader := mk_rowreader {T._coq_str(prefix)} {skip}%nat {lo}%nat '
             f'{"None" if hi is None else f"(Some {hi}%nat)"} {"None" if below is None else f"(Some {below})"}.',
             '(* literal prefixes of the written keys  prefix{y} *)',
             'Definition gen_row_prefixes : list (list N) := [' + '; '.join(T._coq_str(p) for p in sorted({p for _, p in writers})) + '].',
             '(* Output.as_keyvalue / Output.parse: separators, field order (0 target, 1 input, 2 params, 3 delay, 4 times) *)',
             f'Definition gen_out_esc : N := {o["esc"]}.',
             f'Definition gen_out_write_comma : N := {o["w_comma"]}.',
             f'Definition gen_out_read_comma : N := {o["r_comma"]}.',
             '(* separator written when comma_sep is false; character split on, and comma_sep flag given to the constructor, when',
             '   the value holds ESC / does not *)',
             f'Definition gen_out_write_esc : N := {o["w_esc"]}.',
             f'Definition gen_out_read_esc : N := {o["r_esc"]}.',
             f'Definition gen_out_flag_when_esc : bool := {"true" if o["flag_esc"] else "false"}.',
             f'Definition gen_out_flag_when_comma : bool := {"true" if o["flag_comma"] else "false"}.',
             'Definition gen_out_write_order : list N := [' + '; '.join(str(order.index(x)) if x in order else '99' for x in o['w_fields']) + '].',
             'Definition gen_out_read_order : list N := [' + '; '.join(str(order.index(x)) if x in order else '99' for x in o['r_fields']) + '].',
             '(* number of pieces unpacked exactly; smallest number of comma-separated pieces that is recombined into five *)',
             f'Definition gen_out_exact_fields : nat := {o["n_exact"]}.',
             f'Definition gen_out_recombine_from : nat := {o["recombine_from"]}.',
             '(* arrays of Side._export_displacement written under a guard: (block, vertex member) pairs, form of the guard, members',
             '   of DispVertex whose default is falsy, export options and-ed to the guard *)',
             'Definition gen_opt_groups : list optgroup := [' + '; '.join(
                 'mk_optgroup [' + '; '.join(f'({T._coq_name(a)}, {T._coq_name(m)})' for a, m in g['arrays']) + ']%string '
                 + (f'({g["form"]} {T._coq_name(g["member"])}%string)' if g['form'] != 'GOther' else 'GOther')
                 + ' [' + '; '.join(T._coq_name(x) for x in g['falsy']) + ']%string [' + '; '.join(T._coq_name(x) for x in g['options']) + ']%string'
                 for g in groups) + '].',
             '']
    return '\n'.join(lines), {'rowreader': {'prefix': prefix, 'skip': skip, 'min': lo, 'max': hi, 'form': form}, 'row_writers': writers,
                              'output': o, 'fixup': [fw, fr], 'optional_groups': groups}


GEN['VmfFieldsCfg_gen'] = gen_fields
