"""C06 translator (round 2): the export methods of vmf.py as structured *write programs* -> Gen/VmfProg_gen.v.

Every export method becomes a `wprog` of rocq/Fmt/VmfBlocks.v: keyvalue lines (templates classified as in
translate/c06_vmf.py), blocks (name / { / } lines matched up), optional wrapper blocks (`if T: open; ind += TAB` ...
`if T: close`), conditionals, loops and calls of other export methods (with the indentation they pass).  Loops over
`range(K)` that write block names depending on the loop variable are unrolled; methods whose block name is a parameter
(`_export_disp_rowset(name, ...)`, the viewport `title`) are specialised per literal argument.
Fails closed (TranslateError) on any statement / write / block structure it does not recognise.
"""
from __future__ import annotations

import ast
import re
from typing import Any

from harness.common import TranslateError, src_text
from translate import c06_vmf as T

_ROOT = 'VMF.export'


class Line:
    """One written line: kind in name/open/close/kv, indentation (uses the ind variable?, literal tabs, ind[:-1]?)."""
    def __init__(self, kind: str, use_ind: bool, tabs: int, minus: bool, lineno: int, **kw: Any) -> None:
        self.kind, self.use_ind, self.tabs, self.minus, self.lineno = kind, use_ind, tabs, minus, lineno
        self.__dict__.update(kw)


def _indentation(fn: str, pieces: list) -> tuple[bool, int, bool]:
    use_ind, minus, tabs = False, False, 0
    for p in pieces:
        if p.kind == 'ip' and p.cls == 'Struct' and p.field in ('ind', 'ind[:-1]'):
            if use_ind or tabs:
                raise TranslateError(f'{fn}:{p.line}: ind interpolated twice / after tabs')
            use_ind, minus = True, p.field == 'ind[:-1]'
        elif p.kind == 'lit':
            m = re.match(r'\t*', p.text)
            tabs += m.end()      # type: ignore[union-attr]
            if m.end() != len(p.text):      # type: ignore[union-attr]
                break
        else:
            break
    return use_ind, tabs, minus


class Walker:
    """Statements of one export method -> nested items."""

    def __init__(self, fn: str, node: ast.FunctionDef, funcs: dict[str, ast.FunctionDef]) -> None:
        self.fn, self.funcs = fn, funcs
        self.alt_tests: dict[str, str] = {}
        self.items = self.body(node.body)

    def body(self, stmts: list[ast.stmt]) -> list:
        out: list = []
        for s in stmts:
            out += self.stmt(s)
        return out

    def lines_of(self, e: ast.AST, lineno: int) -> list:
        for n in ast.walk(e):
            if isinstance(n, ast.IfExp) and isinstance(n.body, ast.Constant) and isinstance(n.orelse, ast.Constant) \
                    and isinstance(n.body.value, str) and isinstance(n.orelse.value, str):
                self.alt_tests[f'{n.body.value}|{n.orelse.value}'] = ast.unparse(n.test)
        pieces = T.flatten(self.fn, e)
        # Output.export: `ind + self.as_keyvalue()` -> the f-string as_keyvalue returns
        if any(p.kind == 'call' for p in pieces):
            kvf = self.funcs.get('Output.as_keyvalue')
            rets = [n for n in ast.walk(kvf) if isinstance(n, ast.Return) and n.value is not None] if kvf else []
            if len(rets) != 1:
                raise TranslateError('Output.as_keyvalue: a single return of an f-string is expected')
            inl = T.flatten('Output.as_keyvalue', rets[0].value)
            pieces = [q for p in pieces for q in (inl if p.kind == 'call' else [p])]
        out = []
        for ln in T._split_lines(pieces):
            r = T._parse_line(self.fn, ln)
            if r[0] == 'empty':
                continue
            use_ind, tabs, minus = _indentation(self.fn, ln)
            if r[0] == 'name':
                quoted = bool(ln) and any(p.kind == 'lit' and p.text.lstrip('\t').startswith('"') for p in ln[:2])
                out.append(Line('name', use_ind, tabs, minus, lineno, names=r[1], quoted=quoted,
                                struct=[p.field for p in ln if p.kind == 'ip' and p.cls == 'Struct' and '|' in p.field]))
            elif r[0] in ('open', 'close'):
                out.append(Line(r[0], use_ind, tabs, minus, lineno))
            else:
                out.append(Line('kv', use_ind, tabs, minus, lineno, key=r[1], val=r[2]))
        return out

    def stmt(self, s: ast.stmt) -> list:
        fn = self.fn
        if isinstance(s, ast.Expr) and isinstance(s.value, ast.Constant):
            return []
        if isinstance(s, ast.Expr) and isinstance(s.value, ast.Call):
            c = s.value
            f = c.func
            if isinstance(f, ast.Attribute) and f.attr == 'write' and isinstance(f.value, ast.Name) and f.value.id in T.WRITERS:
                if len(c.args) != 1 or c.keywords:
                    raise TranslateError(f'{fn}:{s.lineno}: write() call shape')
                return self.lines_of(c.args[0], s.lineno)
            fs = ast.unparse(f)
            passes_buf = any(isinstance(a, ast.Name) and a.id in T.WRITERS for a in c.args) or \
                any(isinstance(k.value, ast.Name) and k.value.id in T.WRITERS for k in c.keywords)
            if passes_buf or (fn, fs) in T.CALLS:
                if (fn, fs) not in T.CALLS:
                    raise TranslateError(f'{fn}:{s.lineno}: call {fs}(...) receives the output buffer but is not in the call table')
                return [('call', fs, c, s.lineno)]
            if isinstance(f, ast.Attribute) and f.attr == 'write':
                raise TranslateError(f'{fn}:{s.lineno}: write() on unknown receiver')
            return []
        if isinstance(s, ast.If):
            th, el = self.body(s.body), self.body(s.orelse)
            if not th and not el:
                return []
            return [('if', ast.unparse(s.test), th, el, s.lineno)]
        if isinstance(s, ast.For):
            if s.orelse:
                raise TranslateError(f'{fn}:{s.lineno}: for/else')
            b = self.body(s.body)
            if not b:
                return []
            return [('for', ast.unparse(s.target), ast.unparse(s.iter), b, s.lineno, s.iter)]
        if isinstance(s, ast.AugAssign):
            if ast.unparse(s) == "ind += '\\t'":
                return [('indinc', s.lineno)]
            if ast.unparse(s.target) == 'ind':
                raise TranslateError(f'{fn}:{s.lineno}: unrecognised change of ind')
            return []
        if isinstance(s, (ast.Assign, ast.AnnAssign)):
            tg = s.targets if isinstance(s, ast.Assign) else [s.target]
            if any(ast.unparse(t) == 'ind' for t in tg):
                raise TranslateError(f'{fn}:{s.lineno}: assignment to ind')
            for sub in ast.walk(s):
                if isinstance(sub, ast.Attribute) and sub.attr == 'write':
                    raise TranslateError(f'{fn}:{s.lineno}: write inside an expression')
            return []
        if isinstance(s, (ast.Assert, ast.Delete, ast.Pass, ast.Return, ast.Expr)):
            return []
        raise TranslateError(f'{fn}:{s.lineno}: statement {type(s).__name__} in an export method')


class Builder:
    """Items of all export methods -> program table."""

    def __init__(self, funcs: dict[str, ast.FunctionDef]) -> None:
        self.funcs = funcs
        self.walkers = {}
        for fn in T.EXPORT_FUNCS:
            if fn == 'Output.as_keyvalue':
                continue
            if fn not in funcs:
                raise TranslateError(f'export method {fn} not found')
            self.walkers[fn] = Walker(fn, funcs[fn], funcs)
        self.fields: dict[tuple[str, str], int] = {}
        self.nums: set[int] = set()
        self.conds: dict[tuple[str, str], int] = {}
        self.slots: dict[tuple, int] = {}
        self.fn_ids: dict[tuple[str, tuple], int] = {}
        self.progs: dict[int, str] = {}
        self.site_set: set[tuple[str, str, str]] = set()
        self.census: dict[str, dict[str, int]] = {}
        self.pending: list[tuple[str, tuple]] = []
        self.fn_id(_ROOT, ())
        while self.pending:
            fn, params = self.pending.pop(0)
            self.cur = (fn, params)
            self.cnt = self.census.setdefault(self.fn_label(fn, params), {'kv': 0, 'block': 0, 'opt': 0, 'if': 0, 'for': 0, 'call': 0})
            self.progs[self.fn_ids[(fn, params)]] = self.build(self.walkers[fn].items, dict(params), 'PEnd')

    # -- tables
    @staticmethod
    def fn_label(fn: str, params: tuple) -> str:
        return fn + (''.join(f'[{v}]' for _, v in params))

    def fn_id(self, fn: str, params: tuple) -> int:
        k = (fn, params)
        if k not in self.fn_ids:
            self.fn_ids[k] = len(self.fn_ids)
            self.pending.append(k)
        return self.fn_ids[k]

    def field(self, fn: str, expr: str) -> int:
        return self.fields.setdefault((fn, expr), len(self.fields))

    def cond(self, test: str) -> int:
        return self.conds.setdefault((self.cur[0], test), len(self.conds))

    def slot(self, *key: Any) -> int:
        return self.slots.setdefault((self.cur, *key), len(self.slots))

    # -- emit
    def seg(self, p: Any, sub: dict[str, str]) -> str:
        if p.kind == 'lit':
            return f'TLit {T._coq_str(p.text)}'
        owner = 'Output.as_keyvalue' if self.cur[0] == 'Output.export' else self.cur[0]
        idx = self.field(owner, p.field)
        if p.cls in ('Num', 'Sep'):
            self.nums.add(idx)
        return f'TIp {p.cls} {idx}'

    @staticmethod
    def idt(ln: Line) -> str:
        return f'({"true" if ln.use_ind else "false"}, {ln.tabs}%nat)'

    def build(self, items: list, sub: dict[str, str], k: str) -> str:
        """Items (in order) followed by continuation k, as a Coq term."""
        # optional wrapper: if T: [name, open, indinc] ... if T: [close with ind[:-1]]
        for i, it in enumerate(items):
            if isinstance(it, tuple) and it[0] == 'if' and not it[3] and len(it[2]) == 3 and isinstance(it[2][0], Line) \
                    and it[2][0].kind == 'name' and isinstance(it[2][1], Line) and it[2][1].kind == 'open' \
                    and isinstance(it[2][2], tuple) and it[2][2][0] == 'indinc':
                for j in range(len(items) - 1, i, -1):
                    jt = items[j]
                    if isinstance(jt, tuple) and jt[0] == 'if' and jt[1] == it[1] and not jt[3] and len(jt[2]) == 1 \
                            and isinstance(jt[2][0], Line) and jt[2][0].kind == 'close':
                        break
                else:
                    raise TranslateError(f'{self.cur[0]}:{it[4]}: wrapper block opened under `if {it[1]}` is never closed under the same test')
                nm, op, cl = it[2][0], it[2][1], jt[2][0]
                # indentation of the "{" and "}" lines is whitespace only: the model writes them like the name line
                if len(nm.names) != 1 or nm.quoted or nm.minus:
                    raise TranslateError(f'{self.cur[0]}:{it[4]}: wrapper block shape')
                self.check_not_assigned(it[1])
                self.cnt['opt'] += 1
                rest = self.build(items[j + 1:], sub, k)
                inner = self.build(items[i + 1:j], sub, 'PEnd')
                node = f'(POpt {self.cond(it[1])} {self.idt(nm)} {T._coq_str(nm.names[0])} {inner} {rest})'
                return self.build(items[:i], sub, node)
        return self.seq(items, 0, sub, k)

    def check_not_assigned(self, test: str) -> None:
        names = {n.id for n in ast.walk(ast.parse(test, mode='eval')) if isinstance(n, ast.Name)} | \
                {ast.unparse(n) for n in ast.walk(ast.parse(test, mode='eval')) if isinstance(n, ast.Attribute)}
        for s in ast.walk(self.funcs[self.cur[0]]):
            if isinstance(s, (ast.Assign, ast.AugAssign, ast.AnnAssign)):
                tg = s.targets if isinstance(s, ast.Assign) else [s.target]
                if any(ast.unparse(t) in names for t in tg):
                    raise TranslateError(f'{self.cur[0]}:{s.lineno}: {ast.unparse(s)} changes a name used in the wrapper test `{test}`')

    def seq(self, items: list, pos: int, sub: dict[str, str], k: str) -> str:
        if pos >= len(items):
            return k
        it = items[pos]
        fn = self.cur[0]
        if isinstance(it, Line):
            if it.kind == 'kv':
                self.cnt['kv'] += 1
                key = '[' + '; '.join(self.seg(p, sub) for p in it.key) + ']'
                val = '[' + '; '.join(self.seg(p, sub) for p in it.val) + ']'
                self.site_set.add(('Output.as_keyvalue' if fn == 'Output.export' else fn, repr(it.key), repr(it.val)))
                return f'(PKv {self.idt(it)} {key} {val} {self.seq(items, pos + 1, sub, k)})'
            if it.kind == 'name':
                if pos + 1 >= len(items) or not isinstance(items[pos + 1], Line) or items[pos + 1].kind != 'open':
                    raise TranslateError(f'{fn}:{it.lineno}: block name not followed by "{{"')
                depth, j = 1, pos + 2
                while j < len(items):
                    x = items[j]
                    if isinstance(x, Line) and x.kind == 'open':
                        depth += 1
                    elif isinstance(x, Line) and x.kind == 'close':
                        depth -= 1
                        if depth == 0:
                            break
                    j += 1
                else:
                    raise TranslateError(f'{fn}:{it.lineno}: block {it.names} is not closed in the statement list that opens it')
                rest = self.seq(items, j + 1, sub, k)
                names = []
                for n in it.names:
                    for pn, pv in sub.items():
                        n = n.replace('{' + pn + '}', pv)
                    if '{' in n:
                        raise TranslateError(f'{fn}:{it.lineno}: block name {n} has an unresolved parameter')
                    names.append(n)
                q = 'true' if it.quoted else 'false'

                def blk(name: str, cont: str) -> str:
                    self.cnt['block'] += 1
                    return f'(PBlock {self.idt(it)} {T._coq_str(name)} {q} {self.build(items[pos + 2:j], sub, "PEnd")} {cont})'
                if len(names) == 1:
                    return blk(names[0], rest)
                if len(names) == 2 and len(it.struct) == 1 and it.struct[0] in self.walkers[fn].alt_tests:
                    a, b = it.struct[0].split('|')
                    if names != [n for n in names if n in (a, b)] or {a, b} != set(names):
                        raise TranslateError(f'{fn}:{it.lineno}: conditional block name {names}')
                    self.cnt['if'] += 1
                    c = self.cond(self.walkers[fn].alt_tests[it.struct[0]])
                    return f'(PIf {c} {blk(a, "PEnd")} {blk(b, "PEnd")} {rest})'
                raise TranslateError(f'{fn}:{it.lineno}: block name alternatives {names}')
            raise TranslateError(f'{fn}:{it.lineno}: "{it.kind}" line without a matching block name')
        kind = it[0]
        if kind == 'indinc':
            raise TranslateError(f'{fn}:{it[1]}: ind += TAB outside a wrapper block')
        if kind == 'if':
            _, test, th, el, ln = it
            self.cnt['if'] += 1
            return f'(PIf {self.cond(test)} {self.build(th, sub, "PEnd")} {self.build(el, sub, "PEnd")} {self.seq(items, pos + 1, sub, k)})'
        if kind == 'for':
            _, tgt, iters, body, ln, iter_node = it
            rest = self.seq(items, pos + 1, sub, k)
            m = re.fullmatch(r'range\((\d+)\)', iters)
            uses = any(isinstance(x, Line) and x.kind == 'name' and any('{' + tgt + '}' in n for n in x.names) for x in self.flat(body))
            if uses:
                if not m:
                    raise TranslateError(f'{fn}:{ln}: a block name uses {tgt} outside `for {tgt} in range(K)`')
                out = rest
                for kk in reversed(range(int(m.group(1)))):
                    self.cnt['for'] += 1
                    out = f'(PFor {self.slot("for", ln, kk)} {self.build(body, dict(sub, **{tgt: str(kk)}), "PEnd")} {out})'
                return out
            # zip(('v0', ...), xs): one specialised call per literal title
            if isinstance(iter_node, ast.Call) and ast.unparse(iter_node.func) == 'zip' and iter_node.args \
                    and isinstance(iter_node.args[0], ast.Tuple) and all(isinstance(e, ast.Constant) and isinstance(e.value, str) for e in iter_node.args[0].elts):
                titles = [e.value for e in iter_node.args[0].elts]      # type: ignore[attr-defined]
                first = tgt.strip('()').split(',')[0].strip()
                if len(body) != 1 or not (isinstance(body[0], tuple) and body[0][0] == 'call'):
                    raise TranslateError(f'{fn}:{ln}: zip loop body is not a single export call')
                out = rest
                for t in reversed(titles):
                    out = self.call(body[0], dict(sub, **{first: t}), out, extra=('zip', t))
                return out
            self.cnt['for'] += 1
            return f'(PFor {self.slot("for", ln)} {self.build(body, sub, "PEnd")} {rest})'
        if kind == 'call':
            return self.call(it, sub, self.seq(items, pos + 1, sub, k))
        raise TranslateError(f'{fn}: item {kind}')

    def flat(self, items: list) -> list:
        out = []
        for x in items:
            if isinstance(x, Line):
                out.append(x)
            elif x[0] == 'if':
                out += self.flat(x[2]) + self.flat(x[3])
            elif x[0] == 'for':
                out += self.flat(x[3])
        return out

    def call(self, it: tuple, sub: dict[str, str], k: str, extra: tuple = ()) -> str:
        _, fs, c, ln = it
        fn = self.cur[0]
        out = k
        for callee in reversed(T.CALLS[(fn, fs)]):
            if callee == 'Output.as_keyvalue':
                raise TranslateError(f'{fn}:{ln}: direct call of as_keyvalue with the buffer')
            node = self.funcs[callee]
            argnames = [a.arg for a in node.args.args][1:]          # without self
            bound: dict[str, ast.AST] = {}
            for a, v in zip(argnames, c.args):
                bound[a] = v
            for kw in c.keywords:
                if kw.arg is None:
                    raise TranslateError(f'{fn}:{ln}: **kwargs in an export call')
                bound[kw.arg] = kw.value
            # indentation passed
            if 'ind' in argnames:
                e = bound.get('ind')
                if e is None:
                    defaults = dict(zip(reversed(argnames), reversed(node.args.defaults)))
                    d = defaults.get('ind')
                    if not (isinstance(d, ast.Constant) and d.value == ''):
                        raise TranslateError(f'{fn}:{ln}: {callee} called without ind and without an empty default')
                    idt = '(false, 0%nat)'
                else:
                    idt = self.ind_expr(e, ln)
            else:
                idt = '(false, 0%nat)'
            # literal Struct parameters of the callee
            params: list[tuple[str, str]] = []
            for pname in ('name', 'title'):
                if pname in argnames:
                    uses = any(x.kind == 'name' and any('{' + pname + '}' in n for n in x.names) for x in self.flat(self.walkers[callee].items))
                    if not uses:
                        continue
                    v = bound.get(pname)
                    if isinstance(v, ast.Constant) and isinstance(v.value, str):
                        params.append((pname, v.value))
                    elif isinstance(v, ast.Name) and v.id in sub:
                        params.append((pname, sub[v.id]))
                    else:
                        raise TranslateError(f'{fn}:{ln}: {callee} needs a literal {pname}')
            self.cnt['call'] += 1
            fid = self.fn_id(callee, tuple(params))
            out = f'(PCall {self.slot("call", ln, callee, *extra)} {fid} {idt} {out})'
        return out

    def ind_expr(self, e: ast.AST, ln: int) -> str:
        src = ast.unparse(e)
        if src == 'ind':
            return '(true, 0%nat)'
        if isinstance(e, ast.Constant) and isinstance(e.value, str) and set(e.value) <= {'\t'}:
            return f'(false, {len(e.value)}%nat)'
        if isinstance(e, ast.BinOp) and isinstance(e.op, ast.Add) and ast.unparse(e.left) == 'ind' \
                and isinstance(e.right, ast.Constant) and isinstance(e.right.value, str) and set(e.right.value) <= {'\t'}:
            return f'(true, {len(e.right.value)}%nat)'
        if isinstance(e, ast.JoinedStr) and len(e.values) == 2 and isinstance(e.values[0], ast.FormattedValue) \
                and ast.unparse(e.values[0].value) == 'ind' and isinstance(e.values[1], ast.Constant) and set(str(e.values[1].value)) <= {'\t'}:
            return f'(true, {len(str(e.values[1].value))}%nat)'
        raise TranslateError(f'{self.cur[0]}:{ln}: indentation argument {src} not recognised')


_CACHE: dict[str, Any] = {}


def analyse() -> Builder:
    src = src_text('vmf.py')
    key = str(hash(src))
    if _CACHE.get('key') == key:
        return _CACHE['val']
    funcs = T._funcs(ast.parse(src))
    b = Builder(funcs)
    _CACHE.update(key=key, val=b)
    return b


def gen_prog() -> tuple[str, dict]:
    b = analyse()
    names = {v: Builder.fn_label(*k) for k, v in b.fn_ids.items()}
    lines = ['(* GENERATED by translate/c06_prog.py from src/srctools/vmf.py. Do not edit. *)',
             'From Coq Require Import NArith List String.', 'From SV Require Import Fmt.VmfText Fmt.VmfBlocks.', 'Import ListNotations.',
             'Open Scope N_scope.', '',
             '(* export method (specialised per literal block-name argument) -> write program *)',
             'Definition vmf_progs : list (N * wprog) := [']
    lines.append(';\n'.join(f'  (* {names[i]} *)\n  ({i}, {b.progs[i]})' for i in sorted(b.progs)))
    lines.append('].')
    lines.append('Definition vmf_root : N := 0.')
    lines.append('(* fields whose text is produced by number formatting (classes Num and Sep) *)')
    lines.append('Definition vmf_nums : list N := [' + '; '.join(str(i) for i in sorted(b.nums)) + '].')
    lines.append('Definition vmf_fn_names : list (N * string) := [' + '; '.join(f'({i}, {T._coq_name(names[i])}%string)' for i in sorted(names)) + '].')
    lines.append('Definition vmf_field_names : list (N * string) := [' +
                 '; '.join(f'({i}, {T._coq_name(fn + ": " + ex)}%string)' for (fn, ex), i in sorted(b.fields.items(), key=lambda x: x[1])) + '].')
    lines.append('Definition vmf_cond_names : list (N * string) := [' +
                 '; '.join(f'({i}, {T._coq_name(fn + ": " + ex)}%string)' for (fn, ex), i in sorted(b.conds.items(), key=lambda x: x[1])) + '].')
    lines.append('')
    side = {'functions': names, 'census': b.census, 'n_fields': len(b.fields), 'n_conds': len(b.conds), 'n_slots': len(b.slots),
            'sites': sorted(b.site_set)}
    return '\n'.join(lines), side


GEN = {'VmfProg_gen': gen_prog}


# ---------------------------------------------------------------------------------------------- field-level glue
def row_writers(b: Builder) -> list[tuple[str, str]]:
    """(method, literal prefix) of every written key of the form  prefix{y}  with y the loop variable of a range()."""
    out = []
    for fn, key, _val in sorted(b.site_set):
        m = re.fullmatch(r"\[Lit\('([A-Za-z_]+)'\), Ip\(Num,y\)\]", key)
        if m:
            out.append((fn, m.group(1)))
    if not out:
        raise TranslateError('no written row key of the form prefix{y} found')
    return out


def output_seps(tree: ast.Module, funcs: dict[str, ast.FunctionDef]) -> dict:
    """Separator characters of Output.as_keyvalue / Output.parse and the order of the fields."""
    esc = None
    for n in tree.body:
        tg = n.targets[0] if isinstance(n, ast.Assign) else n.target if isinstance(n, ast.AnnAssign) else None
        if tg is not None and ast.unparse(tg) == 'OUTPUT_SEP' and n.value is not None:
            v = n.value
            if isinstance(v, ast.Constant) and isinstance(v.value, str) and len(v.value) == 1:
                esc = ord(v.value)
            elif isinstance(v, ast.Call) and ast.unparse(v.func) == 'chr' and isinstance(v.args[0], ast.Constant):
                esc = int(v.args[0].value)
    if esc is None:
        raise TranslateError('OUTPUT_SEP: a one-character constant is expected')
    kv = funcs['Output.as_keyvalue']
    sep_def = [n for n in ast.walk(kv) if isinstance(n, ast.Assign) and ast.unparse(n.targets[0]) == 'sep']
    if len(sep_def) != 1 or not isinstance(sep_def[0].value, ast.IfExp):
        raise TranslateError('Output.as_keyvalue: sep = A if self.comma_sep else B expected')
    ie = sep_def[0].value
    if ast.unparse(ie.test) != 'self.comma_sep' or not (isinstance(ie.body, ast.Constant) and isinstance(ie.body.value, str) and len(ie.body.value) == 1) \
            or ast.unparse(ie.orelse) not in ('self.SEP', 'OUTPUT_SEP'):
        raise TranslateError(f'Output.as_keyvalue: separator choice {ast.unparse(ie)}')
    w_comma = ord(ie.body.value)
    rets = [n for n in ast.walk(kv) if isinstance(n, ast.Return) and n.value is not None]
    pieces = T.flatten('Output.as_keyvalue', rets[0].value)
    r = T._parse_line('Output.as_keyvalue', T._split_lines(pieces)[0])
    if r[0] != 'kv':
        raise TranslateError('Output.as_keyvalue: not a keyvalue line')
    worder, cur = [], []
    for p in r[2]:
        if p.kind == 'ip' and p.cls == 'Sep':
            worder.append(cur)
            cur = []
        else:
            cur.append(p.field if p.kind == 'ip' else 'lit:' + p.text)
    worder.append(cur)
    canon = {'self.target': 'target', 'self.exp_in()': 'input', 'self.params': 'params', 'self.delay': 'delay', 'self.times': 'times'}
    if any(len(x) != 1 or x[0] not in canon for x in worder):
        raise TranslateError(f'Output.as_keyvalue: value fields {worder}')
    w_fields = [canon[x[0]] for x in worder]
    # reader
    ps = funcs['Output.parse']
    src = ast.unparse(ps)
    first_if = next((n for n in ps.body if isinstance(n, ast.If)), None)
    if first_if is None or ast.unparse(first_if.test) != 'OUTPUT_SEP in prop.value':
        raise TranslateError('Output.parse: `if OUTPUT_SEP in prop.value` expected')
    if 'vals = prop.value.split(OUTPUT_SEP)' not in ast.unparse(first_if.body[1] if len(first_if.body) > 1 else first_if.body[0]):
        raise TranslateError('Output.parse: split on OUTPUT_SEP expected')
    else_split = [n for n in first_if.orelse if isinstance(n, ast.Assign) and ast.unparse(n.targets[0]) == 'vals']
    m = re.fullmatch(r"prop\.value\.split\('(.)'\)", ast.unparse(else_split[0].value)) if else_split else None
    if not m:
        raise TranslateError('Output.parse: else-branch split')
    r_comma = ord(m.group(1))
    sep_flags = (ast.unparse(first_if.body[0]), ast.unparse(first_if.orelse[0]))
    if sep_flags != ('sep = False', 'sep = True'):
        raise TranslateError(f'Output.parse: comma_sep flags {sep_flags}')
    unpack = [n for n in ast.walk(ps) if isinstance(n, ast.Assign) and isinstance(n.targets[0], ast.Tuple) and ast.unparse(n.value) == 'vals']
    if len(unpack) != 2:
        raise TranslateError('Output.parse: two unpackings of vals expected')
    u1 = [ast.unparse(e) for e in unpack[0].targets[0].elts]
    u2 = [ast.unparse(e) for e in unpack[1].targets[0].elts]
    if u2 != [u1[0], u1[1], '*param_lst', u1[3], u1[4]] or f"{u1[2]} = '{chr(r_comma)}'.join(param_lst)" not in src:
        raise TranslateError(f'Output.parse: recombination of extra separators {u2}')
    mg = re.search(r'sep and len\(vals\) (>=|>) (\d+)', src)
    if not mg:
        raise TranslateError('Output.parse: recombination guard')
    recombine_from = int(mg.group(2)) + (1 if mg.group(1) == '>' else 0)      # smallest number of pieces that is recombined
    # which constructor argument each unpacked variable feeds
    ctor = [n for n in ast.walk(ps) if isinstance(n, ast.Call) and ast.unparse(n.func) == 'cls']
    if len(ctor) != 1:
        raise TranslateError('Output.parse: constructor call')
    init_args = [a.arg for a in funcs['Output.__init__'].args.args][1:]
    canon_init = {'targ': 'target', 'inp': 'input', 'param': 'params', 'delay': 'delay', 'times': 'times', 'out': 'output'}
    feeds: dict[str, str] = {}
    for a, v in list(zip(init_args, ctor[0].args)) + [(k.arg, k.value) for k in ctor[0].keywords]:
        names = [x.id for x in ast.walk(v) if isinstance(x, ast.Name)]
        for nm_ in names:
            if nm_ in u1 and a in canon_init:
                feeds[nm_] = canon_init[a]
    r_fields = [feeds.get(v, '?') for v in u1]
    return {'esc': esc, 'w_comma': w_comma, 'r_comma': r_comma, 'w_fields': w_fields, 'r_fields': r_fields, 'n_exact': len(u1),
            'recombine_from': recombine_from}


def gen_fields() -> tuple[str, dict]:
    src = src_text('vmf.py')
    tree = ast.parse(src)
    funcs = T._funcs(tree)
    b = analyse()
    prefix, skip, lo, hi, form = T.row_reader(funcs, tree)
    writers = row_writers(b)
    o = output_seps(tree, funcs)
    fw, fr = T.fixup_index_shape(funcs)
    order = ['target', 'input', 'params', 'delay', 'times']
    lines = ['(* GENERATED by translate/c06_prog.py from src/srctools/vmf.py. Do not edit. *)',
             'From Coq Require Import NArith List String.', 'From SV Require Import Fmt.VmfText Fmt.VmfFields.', 'Import ListNotations.',
             'Open Scope N_scope.', '',
             f'(* Side._iter_disp_row ({form} form): prefix tested, characters skipped before int(), digit count accepted *)',
             f'Definition gen_rowreader : rowreader := mk_rowreader {T._coq_str(prefix)} {skip}%nat {lo}%nat '
             f'{"None" if hi is None else f"(Some {hi}%nat)"}.',
             '(* literal prefixes of the written keys  prefix{y} *)',
             'Definition gen_row_prefixes : list (list N) := [' + '; '.join(T._coq_str(p) for p in sorted({p for _, p in writers})) + '].',
             '(* Output.as_keyvalue / Output.parse: separators, field order (0 target, 1 input, 2 params, 3 delay, 4 times) *)',
             f'Definition gen_out_esc : N := {o["esc"]}.',
             f'Definition gen_out_write_comma : N := {o["w_comma"]}.',
             f'Definition gen_out_read_comma : N := {o["r_comma"]}.',
             'Definition gen_out_write_order : list N := [' + '; '.join(str(order.index(x)) if x in order else '99' for x in o['w_fields']) + '].',
             'Definition gen_out_read_order : list N := [' + '; '.join(str(order.index(x)) if x in order else '99' for x in o['r_fields']) + '].',
             '(* number of pieces unpacked exactly; smallest number of comma-separated pieces that is recombined into five *)',
             f'Definition gen_out_exact_fields : nat := {o["n_exact"]}.',
             f'Definition gen_out_recombine_from : nat := {o["recombine_from"]}.',
             '']
    return '\n'.join(lines), {'rowreader': {'prefix': prefix, 'skip': skip, 'min': lo, 'max': hi, 'form': form}, 'row_writers': writers,
                              'output': o, 'fixup': [fw, fr]}


GEN['VmfFieldsCfg_gen'] = gen_fields
