"""C12 translator: the facts about srctools.AtomicWriter and BSP.save that the model depends on -> Gen/AtomicWriter_gen.v.

* `AtomicWriter.__exit__` is *symbolically executed* (a tiny abstract interpreter over the statement forms it uses:
  if / try-except-finally / assignments of constants and aliases / calls that close the temp handle, unlink the temp
  name or replace it onto the destination / return / raise) for the six situations
  {body returned, body raised} x {no fault, OSError in close, OSError in replace}.  The observed operation sequences
  give the `cfg` record of SM/AtomicWriter.v (what happens on success / on exception, whether a failing close or
  replace still reaches the unlink).  Because the code is executed abstractly rather than pattern-matched, a
  behaviour-preserving restructuring (try/finally vs try/except+raise, local aliases, a success flag) yields the same
  record, while dropping the cleanup, flipping the `exc_type` test or reordering close/replace changes it.
* `AtomicWriter.make_tempfile`: every mode string given to `.open(...)` must be an exclusive-create mode, the open must
  sit in a `try` whose handler catches FileExistsError inside the retry loop, and the temp name must be built with
  `self.filename.with_name(...)` (same directory, so the rename is atomic and never crosses a file system).
* `bsp.py`: census of every call that can create/modify a file (open with a write mode, Path.write_*, os.replace/
  rename/remove/unlink, shutil.*) anywhere in the module, and of every `.write(...)` receiver inside `BSP.save`
  (must be the AtomicWriter handle, a DeferredWrites built on it, or a local BytesIO).

Fail-closed: anything outside these forms raises TranslateError.
"""
from __future__ import annotations

import ast

from harness.common import TranslateError, ast_digest, src_text

# ------------------------------------------------------------------------------------------- __exit__ -> xstmt
# Abstract values of SM/AtomicExit.v.  The translator only transliterates; the symbolic execution (which operation
# follows which result, what a `finally` does, whether an exception is swallowed) is done by `exit_tree` in the kernel.
SLOTS = {'self.temp': 0, 'self._temp_name': 1, 'self.filename': 2}
CLASS_ALL = {'BaseException'}
CLASS_EXC = {'Exception'}
CLASS_OSERROR = {'OSError', 'IOError', 'EnvironmentError'}
CLASS_NOENT = {'FileNotFoundError'}
# named subclasses of OSError other than FileNotFoundError: `KSub <index>` (SM/AtomicRetry.v specialises the program to
# runs in which the refused operations raise one of them: run class `RSub <index>`)
SUBCLASSES = ['PermissionError', 'FileExistsError', 'IsADirectoryError', 'NotADirectoryError', 'InterruptedError',
              'BlockingIOError', 'TimeoutError', 'ConnectionError']
KBD_INDEX = 1000        # `except KeyboardInterrupt`: KSub 1000 = kbd_index of SM/AtomicRetry.v (run class RKbd)
# classes that match no refused operation of any run class, nor FileNotFoundError, nor an AttributeError / explicit raise
CLASS_NEVER = {'KeyError', 'IndexError', 'ValueError', 'TypeError', 'StopIteration', 'UnicodeError', 'ZeroDivisionError',
               'LookupError', 'ArithmeticError'}
MAX_ROUNDS = 50         # `for _ in range(n)`: n is a literal; the kernel unrolls the loop


# classes an explicit `raise` may name: none of them is (a base class of) anything in the handler tables above
SAFE_RAISE = {'RuntimeError', 'AssertionError', 'NotImplementedError'}


def _key(node: ast.AST) -> str | None:
    if isinstance(node, ast.Name):
        return node.id
    if isinstance(node, ast.Attribute) and isinstance(node.value, ast.Name) and node.value.id == 'self':
        return 'self.' + node.attr
    return None


class _ExitTr:
    def __init__(self, fn: ast.FunctionDef, time_aliases: frozenset[str] = frozenset({'time'})) -> None:
        self.time_aliases = time_aliases
        self.loop_depth = 0
        # `X.closed` of a file handle: not a value of the model.  The entry prologue is translated twice, once for a
        # handle that is still open ('VFalse': the temp file of an attempt that was never exited) and once for a handle
        # that was closed behind the writer's back ('VTrue'); None (in __exit__): fail closed
        self.closed_value: str | None = None
        params = [a.arg for a in fn.args.args]
        if len(params) != 4 or fn.args.vararg or fn.args.kwarg or fn.args.kwonlyargs:
            raise TranslateError('AtomicWriter.__exit__: expected (self, exc_type, exc_value, tback)')
        self.where = 'AtomicWriter.__exit__'
        self.slots = dict(SLOTS)
        for k, name in enumerate(params[1:]):
            self.slots[name] = 3 + k
        self.next = 6
        # every other instance attribute the body mentions gets a slot of its own (in name order, so that the numbering
        # does not depend on the order of statements); what such an attribute holds when __exit__ starts is decided by
        # __init__ / __enter__ / earlier uses of the object (SM/AtomicReuse.v), not here
        for key in sorted(_self_attrs(fn)):
            if key not in self.slots:
                self.slots[key] = self.next
                self.next += 1
        self.attr_slots = {k: v for k, v in self.slots.items() if k.startswith('self.')}
        self.names = {v: k for k, v in self.slots.items()}

    def slot(self, key: str, create: bool, node: ast.AST) -> int:
        if key in getattr(self, 'loop_vars', ()):
            raise TranslateError(f'{self.where}: the loop variable `{key}` is used as a value (line {node.lineno})')
        if key not in self.slots:
            if not create:
                raise TranslateError(f'{self.where}: `{key}` is read but never assigned before (line {node.lineno})')
            self.slots[key] = self.next
            self.names[self.next] = key
            self.next += 1
        return self.slots[key]

    def fresh(self) -> int:
        n = self.next
        self.names[n] = f'<tmp{n}>'
        self.next += 1
        return n

    def expr(self, node: ast.AST) -> str:
        if isinstance(node, ast.Constant) and (node.value is None or isinstance(node.value, bool)):
            return '(EC %s)' % {None: 'VNone', True: 'VTrue', False: 'VFalse'}[node.value]
        k = _key(node)
        if k is not None:
            return f'(EV {self.slot(k, False, node)})'
        if isinstance(node, ast.Attribute) and node.attr == 'closed' and _key(node.value) is not None \
                and self.closed_value is not None:
            self.expr(node.value)
            return f'(EC {self.closed_value})'
        # the path of an open file: X.name, Path(X.name), PurePath(X.name), os.fspath(X.name)
        inner = node
        if isinstance(node, ast.Call) and len(node.args) == 1 and not node.keywords and (
                (isinstance(node.func, ast.Name) and node.func.id in ('Path', 'PurePath', 'str'))
                or (isinstance(node.func, ast.Attribute) and node.func.attr == 'fspath')):
            inner = node.args[0]
        if isinstance(inner, ast.Attribute) and inner.attr == 'name' and _key(inner.value) is not None:
            return f'(ENameOf {self.expr(inner.value)})'
        raise TranslateError(f'{self.where}: unsupported value `{ast.unparse(node)}` (line {node.lineno})')

    def test(self, node: ast.AST) -> str:
        if isinstance(node, ast.Compare) and len(node.ops) == 1 and isinstance(node.ops[0], (ast.Is, ast.IsNot)):
            c = 'TIs' if isinstance(node.ops[0], ast.Is) else 'TIsNot'
            return f'({c} {self.expr(node.left)} {self.expr(node.comparators[0])})'
        if isinstance(node, ast.UnaryOp) and isinstance(node.op, ast.Not):
            return f'(TNot {self.test(node.operand)})'
        if isinstance(node, ast.BoolOp):
            c = 'TAnd' if isinstance(node.op, ast.And) else 'TOr'
            out = self.test(node.values[-1])
            for v in reversed(node.values[:-1]):
                out = f'({c} {self.test(v)} {out})'
            return out
        if isinstance(node, (ast.Name, ast.Attribute, ast.Constant)):
            return f'(TTruth {self.expr(node)})'
        raise TranslateError(f'{self.where}: unsupported test `{ast.unparse(node)}` (line {node.lineno})')

    def call(self, call: ast.Call) -> str:
        f = call.func
        bad = TranslateError(f'{self.where}: unsupported call `{ast.unparse(call)}` (line {call.lineno})')
        if not isinstance(f, ast.Attribute):
            raise bad
        if any(k.arg is None for k in call.keywords):
            raise bad

        def bind(params: list[str], optional: int = 0) -> list[ast.expr | None]:
            """Positional and keyword arguments -> one value per parameter (the last `optional` ones may be missing)."""
            vals: dict[str, ast.expr] = dict(zip(params, call.args))
            if len(call.args) > len(params):
                raise bad
            for k in call.keywords:
                if k.arg not in params or k.arg in vals:
                    raise bad
                vals[k.arg] = k.value
            if any(p not in vals for p in params[:len(params) - optional]):
                raise bad
            return [vals.get(p) for p in params]

        if isinstance(f.value, ast.Name) and f.value.id in ('os', '_os'):
            if f.attr in ('replace', 'rename'):
                src, dst = bind(['src', 'dst'])
                return f'(SCall MReplace {self.expr(src)} [{self.expr(dst)}] false)'
            if f.attr in ('unlink', 'remove'):
                path, = bind(['path'])
                return f'(SCall MUnlink {self.expr(path)} [] false)'
            raise bad
        recv = self.expr(f.value)
        if f.attr == '__exit__':
            for a in bind(['exc_type', 'exc_value', 'traceback']) if call.keywords else call.args:
                self.expr(a)          # must be known values; a file object's __exit__ closes whatever they are
            if len(call.args) + len(call.keywords) != 3:
                raise bad
            return f'(SCall MClose {recv} [] false)'
        if f.attr == 'close':
            bind([])
            return f'(SCall MClose {recv} [] false)'
        if f.attr in ('truncate', 'seek', 'flush') and self.closed_value is not None:
            # an operation on the handle that changes no name in the directory (entry prologue only): AttributeError on
            # None, otherwise nothing the model sees.  Whether the handle is then given up is judged on the tree
            # (reentry_ok): a prologue that clears the old file and keeps it returns before any temp file is created
            if call.keywords or not all(isinstance(a, ast.Constant) for a in call.args):
                raise bad
            return f'(SIf (TIs {recv} (EC VNone)) (SRaise false) SSkip)'
        if f.attr == 'unlink':
            mo, = bind(['missing_ok'], optional=1)
            if mo is not None and not (isinstance(mo, ast.Constant) and isinstance(mo.value, bool)):
                raise bad
            return f'(SCall MUnlink {recv} [] {"true" if mo is not None and mo.value else "false"})'
        if f.attr in ('replace', 'rename'):
            target, = bind(['target'])
            return f'(SCall MReplace {recv} [{self.expr(target)}] false)'
        raise bad

    def classes(self, t: ast.expr | None) -> str:
        if t is None:
            return '[KAll]'
        out = []
        for e in (t.elts if isinstance(t, ast.Tuple) else [t]):
            if not isinstance(e, ast.Name):
                raise TranslateError(f'{self.where}: unsupported exception class `{ast.unparse(e)}`')
            if e.id in CLASS_ALL:
                out.append('KAll')
            elif e.id in CLASS_EXC:
                out.append('KExc')
            elif e.id in SUBCLASSES:
                out.append(f'KSub {SUBCLASSES.index(e.id)}')
            elif e.id == 'KeyboardInterrupt':
                out.append(f'KSub {KBD_INDEX}')
            elif e.id in CLASS_OSERROR:
                out.append('KOSError')
            elif e.id in CLASS_NOENT:
                out.append('KNoEnt')
            elif e.id in CLASS_NEVER:
                out.append('KNever')
            else:
                raise TranslateError(f'{self.where}: exception class `{e.id}` is not in the translator\'s table')
        return '[' + '; '.join(out) + ']'

    def seq(self, stmts: list[str]) -> str:
        if not stmts:
            return 'SSkip'
        out = stmts[-1]
        for s in reversed(stmts[:-1]):
            out = f'(SSeq {s} {out})'
        return out

    def block(self, stmts: list[ast.stmt]) -> str:
        return self.seq([self.stmt(s) for s in stmts])

    def assign(self, tgt: ast.AST, val: ast.AST, st: ast.stmt) -> str:
        if isinstance(tgt, ast.Tuple):
            if not isinstance(val, ast.Tuple) or len(val.elts) != len(tgt.elts):
                raise TranslateError(f'{self.where}: unsupported tuple assignment (line {st.lineno})')
            # right-hand sides are evaluated first, then the targets are assigned left to right
            vals = [self.expr(v) for v in val.elts]
            tmps = [self.fresh() for _ in vals]
            out = [f'(SAssign {t} {v})' for t, v in zip(tmps, vals)]
            for t, tmp in zip(tgt.elts, tmps):
                k = _key(t)
                if k is None:
                    raise TranslateError(f'{self.where}: unsupported assignment target (line {st.lineno})')
                out.append(f'(SAssign {self.slot(k, True, st)} (EV {tmp}))')
            return self.seq(out)
        k = _key(tgt)
        if k is None:
            raise TranslateError(f'{self.where}: unsupported assignment target (line {st.lineno})')
        v = self.expr(val)
        return f'(SAssign {self.slot(k, True, st)} {v})'

    def stmt(self, st: ast.stmt) -> str:
        if isinstance(st, (ast.Pass, ast.Assert)):
            return 'SSkip'
        if isinstance(st, ast.Expr):
            if isinstance(st.value, ast.Constant):
                return 'SSkip'
            if isinstance(st.value, ast.Call):
                c = st.value
                # time.sleep(<number>): no file-system effect (between two attempts of a retry loop)
                if isinstance(c.func, ast.Attribute) and c.func.attr == 'sleep' and isinstance(c.func.value, ast.Name) \
                        and c.func.value.id in self.time_aliases and len(c.args) == 1 and not c.keywords \
                        and isinstance(c.args[0], ast.Constant) and isinstance(c.args[0].value, (int, float)) \
                        and not isinstance(c.args[0].value, bool):
                    return 'SSkip'
                return self.call(c)
            raise TranslateError(f'{self.where}: unsupported expression statement (line {st.lineno})')
        if isinstance(st, ast.For):
            # for <name> in range(<literal n>): body [else: orelse] — the loop variable holds an int (outside the
            # abstract values): it gets no slot, so reading it anywhere fails closed ("read but never assigned")
            it = st.iter
            if not (isinstance(st.target, ast.Name) and isinstance(it, ast.Call) and isinstance(it.func, ast.Name)
                    and it.func.id == 'range' and len(it.args) == 1 and not it.keywords
                    and isinstance(it.args[0], ast.Constant) and isinstance(it.args[0].value, int)
                    and not isinstance(it.args[0].value, bool) and 0 <= it.args[0].value <= MAX_ROUNDS):
                raise TranslateError(f'{self.where}: unsupported loop `for {ast.unparse(st.target)} in '
                                     f'{ast.unparse(st.iter)}` (line {st.lineno}): only `for <name> in range(<literal>)`')
            if st.target.id in self.slots:
                raise TranslateError(f'{self.where}: the loop variable `{st.target.id}` is also used as a value')
            self.loop_vars = getattr(self, 'loop_vars', set()) | {st.target.id}
            self.loop_depth += 1
            body = self.block(st.body)
            self.loop_depth -= 1
            return f'(SFor {it.args[0].value} {body} {self.block(st.orelse)})'
        if isinstance(st, (ast.Break, ast.Continue)):
            if self.loop_depth == 0:
                raise TranslateError(f'{self.where}: break/continue outside a loop (line {st.lineno})')
            return 'SBreak' if isinstance(st, ast.Break) else 'SContinue'
        if isinstance(st, ast.Assign):
            if len(st.targets) != 1:
                raise TranslateError(f'{self.where}: chained assignment (line {st.lineno})')
            return self.assign(st.targets[0], st.value, st)
        if isinstance(st, ast.AnnAssign):
            if st.value is None:
                return 'SSkip'
            return self.assign(st.target, st.value, st)
        if isinstance(st, ast.If):
            t = self.test(st.test)
            # both branches are translated with the same slot table: a local first assigned in one branch is unbound
            # (reads give XBad in the kernel) when the other branch was taken
            return f'(SIf {t} {self.block(st.body)} {self.block(st.orelse)})'
        if isinstance(st, ast.Return):
            if st.value is None or (isinstance(st.value, ast.Constant) and st.value.value in (None, False)):
                return '(SReturn false)'
            if isinstance(st.value, ast.Constant) and st.value.value is True:
                return '(SReturn true)'
            raise TranslateError(f'{self.where}: unsupported return value `{ast.unparse(st.value)}` (line {st.lineno})')
        if isinstance(st, ast.Raise):
            if st.exc is None:
                return '(SRaise true)'
            # an explicit raise is modelled as "some exception that no OSError/FileNotFoundError handler catches":
            # only classes that cannot appear in a handler of the translator's tables are accepted
            e = st.exc.func if isinstance(st.exc, ast.Call) else st.exc
            if isinstance(e, ast.Name) and e.id in SAFE_RAISE and st.cause is None:
                return '(SRaise false)'
            raise TranslateError(f'{self.where}: unsupported raise `{ast.unparse(st)}` (line {st.lineno})')
        if isinstance(st, ast.Try):
            hs = 'HNil'
            for h in reversed(st.handlers):
                hs = f'(HCons {self.classes(h.type)} {self.block(h.body)} {hs})'
            return f'(STry {self.block(st.body)} {hs} {self.block(st.orelse)} {self.block(st.finalbody)})'
        if isinstance(st, ast.With) and len(st.items) == 1 and st.items[0].optional_vars is None:
            ce = st.items[0].context_expr       # with contextlib.suppress(A, B): body
            if isinstance(ce, ast.Call) and not ce.keywords and (
                    (isinstance(ce.func, ast.Name) and ce.func.id == 'suppress') or
                    (isinstance(ce.func, ast.Attribute) and ce.func.attr == 'suppress'
                     and isinstance(ce.func.value, ast.Name) and ce.func.value.id == 'contextlib')):
                ks = self.classes(ast.Tuple(elts=list(ce.args), ctx=ast.Load()))
                return f'(STry {self.block(st.body)} (HCons {ks} SSkip HNil) SSkip SSkip)'
        raise TranslateError(f'{self.where}: unsupported statement `{type(st).__name__}` (line {st.lineno})')


def _self_attrs(fn: ast.AST) -> set[str]:
    """`self.X` mentioned as a value or an assignment target (not `self.m(...)`, a method call)."""
    called = {id(n.func) for n in ast.walk(fn) if isinstance(n, ast.Call)}
    return {'self.' + n.attr for n in ast.walk(fn)
            if isinstance(n, ast.Attribute) and isinstance(n.value, ast.Name) and n.value.id == 'self'
            and id(n) not in called}


def _exit_prog(fn: ast.FunctionDef) -> tuple[str, dict]:
    tr = _ExitTr(fn)
    prog = tr.block(fn.body)
    return prog, {str(k): v for k, v in sorted(tr.names.items())}


def _entry_prologue(mk: ast.FunctionDef) -> list[ast.stmt]:
    """The statements of make_tempfile before it creates the folder / enters the temp-name loop."""
    out: list[ast.stmt] = []
    for st in mk.body:
        if isinstance(st, ast.Expr) and isinstance(st.value, ast.Constant):
            continue
        if isinstance(st, (ast.For, ast.While)) or any(
                isinstance(c, ast.Call) and isinstance(c.func, ast.Attribute) and c.func.attr in ('mkdir', 'makedirs')
                for c in ast.walk(st)):
            return out
        out.append(st)
    raise TranslateError('make_tempfile: neither a mkdir call nor the temp-name loop found')


def _exit_prog_attrs(fn: ast.FunctionDef, time_aliases: frozenset[str] = frozenset({'time'}),
                     prologue: list[ast.stmt] | None = None) -> tuple[str, dict, dict[str, int], str, str]:
    tr = _ExitTr(fn, time_aliases)
    # the attributes the entry prologue mentions get slots too (they are part of the object's state)
    pro_fn = ast.Module(body=prologue or [], type_ignores=[])
    for key in sorted(_self_attrs(pro_fn)):
        if key not in tr.slots:
            tr.slots[key] = tr.next
            tr.names[tr.next] = key
            tr.next += 1
    tr.attr_slots = {k: v for k, v in tr.slots.items() if k.startswith('self.')}
    prog = tr.block(fn.body)
    tr.where = 'AtomicWriter.make_tempfile (before the temp-name loop)'
    # the parameters and locals of __exit__ do not exist here
    tr.slots = dict(tr.attr_slots)
    next0 = tr.next
    tr.closed_value = 'VFalse'
    pro = tr.block(prologue or [])
    tr.slots, tr.next = dict(tr.attr_slots), next0
    tr.closed_value = 'VTrue'
    pro_closed = tr.block(prologue or [])
    return prog, {str(k): v for k, v in sorted(tr.names.items())}, dict(tr.attr_slots), pro, pro_closed


# ------------------------------------------------------------------------------------------- normalisation: helpers
SPECIAL = {'__init__', '__enter__', '__exit__', 'make_tempfile'}


def _simple_arg(e: ast.expr) -> bool:
    return isinstance(e, (ast.Name, ast.Constant)) or _key(e) is not None


class _Subst(ast.NodeTransformer):
    def __init__(self, params: dict[str, ast.expr], renames: dict[str, str]) -> None:
        self.params, self.renames = params, renames

    def visit_Name(self, node: ast.Name) -> ast.AST:
        if node.id in self.params:
            if not isinstance(node.ctx, ast.Load):
                raise TranslateError(f'helper method assigns its parameter `{node.id}`: not inlined')
            return ast.copy_location(_clone(self.params[node.id]), node)
        if node.id in self.renames:
            return ast.copy_location(ast.Name(id=self.renames[node.id], ctx=node.ctx), node)
        return node


def _clone(n: ast.AST) -> ast.AST:
    import copy
    return copy.deepcopy(n)


def _has_return(n: ast.AST) -> bool:
    return any(isinstance(x, ast.Return) for x in ast.walk(n))


def _tail(stmts: list[ast.stmt], sink, where: str) -> list[ast.stmt]:
    """Statements of a helper whose `return`s are all in tail position -> the same statements with every
    `return e` replaced by `sink(e)` (`if c: return A` + fall-through is treated as if/else)."""
    out: list[ast.stmt] = []
    for i, st in enumerate(stmts):
        rest = stmts[i + 1:]
        if isinstance(st, ast.Return):
            if rest:
                raise TranslateError(f'{where}: statements after a return')
            out += sink(st.value if st.value is not None else ast.Constant(value=None), st)
            return out
        if isinstance(st, ast.If) and _has_return(st):
            # both arms are completed with the statements that follow the `if` (they run when an arm falls through)
            body = _tail(st.body + ([] if _ends(st.body) else [_clone(r) for r in rest]), sink, where)
            orelse = _tail(st.orelse + ([] if _ends(st.orelse) else [_clone(r) for r in rest]), sink, where)
            out.append(ast.copy_location(ast.If(test=st.test, body=body or [ast.Pass()], orelse=orelse), st))
            return out
        if isinstance(st, ast.Try) and _has_return(st) and not rest and not any(_has_return(x) for x in st.finalbody) \
                and not (st.orelse and any(_has_return(x) for x in st.body)):
            # the try statement is the last one: a return at the end of its body / a handler / its else clause only
            # leaves the helper (the finally clause runs either way); a return in the body would skip the else clause
            nt = _clone(st)
            nt.body = _tail(st.body, sink, where) if any(_has_return(x) for x in st.body) else st.body
            for h, h0 in zip(nt.handlers, st.handlers):
                h.body = _tail(h0.body, sink, where) or [ast.Pass()]
            if st.orelse:
                nt.orelse = _tail(st.orelse, sink, where)
            elif not any(_has_return(x) for x in st.body):
                nt.orelse = sink(ast.Constant(value=None), st)
            out.append(nt)
            return out
        if _has_return(st):
            raise TranslateError(f'{where}: a return inside `{type(st).__name__}` is not in tail position: not inlined')
        out.append(st)
    out += sink(ast.Constant(value=None), stmts[-1] if stmts else None)       # falls off the end: returns None
    return out


def _ends(stmts: list[ast.stmt]) -> bool:
    """Does every path through the statements end in a return?"""
    if not stmts:
        return False
    last = stmts[-1]
    if isinstance(last, (ast.Return, ast.Raise)):
        return True
    if isinstance(last, ast.If):
        return _ends(last.body) and _ends(last.orelse)
    return False


def inline_helpers(fn: ast.FunctionDef, methods: dict[str, ast.FunctionDef], depth: int = 0,
                   modfuncs: dict[str, ast.FunctionDef] | None = None) -> ast.FunctionDef:
    """Replace `x = self.m(a, ..)`, `self.m(a, ..)` and `return self.m(a, ..)` (m an ordinary method of the same class,
    arguments plain names / attributes of self / constants) by the body of m, so that the analyses below see the same
    statements whether or not a piece of the function was extracted into a helper.  Anything that cannot be inlined
    faithfully is left alone (and then fails closed in the analysis that meets the call)."""
    counter = [0]

    def expand(call: ast.Call, sink, st: ast.stmt) -> list[ast.stmt] | None:
        f = call.func
        if isinstance(f, ast.Name) and modfuncs and f.id in modfuncs:
            # a plain function defined at module level (round 4): all its parameters are bound, `self` included
            m, hname, skip = modfuncs[f.id], f.id, 0
            if any(isinstance(x, ast.Name) and x.id == f.id and isinstance(x.ctx, ast.Store) for x in ast.walk(fn)):
                return None       # the name is rebound locally
        elif isinstance(f, ast.Attribute) and isinstance(f.value, ast.Name) and f.value.id == 'self':
            m, hname, skip = methods.get(f.attr), f.attr, 1
            if m is None or f.attr in SPECIAL or m is fn:
                return None
        else:
            return None
        if depth > 3:
            raise TranslateError(f'{fn.name}: helper methods nested too deeply at `{hname}`')
        a = m.args
        if a.vararg or a.kwarg or a.kwonlyargs or a.posonlyargs or m.decorator_list:
            return None
        if any(isinstance(x, (ast.Yield, ast.YieldFrom, ast.Global, ast.Nonlocal, ast.Lambda, ast.FunctionDef)) for b in m.body
               for x in ast.walk(b)):
            return None
        names = [x.arg for x in a.args][skip:]
        defaults = dict(zip(reversed(names), reversed(a.defaults)))
        bound: dict[str, ast.expr] = {}
        for n, v in zip(names, call.args):
            bound[n] = v
        if len(call.args) > len(names):
            return None
        for k in call.keywords:
            if k.arg is None or k.arg not in names or k.arg in bound:
                return None
            bound[k.arg] = k.value
        for n in names:
            if n not in bound:
                if n not in defaults:
                    return None
                bound[n] = defaults[n]
        if not all(_simple_arg(v) for v in bound.values()):
            return None
        inner = inline_helpers(m, methods, depth + 1, modfuncs)
        counter[0] += 1
        stores = {x.id for x in ast.walk(inner) if isinstance(x, ast.Name) and isinstance(x.ctx, ast.Store)}
        if stores & set(names):
            return None
        ren = {n: f'_inl{depth}_{counter[0]}_{n}' for n in stores}
        body = [s for s in inner.body if not (isinstance(s, ast.Expr) and isinstance(s.value, ast.Constant))]
        body = [_Subst(bound, ren).visit(_clone(s)) for s in body]
        res = _tail(body, sink, f'{fn.name}: helper {hname}')
        for r in res:
            for x in ast.walk(r):
                if not hasattr(x, 'lineno'):
                    ast.copy_location(x, st)
            ast.fix_missing_locations(r)
        return res

    def do_block(stmts: list[ast.stmt]) -> list[ast.stmt]:
        out: list[ast.stmt] = []
        for st in stmts:
            rep = None
            if isinstance(st, ast.Assign) and len(st.targets) == 1 and isinstance(st.value, ast.Call):
                tgt = st.targets[0]
                rep = expand(st.value, lambda e, at, tgt=tgt: [ast.Assign(targets=[_clone(tgt)], value=e, lineno=st.lineno)], st)
            elif isinstance(st, ast.AnnAssign) and isinstance(st.value, ast.Call):
                tgt = st.target
                rep = expand(st.value, lambda e, at, tgt=tgt: [ast.Assign(targets=[_clone(tgt)], value=e, lineno=st.lineno)], st)
            elif isinstance(st, ast.Expr) and isinstance(st.value, ast.Call):
                rep = expand(st.value, lambda e, at: [] if isinstance(e, ast.Constant) else [ast.Expr(value=e)], st)
            elif isinstance(st, ast.Return) and isinstance(st.value, ast.Call):
                rep = expand(st.value, lambda e, at: [ast.Return(value=e)], st)
            if rep is not None:
                out += rep or [ast.copy_location(ast.Pass(), st)]
                continue
            for field in ('body', 'orelse', 'finalbody'):
                sub = getattr(st, field, None)
                if isinstance(sub, list) and sub and isinstance(sub[0], ast.stmt):
                    setattr(st, field, do_block(sub))
            if isinstance(st, ast.Try):
                for h in st.handlers:
                    h.body = do_block(h.body)
            out.append(st)
        return out

    new = _clone(fn)
    new.body = do_block(new.body)
    ast.fix_missing_locations(new)
    return new


# ------------------------------------------------------------------------------------------- normalisation: locals
PURE_METHODS = {'with_name', 'joinpath', 'format'}
PURE_FUNCS = {'str', 'Path', 'PurePath'}


def inline_locals(fn: ast.FunctionDef) -> ast.FunctionDef:
    """Substitute locals that are assigned exactly once, at the top level of the function body or of a `for` body, from
    a side-effect-free expression over constants, the loop variable, attributes of self that the function never
    assigns, and other such locals (`folder = self.filename.parent`, `name = f'tmp_{i}'`, `mode = 'xb' if .. else 'xt'`),
    when every use follows the assignment inside the same statement list.  The analyses below then see the same
    expressions whether or not a sub-expression was given a name.  Anything else is left alone."""
    fn = _clone(fn)
    nstore: dict[str, int] = {}
    for n in ast.walk(fn):
        if isinstance(n, ast.Name) and isinstance(n.ctx, (ast.Store, ast.Del)):
            nstore[n.id] = nstore.get(n.id, 0) + 1
        elif isinstance(n, ast.ExceptHandler) and n.name:
            nstore[n.name] = nstore.get(n.name, 0) + 2
        elif isinstance(n, (ast.Global, ast.Nonlocal)):
            return fn
    params = {a.arg for a in fn.args.args + fn.args.kwonlyargs + fn.args.posonlyargs}
    attr_stores = {_key(n) for n in ast.walk(fn) if isinstance(n, ast.Attribute) and isinstance(n.ctx, (ast.Store, ast.Del))}
    loop_vars = {n.target.id for n in ast.walk(fn) if isinstance(n, ast.For) and isinstance(n.target, ast.Name)}

    def pure(e: ast.AST, names: set[str]) -> bool:
        if isinstance(e, ast.Constant):
            return True
        if isinstance(e, ast.Name):
            return e.id in names
        if isinstance(e, ast.Attribute):
            k = _key(e)
            if k is not None and k.startswith('self.'):
                return k not in attr_stores
            return pure(e.value, names)
        if isinstance(e, ast.JoinedStr):
            return all(pure(v, names) for v in e.values)
        if isinstance(e, ast.FormattedValue):
            return pure(e.value, names) and (e.format_spec is None or pure(e.format_spec, names))
        if isinstance(e, ast.BinOp) and isinstance(e.op, (ast.Div, ast.Add, ast.Mod)):
            return pure(e.left, names) and pure(e.right, names)
        if isinstance(e, ast.IfExp):
            return pure(e.test, names) and pure(e.body, names) and pure(e.orelse, names)
        if isinstance(e, ast.Call) and not e.keywords and all(pure(a, names) for a in e.args):
            f = e.func
            if isinstance(f, ast.Attribute) and f.attr in PURE_METHODS:
                return pure(f.value, names)
            return isinstance(f, ast.Name) and f.id in PURE_FUNCS
        return False

    def loads(nodes: list[ast.AST], x: str) -> int:
        return sum(isinstance(n, ast.Name) and n.id == x and isinstance(n.ctx, ast.Load) for b in nodes for n in ast.walk(b))

    total = {x: loads([fn], x) for x in nstore}
    changed = True
    while changed:
        changed = False
        bodies: list[tuple[list[ast.stmt], set[str]]] = [(fn.body, set())]
        bodies += [(n.body, {n.target.id}) for n in ast.walk(fn) if isinstance(n, ast.For) and isinstance(n.target, ast.Name)]
        for body, extra in bodies:
            for i, st in enumerate(body):
                if not (isinstance(st, ast.Assign) and len(st.targets) == 1 and isinstance(st.targets[0], ast.Name)):
                    continue
                x = st.targets[0].id
                if nstore.get(x) != 1 or x in params or x in loop_vars or not pure(st.value, extra):
                    continue
                rest = body[i + 1:]
                if loads(rest, x) != total.get(x, 0) or loads([st.value], x):
                    continue            # used before the assignment, or outside this statement list
                sub = _Subst({x: st.value}, {})
                body[i + 1:] = [sub.visit(r) for r in rest]
                del body[i]
                if not body:
                    body.append(ast.copy_location(ast.Pass(), st))
                nstore[x] = 0
                changed = True
                break
            if changed:
                break
    ast.fix_missing_locations(fn)
    return fn


def while_to_for(fn: ast.FunctionDef) -> ast.FunctionDef:
    """`i = <c>` ... `while True: i += 1; BODY`  ->  `for i in count(c + 1): BODY`, and
    `i = <c>` ... `while True: BODY; i += 1` (no `continue` in BODY)  ->  `for i in count(c): BODY`,
    when these are the only assignments to `i` in the function.  (With the increment at the top a `continue` goes on
    with the next number, as in the for loop; with the increment at the bottom it would repeat the same number.)"""
    fn = _clone(fn)

    def rewrite(body: list[ast.stmt]) -> None:
        for j, st in enumerate(body):
            for field in ('body', 'orelse', 'finalbody'):
                sub = getattr(st, field, None)
                if isinstance(sub, list) and sub and isinstance(sub[0], ast.stmt):
                    rewrite(sub)
            if not (isinstance(st, ast.While) and isinstance(st.test, ast.Constant) and st.test.value in (True, 1)
                    and not st.orelse and st.body):
                continue
            for pos in (0, -1):
                inc = st.body[pos]
                if not (isinstance(inc, ast.AugAssign) and isinstance(inc.op, ast.Add) and isinstance(inc.target, ast.Name)
                        and isinstance(inc.value, ast.Constant) and inc.value.value == 1 and type(inc.value.value) is int):
                    continue
                var = inc.target.id
                rest = st.body[1:] if pos == 0 else st.body[:-1]
                if not rest or (pos == -1 and any(isinstance(x, ast.Continue) for b in rest for x in ast.walk(b))):
                    continue
                stores = [x for x in ast.walk(fn) if isinstance(x, ast.Name) and x.id == var
                          and isinstance(x.ctx, (ast.Store, ast.Del))]
                inits = [(k, b) for k, b in enumerate(body[:j]) if isinstance(b, ast.Assign) and len(b.targets) == 1
                         and isinstance(b.targets[0], ast.Name) and b.targets[0].id == var
                         and isinstance(b.value, ast.Constant) and type(b.value.value) is int]
                if len(stores) != 2 or len(inits) != 1:
                    continue
                k, init = inits[0]
                if any(isinstance(x, ast.Name) and x.id == var for b in body[k + 1:j] for x in ast.walk(b)):
                    continue
                start = init.value.value + (1 if pos == 0 else 0)
                loop = ast.For(target=ast.Name(id=var, ctx=ast.Store()),
                               iter=ast.Call(func=ast.Name(id='count', ctx=ast.Load()), args=[ast.Constant(value=start)], keywords=[]),
                               body=rest, orelse=[], type_comment=None)
                body[j] = ast.copy_location(loop, st)
                body[k] = ast.copy_location(ast.Pass(), init)
                break

    rewrite(fn.body)
    ast.fix_missing_locations(fn)
    return fn


def tmp_template(e: ast.AST, var: str) -> bool:
    """Is `e` the name "tmp_<var>" (decimal)?  f'tmp_{i}', 'tmp_' + str(i), 'tmp_%d' % i, 'tmp_{}'.format(i)."""
    is_var = lambda n: isinstance(n, ast.Name) and n.id == var
    if isinstance(e, ast.JoinedStr):
        if not (len(e.values) == 2 and isinstance(e.values[0], ast.Constant) and e.values[0].value == 'tmp_'
                and isinstance(e.values[1], ast.FormattedValue) and is_var(e.values[1].value)):
            return False
        fv = e.values[1]       # {i}, {i!s}, {i!r}, {i:d}, {i:}: the decimal digits of an int
        spec = fv.format_spec
        spec_ok = spec is None or (isinstance(spec, ast.JoinedStr) and (
            not spec.values or (len(spec.values) == 1 and isinstance(spec.values[0], ast.Constant)
                                and spec.values[0].value in ('', 'd'))))
        return spec_ok and fv.conversion in (-1, ord('s'), ord('r')) and not (fv.conversion != -1 and spec is not None
                                                                               and spec.values and spec.values[0].value == 'd')
    if isinstance(e, ast.BinOp) and isinstance(e.op, ast.Add):
        return (isinstance(e.left, ast.Constant) and e.left.value == 'tmp_' and isinstance(e.right, ast.Call)
                and isinstance(e.right.func, ast.Name) and e.right.func.id in ('str', 'repr', 'format')
                and len(e.right.args) == 1 and not e.right.keywords and is_var(e.right.args[0]))
    if isinstance(e, ast.BinOp) and isinstance(e.op, ast.Mod):
        r = e.right.elts[0] if isinstance(e.right, ast.Tuple) and len(e.right.elts) == 1 else e.right
        return isinstance(e.left, ast.Constant) and e.left.value in ('tmp_%d', 'tmp_%s', 'tmp_%i') and is_var(r)
    if isinstance(e, ast.Call) and isinstance(e.func, ast.Attribute) and e.func.attr == 'format':
        return (isinstance(e.func.value, ast.Constant) and e.func.value.value in ('tmp_{}', 'tmp_{0}', 'tmp_{:d}', 'tmp_{0:d}')
                and len(e.args) == 1 and not e.keywords and is_var(e.args[0]))
    return False


def sibling_name(v: ast.AST) -> tuple[ast.AST, bool] | None:
    """`v` names a file next to the destination: self.filename.with_name(X) (X cannot contain a separator: with_name
    refuses it), self.filename.parent / X or self.filename.parent.joinpath(X) (X may be a path of its own: the caller
    must also know what X is).  Returns (X, X is certainly a bare name)."""
    def is_parent(e: ast.AST) -> bool:
        return isinstance(e, ast.Attribute) and e.attr == 'parent' and _key(e.value) == 'self.filename'
    if isinstance(v, ast.Call) and isinstance(v.func, ast.Attribute) and len(v.args) == 1 and not v.keywords:
        if v.func.attr == 'with_name' and _key(v.func.value) == 'self.filename':
            return v.args[0], True
        if v.func.attr == 'joinpath' and is_parent(v.func.value):
            return v.args[0], False
    if isinstance(v, ast.BinOp) and isinstance(v.op, ast.Div) and is_parent(v.left):
        return v.right, False
    # Path(self.filename.parent, X) / PurePath(..) / self.filename.parent.joinpath(X) are the same file
    if isinstance(v, ast.Call) and isinstance(v.func, ast.Name) and v.func.id in ('Path', 'PurePath') and len(v.args) == 2 \
            and not v.keywords and is_parent(v.args[0]):
        return v.args[1], False
    return None


def _handler_names(h: ast.ExceptHandler, where: str) -> set[str] | None:
    if h.type is None:
        return None
    ts = h.type.elts if isinstance(h.type, ast.Tuple) else [h.type]
    names = set()
    for t in ts:
        if isinstance(t, ast.Name):
            names.add(t.id)
        else:
            raise TranslateError(f'{where}: unsupported exception class `{ast.unparse(t)}`')
    return names


# ------------------------------------------------------------------------------------------- make_tempfile
def _tempfile_facts(fn: ast.FunctionDef) -> dict:
    modes: list[tuple[str, int, bool]] = []      # (mode, line, inside a try that catches FileExistsError in a loop)
    sibling = None

    local_vals: dict[str, list[ast.expr]] = {}
    for n in ast.walk(fn):
        if isinstance(n, ast.Assign):
            for t in n.targets:
                if isinstance(t, ast.Name):
                    local_vals.setdefault(t.id, []).append(n.value)
        elif isinstance(n, ast.AnnAssign) and isinstance(n.target, ast.Name) and n.value is not None:
            local_vals.setdefault(n.target.id, []).append(n.value)
        elif isinstance(n, (ast.AugAssign, ast.NamedExpr)) and isinstance(n.target, ast.Name):
            local_vals.setdefault(n.target.id, []).append(ast.Name(id='<computed>', ctx=ast.Load()))

    def mode_values(e: ast.expr, line: int, depth: int = 0) -> list[str]:
        if isinstance(e, ast.Constant) and isinstance(e.value, str):
            return [e.value]
        if isinstance(e, ast.IfExp) and depth < 5:
            return mode_values(e.body, line, depth + 1) + mode_values(e.orelse, line, depth + 1)
        if isinstance(e, ast.Name) and e.id in local_vals and depth < 5:
            return [m for v in local_vals[e.id] for m in mode_values(v, line, depth + 1)]
        raise TranslateError(f'make_tempfile: open call whose mode `{ast.unparse(e)}` is not a literal (line {line})')

    def walk(node, in_loop: bool, catches: bool):
        nonlocal sibling
        for ch in ast.iter_child_nodes(node):
            loop = in_loop or isinstance(ch, (ast.For, ast.While))
            c = catches
            if isinstance(ch, ast.Try):
                hn = set()
                for h in ch.handlers:
                    n = _handler_names(h, 'make_tempfile')
                    hn |= n if n is not None else {'*'}
                retry = bool(hn & {'FileExistsError'})
                for sub in ch.body:
                    walk_stmt(sub, loop, c or (retry and loop))
                for h in ch.handlers:
                    for sub in h.body:
                        walk_stmt(sub, loop, c)
                for sub in ch.orelse + ch.finalbody:
                    walk_stmt(sub, loop, c)
                continue
            visit(ch, loop, c)
            walk(ch, loop, c)

    def walk_stmt(st, in_loop, catches):
        visit(st, in_loop, catches)
        walk(st, in_loop, catches)

    def visit(ch, in_loop, catches):
        nonlocal sibling
        if isinstance(ch, ast.Call):
            f = ch.func
            is_open = (isinstance(f, ast.Attribute) and f.attr == 'open') or (isinstance(f, ast.Name) and f.id == 'open')
            if is_open:
                # the mode: Path.open(mode, ..) / open(file, mode, ..) / mode=..; a local name is resolved through
                # every assignment to it in the function (conditional expressions give several possible modes)
                pos = list(ch.args) if isinstance(f, ast.Attribute) and not (
                    isinstance(f.value, ast.Name) and f.value.id in ('io', 'builtins', 'os')) else list(ch.args[1:])
                marg = [k.value for k in ch.keywords if k.arg == 'mode'] or pos[:1]
                if len(marg) != 1:
                    raise TranslateError(f'make_tempfile: open call without a mode (line {ch.lineno})')
                for m in mode_values(marg[0], ch.lineno):
                    modes.append((m, ch.lineno, in_loop and catches))
        if isinstance(ch, ast.Assign) and len(ch.targets) == 1 and _key(ch.targets[0]) == 'self._temp_name':
            sn = sibling_name(ch.value)
            loopv = [n.target.id for n in ast.walk(fn) if isinstance(n, ast.For) and isinstance(n.target, ast.Name)]
            ok = sn is not None and (sn[1] or any(tmp_template(sn[0], lv) for lv in loopv))
            sibling = ok if sibling is None else (sibling and ok)

    walk(fn, False, False)
    if not modes:
        raise TranslateError('make_tempfile: no open call found')
    if sibling is None:
        raise TranslateError('make_tempfile: no assignment to self._temp_name found')
    excl = all('x' in m and 'w' not in m and 'a' not in m and '+' not in m and retry for m, _, retry in modes)
    return dict(excl=excl, sibling=bool(sibling), modes=[[m, ln, r] for m, ln, r in modes], loop=_loop_facts(fn))


def _loop_facts(fn: ast.FunctionDef) -> dict:
    """The shape of the temp-name loop: `for <i> in count(start)` (unbounded) / `range(..)` (bounded), the name
    template, what the FileExistsError handler does, where the loop is left, whether the destination itself is
    skipped.  Facts only; they are judged by named obligations."""
    def has_open(node: ast.AST) -> bool:
        return any(isinstance(c, ast.Call) and ((isinstance(c.func, ast.Attribute) and c.func.attr == 'open')
                                                or (isinstance(c.func, ast.Name) and c.func.id == 'open'))
                   for c in ast.walk(node))
    loops = [n for n in ast.walk(fn) if isinstance(n, (ast.For, ast.While)) and has_open(n)]
    if len(loops) != 1 or not isinstance(loops[0], ast.For) or not isinstance(loops[0].target, ast.Name):
        raise TranslateError('make_tempfile: expected exactly one `for <name> in ...` loop around the open call')
    loop = loops[0]
    if loop.orelse:
        raise TranslateError('make_tempfile: the temp-name loop has an else clause')
    var = loop.target.id
    it = loop.iter
    start, unbounded = 0, False
    fname = None
    if isinstance(it, ast.Call):
        f = it.func
        fname = f.attr if isinstance(f, ast.Attribute) else (f.id if isinstance(f, ast.Name) else None)
    if fname == 'count':
        args = list(it.args)
        kw = {k.arg: k.value for k in it.keywords}
        st = args[0] if args else kw.get('start')
        step = args[1] if len(args) > 1 else kw.get('step')
        if st is not None:
            if not (isinstance(st, ast.Constant) and isinstance(st.value, int) and st.value >= 0):
                raise TranslateError('make_tempfile: count() start is not a literal natural number')
            start = st.value
        unbounded = step is None or (isinstance(step, ast.Constant) and step.value == 1)
    elif fname == 'range':
        a = it.args
        if not all(isinstance(x, ast.Constant) and isinstance(x.value, int) for x in a) or not 1 <= len(a) <= 2:
            raise TranslateError('make_tempfile: range() bounds are not literals')
        start = a[0].value if len(a) == 2 else 0
        unbounded = False
    else:
        raise TranslateError(f'make_tempfile: unsupported loop iterator `{ast.unparse(it)}`')
    # name template: self._temp_name = self.filename.with_name(f'tmp_{<var>}')
    template_ok = False
    for n in ast.walk(loop):
        if isinstance(n, ast.Assign) and len(n.targets) == 1 and _key(n.targets[0]) == 'self._temp_name':
            sn = sibling_name(n.value)
            template_ok = sn is not None and tmp_template(sn[0], var)
    # the destination itself is skipped: if self._temp_name == self.filename: continue
    skip_dest = False
    for n in loop.body:
        if isinstance(n, ast.If) and isinstance(n.test, ast.Compare) and len(n.test.ops) == 1 \
                and isinstance(n.test.ops[0], ast.Eq) \
                and {_key(n.test.left), _key(n.test.comparators[0])} == {'self._temp_name', 'self.filename'} \
                and len(n.body) == 1 and isinstance(n.body[0], ast.Continue) and not n.orelse:
            skip_dest = True
    # the try around the open: a FileExistsError handler that only passes/continues; the loop is left by `break`
    # directly after the open (same try body or its else clause) and nowhere else
    handler_inert, break_after_open = False, False
    tries = [n for n in loop.body if isinstance(n, ast.Try) and has_open(n)]
    if len(tries) == 1:
        t = tries[0]
        hs = [h for h in t.handlers if (_handler_names(h, 'make_tempfile') or set()) & {'FileExistsError'}]
        handler_inert = len(hs) == 1 and len(t.handlers) == 1 and all(
            isinstance(b, (ast.Pass, ast.Continue)) or (isinstance(b, ast.Expr) and isinstance(b.value, ast.Constant))
            for b in hs[0].body) and not t.finalbody
        tail = t.body + t.orelse
        break_after_open = bool(tail) and isinstance(tail[-1], ast.Break) and not any(
            isinstance(x, (ast.Break, ast.Return)) for b in tail[:-1] for x in ast.walk(b))
    other_exits = sum(isinstance(x, (ast.Break, ast.Return)) for x in ast.walk(loop))
    return dict(start=start, unbounded=unbounded, template_ok=template_ok, skip_dest=skip_dest,
                handler_inert=handler_inert, break_after_open=break_after_open and other_exits == 1)


# ------------------------------------------------------------------------------------------- the object across uses
XVAL = {None: 'VNone', True: 'VTrue', False: 'VFalse'}


def _const_val(e: ast.expr) -> str | None:
    if isinstance(e, ast.Constant) and (e.value is None or isinstance(e.value, bool)):
        return XVAL[e.value]
    return None


def _object_facts(cls: ast.ClassDef, fns: dict[str, ast.FunctionDef], attr_slots: dict[str, int]) -> dict:
    """What the instance attributes mentioned by __exit__ hold when __init__ returns, what __enter__/make_tempfile
    assign on every successful entry, and which of them are assigned nowhere after __init__."""
    init: dict[str, str | None] = {}
    for st in cls.body:                    # class-level defaults
        if isinstance(st, ast.Assign) and len(st.targets) == 1 and isinstance(st.targets[0], ast.Name):
            init['self.' + st.targets[0].id] = _const_val(st.value)
        elif isinstance(st, ast.AnnAssign) and isinstance(st.target, ast.Name) and st.value is not None:
            init['self.' + st.target.id] = _const_val(st.value)
    fi = fns.get('__init__')
    if fi is None:
        raise TranslateError('AtomicWriter.__init__ not found')
    top: set[str] = set()
    for st in fi.body:
        tv = None
        if isinstance(st, ast.Assign) and len(st.targets) == 1:
            tv = (st.targets[0], st.value)
        elif isinstance(st, ast.AnnAssign) and st.value is not None:
            tv = (st.target, st.value)
        if tv is not None and (_key(tv[0]) or '').startswith('self.'):
            k = _key(tv[0])
            # the destination is whatever __init__ stores in self.filename (an abstract value of its own)
            init[k] = 'VDest' if k == 'self.filename' else _const_val(tv[1])
            top.add(k)
    for n in ast.walk(fi):                 # assigned somewhere deeper in __init__ (conditionally): value not known
        if isinstance(n, (ast.Assign, ast.AnnAssign, ast.AugAssign)):
            for t in (n.targets if isinstance(n, ast.Assign) else [n.target]):
                for x in ast.walk(t):
                    k = _key(x)
                    if k and k.startswith('self.') and k not in top:
                        init[k] = None
    # entry: the top-level statements of __enter__ in order, the call self.make_tempfile() expanded in place
    enter: dict[str, str] = {}
    ent, mk = fns['__enter__'], fns['make_tempfile']

    def stores(node: ast.AST) -> set[str]:
        return {k for n in ast.walk(node) if isinstance(n, ast.Attribute) and isinstance(n.ctx, (ast.Store, ast.Del))
                for k in [_key(n)] if k}

    # a `return` inside the entry prologue of make_tempfile does not end the scan: that the prologue falls through (or
    # raises) in EVERY attribute state is what the obligations entry_inert (no handle) and reentry_ok (a handle is
    # held) say about the generated prologue program; a prologue that returns early flips those, by name
    try:
        pro_ids = {id(st) for st in _entry_prologue(mk)}
    except TranslateError:
        pro_ids = set()

    def scan(body: list[ast.stmt], in_enter: bool) -> None:
        for st in body:
            if st is not body[-1] and id(st) not in pro_ids and any(isinstance(x, ast.Return) for x in ast.walk(st)):
                break      # an early return: what follows is not executed on every entry
            if in_enter and isinstance(st, ast.Expr) and isinstance(st.value, ast.Call) \
                    and _key(st.value.func) == 'self.make_tempfile' and not st.value.args and not st.value.keywords:
                scan(mk.body, False)
                continue
            if isinstance(st, ast.Assign) and len(st.targets) == 1 and (_key(st.targets[0]) or '').startswith('self.'):
                v = _const_val(st.value)
                k = _key(st.targets[0])
                if v is not None:
                    enter[k] = v
                else:
                    enter.pop(k, None)
                continue
            for k in stores(st):       # assigned somewhere inside a compound statement: value not known ...
                enter.pop(k, None)
            if isinstance(st, ast.For) and not in_enter:
                # ... except in the temp-name loop, which is left only by the `break` after the open (obligation
                # temp_loop_retries_only_on_file_exists): the name assigned before the attempt and the handle assigned
                # from the open call are bound on every entry
                for b in st.body:
                    if isinstance(b, ast.Assign) and len(b.targets) == 1 and _key(b.targets[0]) == 'self._temp_name' \
                            and sibling_name(b.value) is not None:
                        enter['self._temp_name'] = 'VTName'
                    if isinstance(b, ast.Try):
                        binds = [x for t in b.body for x in ast.walk(t)
                                 if isinstance(x, ast.Assign) and len(x.targets) == 1 and _key(x.targets[0]) == 'self.temp']
                        if binds and all(any(isinstance(c, ast.Call) and isinstance(c.func, (ast.Attribute, ast.Name))
                                             and (c.func.attr if isinstance(c.func, ast.Attribute) else c.func.id) == 'open'
                                             for c in ast.walk(x.value)) for x in binds):
                            enter['self.temp'] = 'VTemp'

    scan(ent.body, True)
    # constants: attributes that no method other than __init__ assigns (or deletes)
    assigned: set[str] = set()
    for name, f in fns.items():
        if name == '__init__':
            continue
        for n in ast.walk(f):
            if isinstance(n, ast.Attribute) and isinstance(n.ctx, (ast.Store, ast.Del)):
                k = _key(n)
                if k:
                    assigned.add(k)
            if isinstance(n, ast.Call) and isinstance(n.func, ast.Name) and n.func.id in ('setattr', 'delattr', 'vars'):
                raise TranslateError(f'AtomicWriter.{name}: {n.func.id}() on the writer object (line {n.lineno})')
            if isinstance(n, ast.Attribute) and n.attr == '__dict__':
                raise TranslateError(f'AtomicWriter.{name}: __dict__ of the writer object is used (line {n.lineno})')
    order = sorted(attr_slots, key=lambda k: attr_slots[k])
    return dict(attrs=[attr_slots[k] for k in order], names=order,
                init=[init.get(k) for k in order],
                enter=[[attr_slots[k], v] for k, v in sorted(enter.items(), key=lambda kv: attr_slots.get(kv[0], 99))
                       if k in attr_slots],
                const=[attr_slots[k] for k in order if k not in assigned])


def _enter_ok(fn: ast.FunctionDef) -> bool:
    """__enter__ creates the temp file (calls self.make_tempfile() at its top level, unconditionally) and hands out the
    temp handle (`return self.temp` / `return self.temp.__enter__()`, possibly through a local alias)."""
    body = [s for s in fn.body if not (isinstance(s, ast.Expr) and isinstance(s.value, ast.Constant))]
    made = False
    alias: set[str] = set()
    for st in body:
        if isinstance(st, ast.Expr) and isinstance(st.value, ast.Call) and _key(st.value.func) == 'self.make_tempfile':
            made = True
        elif isinstance(st, ast.Assign) and len(st.targets) == 1 and isinstance(st.targets[0], ast.Name) \
                and _key(st.value) == 'self.temp' and made:
            alias.add(st.targets[0].id)
        elif isinstance(st, ast.Return) and made and st.value is not None:
            v = st.value
            if isinstance(v, ast.Call) and isinstance(v.func, ast.Attribute) and v.func.attr == '__enter__' and not v.args:
                v = v.func.value
            return _key(v) == 'self.temp' or (isinstance(v, ast.Name) and v.id in alias)
        elif isinstance(st, (ast.Assert, ast.Pass, ast.AnnAssign)):
            continue
        elif isinstance(st, ast.Assign) and all(isinstance(t, ast.Name) for t in st.targets):
            continue
        elif isinstance(st, ast.Assign) and len(st.targets) == 1 and (_key(st.targets[0]) or '').startswith('self.') \
                and _const_val(st.value) is not None:
            continue       # a flag (re)set on entry: judged through o_enter (SM/AtomicReuse.v)
        else:
            return False
    return False


# ------------------------------------------------------------------------------------------- bsp.py census
WRITE_FUNCS_OS = {'replace', 'rename', 'remove', 'unlink', 'truncate', 'rmdir', 'mkdir', 'makedirs', 'link', 'symlink'}


def _bsp_census(tree: ast.Module) -> dict:
    fs_sites: list[list] = []       # module-wide direct file modifications
    for node in ast.walk(tree):
        if not isinstance(node, ast.Call):
            continue
        f = node.func
        name = f.attr if isinstance(f, ast.Attribute) else (f.id if isinstance(f, ast.Name) else None)
        if name == 'open':
            mode = None
            if len(node.args) >= 2:
                mode = node.args[1]
            elif isinstance(f, ast.Attribute) and len(node.args) >= 1 and not (isinstance(f.value, ast.Name) and f.value.id in ('io', 'builtins')):
                mode = node.args[0]
            for k in node.keywords:
                if k.arg == 'mode':
                    mode = k.value
            if mode is None:
                m = 'r'
            elif isinstance(mode, ast.Constant) and isinstance(mode.value, str):
                m = mode.value
            else:
                raise TranslateError(f'bsp.py:{node.lineno}: open() with a non-literal mode')
            if any(ch in m for ch in 'wxa+'):
                fs_sites.append(['open:' + m, node.lineno])
        elif name in ('write_bytes', 'write_text', 'touch'):
            fs_sites.append([name, node.lineno])
        elif isinstance(f, ast.Attribute) and isinstance(f.value, ast.Name) and f.value.id == 'os' and name in WRITE_FUNCS_OS:
            fs_sites.append(['os.' + name, node.lineno])
        elif isinstance(f, ast.Attribute) and isinstance(f.value, ast.Name) and f.value.id == 'shutil':
            fs_sites.append(['shutil.' + name, node.lineno])
    save = None
    for n in tree.body:
        if isinstance(n, ast.ClassDef) and n.name == 'BSP':
            for f in n.body:
                if isinstance(f, ast.FunctionDef) and f.name == 'save':
                    save = f
    if save is None:
        raise TranslateError('bsp.py: BSP.save not found')
    # every `with` inside save: what the context expression can evaluate to.  A plain name is resolved through all the
    # assignments to it inside save (so `writer = AtomicWriter(..) if .. else open(..)` or an if/else assigning the
    # name is seen as two constructors).  The generated list is judged by a kernel-checked obligation, not here.
    assigns: dict[str, list[ast.expr]] = {}
    for node in ast.walk(save):
        if isinstance(node, ast.Assign):
            for t in node.targets:
                if isinstance(t, ast.Name):
                    assigns.setdefault(t.id, []).append(node.value)
        elif isinstance(node, ast.AnnAssign) and isinstance(node.target, ast.Name) and node.value is not None:
            assigns.setdefault(node.target.id, []).append(node.value)

    def ctor_values(e: ast.expr, depth: int = 0) -> list[ast.expr]:
        if depth > 4:
            raise TranslateError('BSP.save: context expression of `with` is defined through too many aliases')
        if isinstance(e, ast.IfExp):
            return ctor_values(e.body, depth + 1) + ctor_values(e.orelse, depth + 1)
        if isinstance(e, ast.Name):
            if e.id not in assigns:
                raise TranslateError(f'BSP.save: `with {e.id}`: no assignment to that name inside save')
            return [v for a in assigns[e.id] for v in ctor_values(a, depth + 1)]
        return [e]

    def is_atomic_bytes(ce: ast.expr) -> bool:
        if not (isinstance(ce, ast.Call) and isinstance(ce.func, ast.Name) and ce.func.id == 'AtomicWriter'):
            return False
        return any(k.arg == 'is_bytes' and isinstance(k.value, ast.Constant) and k.value.value is True
                   for k in ce.keywords) or (len(ce.args) >= 2 and isinstance(ce.args[1], ast.Constant)
                                             and ce.args[1].value is True)

    # names used as output: receivers of .write()/.writelines() and arguments of DeferredWrites(...)
    out_names: set[str] = set()
    for node in ast.walk(save):
        if isinstance(node, ast.Call):
            if isinstance(node.func, ast.Attribute) and node.func.attr in ('write', 'writelines') \
                    and isinstance(node.func.value, ast.Name):
                out_names.add(node.func.value.id)
            if isinstance(node.func, ast.Name) and node.func.id == 'DeferredWrites':
                out_names |= {a.id for a in node.args if isinstance(a, ast.Name)}
    withs = []          # (bound name, line) of every `with ... as name` whose name is used as output
    ctors: list[list] = []     # [unparsed constructor, line, is AtomicWriter(..., is_bytes=True)]
    for node in ast.walk(save):
        if isinstance(node, (ast.With, ast.AsyncWith)):
            for item in node.items:
                if item.optional_vars is None:
                    continue        # cannot be written to; a direct open() for writing is in the module-wide census
                if not isinstance(item.optional_vars, ast.Name):
                    raise TranslateError('BSP.save: `with ... as <target>`: target is not a simple name')
                if item.optional_vars.id not in out_names:
                    continue
                for v in ctor_values(item.context_expr):
                    ctors.append([ast.unparse(v)[:60].replace('"', "'"), node.lineno, is_atomic_bytes(v)])
                withs.append((item.optional_vars.id, node.lineno))
    if len({w[0] for w in withs}) > 1:
        raise TranslateError(f'BSP.save: several different `with ... as name` output handles: {withs}')
    handle = withs[0][0] if withs else '<none>'
    handle_line = withs[0][1] if withs else 0
    locals_ok = {handle: 'handle'}
    for node in ast.walk(save):
        if isinstance(node, ast.Assign) and len(node.targets) == 1 and isinstance(node.targets[0], ast.Name) \
                and isinstance(node.value, ast.Call) and isinstance(node.value.func, ast.Name):
            fn = node.value.func.id
            if fn == 'BytesIO' and not node.value.args:
                locals_ok[node.targets[0].id] = 'bytesio'
            elif fn == 'DeferredWrites' and len(node.value.args) == 1 and isinstance(node.value.args[0], ast.Name) \
                    and node.value.args[0].id == handle:
                locals_ok[node.targets[0].id] = 'deferred'
    writes = []
    for node in ast.walk(save):
        if isinstance(node, ast.Call) and isinstance(node.func, ast.Attribute) and node.func.attr in ('write', 'writelines'):
            r = node.func.value
            kind = locals_ok.get(r.id) if isinstance(r, ast.Name) else None
            writes.append([ast.unparse(r), node.lineno, kind or 'unknown'])
    return dict(fs_sites=fs_sites, handle=handle, handle_line=handle_line, ctors=ctors,
                bytes_mode=bool(ctors) and all(c[2] for c in ctors), writes=writes,
                save_digest=ast_digest(save))


# ------------------------------------------------------------------------------------------- entry point
def translate() -> tuple[str, dict]:
    tree = ast.parse(src_text('__init__.py'))
    cls = next((n for n in tree.body if isinstance(n, ast.ClassDef) and n.name == 'AtomicWriter'), None)
    if cls is None:
        raise TranslateError('class AtomicWriter not found in srctools/__init__.py')
    fns = {f.name: f for f in cls.body if isinstance(f, ast.FunctionDef) and not any(
        isinstance(d, ast.Name) and d.id == 'overload' for d in f.decorator_list)}
    for need in ('make_tempfile', '__enter__', '__exit__'):
        if need not in fns:
            raise TranslateError(f'AtomicWriter.{need} not found')
    raw_digests = {n: ast_digest(f) for n, f in fns.items()}
    # normalisation: calls of ordinary methods of the class are replaced by their bodies
    modfuncs = {n.name: n for n in tree.body if isinstance(n, ast.FunctionDef)}
    for name in ('make_tempfile', '__enter__', '__exit__'):
        fns[name] = inline_helpers(fns[name], fns, 0, modfuncs)
    fns['make_tempfile'] = while_to_for(fns['make_tempfile'])
    # a call that could not be inlined hides code from the analyses of make_tempfile / __enter__ (an open with another
    # mode, an assignment to an attribute): fail closed.  (__exit__: every call is judged by _ExitTr.call.)
    mod_funcs = {n.name for n in tree.body if isinstance(n, (ast.FunctionDef, ast.AsyncFunctionDef))}
    for name in ('make_tempfile', '__enter__'):
        for c in ast.walk(fns[name]):
            if not isinstance(c, ast.Call):
                continue
            k = _key(c.func) or ''
            if k.startswith('self.') and k[5:] in fns and not (name == '__enter__' and k == 'self.make_tempfile'):
                raise TranslateError(f'AtomicWriter.{name}: the call of the method `{k}` could not be inlined '
                                     f'(line {c.lineno}): its body is hidden from the analysis')
            if isinstance(c.func, ast.Name) and c.func.id in mod_funcs:
                raise TranslateError(f'AtomicWriter.{name}: calls the module-level function `{c.func.id}` '
                                     f'(line {c.lineno}): its body is not analysed')
    # ... and single-assignment locals of make_tempfile by their defining expressions
    fns['make_tempfile'] = inline_locals(fns['make_tempfile'])
    # names the module `time` is imported under (time.sleep between two attempts of a retry loop is no operation)
    time_aliases = frozenset(a.asname or a.name for n in tree.body if isinstance(n, ast.Import) for a in n.names
                             if a.name == 'time')
    prog, slot_names, attr_slots, entry_prog, entry_prog_closed = _exit_prog_attrs(fns['__exit__'], time_aliases,
                                                                _entry_prologue(fns['make_tempfile']))
    tf = _tempfile_facts(fns['make_tempfile'])
    # __enter__ must create the temp file and hand out the temp handle
    if not _enter_ok(fns['__enter__']):
        raise TranslateError('AtomicWriter.__enter__ not recognised: '
                             + '; '.join(ast.unparse(s) for s in fns['__enter__'].body)[:200])
    obj = _object_facts(cls, fns, attr_slots)
    opt = lambda v: f'Some {v}' if v is not None else 'None'
    bsp = _bsp_census(ast.parse(src_text('bsp.py')))
    b = lambda x: 'true' if x else 'false'
    writes_ok = all(w[2] in ('handle', 'bytesio', 'deferred') for w in bsp['writes'])
    lines = [
        '(* GENERATED by translate/c12_atomic.py from src/srctools/__init__.py (AtomicWriter) and bsp.py. Do not edit. *)',
        'From Coq Require Import List String.', 'From SV Require Import SM.AtomicWriter SM.AtomicExit SM.AtomicReuse SM.AtomicRetry.', 'Import ListNotations.',
        'Open Scope string_scope.',
        '(* AtomicWriter.__exit__, statement by statement (slots: ' + ', '.join(f'{k}={v}' for k, v in slot_names.items()) + ') *)',
        f'Definition aw_exit_prog : xstmt :=\n  {prog}.',
        '(* make_tempfile: every open mode is exclusive-create and FileExistsError is retried in the loop *)',
        f'Definition aw_excl : bool := {b(tf["excl"])}.',
        '(* the writer object across several `with` blocks: attribute slots mentioned by __exit__ (' +
        ', '.join(f'{k}={v}' for k, v in zip(obj['attrs'], obj['names'])) + '), their values after __init__,',
        '   what __enter__/make_tempfile assign on every successful entry, attributes assigned nowhere after __init__ *)',
        'Definition aw_obj : wobj :=',
        f'  {{| o_excl := aw_excl; o_prog := aw_exit_prog; o_attrs := [{"; ".join(map(str, obj["attrs"]))}];',
        f'     o_init := [{"; ".join(opt(v) for v in obj["init"])}];',
        f'     o_enter := [{"; ".join(f"({k}, {v})" for k, v in obj["enter"])}];',
        f'     o_const := [{"; ".join(map(str, obj["const"]))}] |}}.',
        '(* what make_tempfile does before it creates the folder and enters the temp-name loop *)',
        f'Definition aw_entry_prog : xstmt :=\n  {entry_prog}.',
        '(* the same statements when `<handle>.closed` is true (the handle was closed behind the writer\'s back) *)',
        f'Definition aw_entry_prog_closed : xstmt :=\n  {entry_prog_closed}.',
        '(* the exit protocol of the first use of a fresh object *)',
        'Definition aw_proto : xproto := obj_proto aw_obj.',
        '(* named subclasses of OSError a handler may name (KSub i / run class RSub i): ' + ', '.join(
            f'{i}={n}' for i, n in enumerate(SUBCLASSES)) + ' *)',
        f'Definition aw_nclasses : nat := {len(SUBCLASSES)}.',
        '(* the temp-name loop: first index, unbounded iterator (itertools.count), name template tmp_<i>, the',
        '   FileExistsError handler only passes, the loop is left only by the break after a successful open, the',
        '   destination itself is never used as its own temp file *)',
        f'Definition aw_loop_start : nat := {tf["loop"]["start"]}.',
        f'Definition aw_loop_unbounded : bool := {b(tf["loop"]["unbounded"])}.',
        f'Definition aw_loop_template_ok : bool := {b(tf["loop"]["template_ok"])}.',
        f'Definition aw_loop_handler_inert : bool := {b(tf["loop"]["handler_inert"])}.',
        f'Definition aw_loop_break_after_open : bool := {b(tf["loop"]["break_after_open"])}.',
        f'Definition aw_loop_skips_destination : bool := {b(tf["loop"]["skip_dest"])}.',
        '(* the five flags of SM/AtomicWriter.v, read off the decision trees of the program (in the kernel) *)',
        'Definition aw_cfg : cfg := derive_cfg aw_proto.',
        '(* the temp name is a sibling of the destination (filename.with_name) *)',
        f'Definition aw_tmp_sibling : bool := {b(tf["sibling"])}.',
        '(* direct file modifications anywhere in bsp.py (open for writing, os.replace, ...) *)',
        'Definition bsp_fs_write_sites : list string := [' + '; '.join(f'"{k}@{ln}"' for k, ln in bsp['fs_sites']) + '].',
        '(* receivers of .write() inside BSP.save: (expression, is the AtomicWriter handle / DeferredWrites on it / local BytesIO) *)',
        'Definition bsp_save_writes : list (string * bool) := [',
        ';\n'.join(f'  ("{r}@{ln}", {b(k != "unknown")})' for r, ln, k in bsp['writes']),
        '].',
        '(* what the context expression of every `with` in BSP.save can be: (constructor, is AtomicWriter(.., is_bytes=True)) *)',
        'Definition bsp_save_with_ctors : list (string * bool) := [' + '; '.join(
            f'("{c}@{ln}", {b(ok)})' for c, ln, ok in bsp['ctors']) + '].',
        f'Definition bsp_save_handle_is_bytes : bool := {b(bsp["bytes_mode"])}.',
        '',
    ]
    side = dict(exit_prog=prog, entry_prog=entry_prog, entry_prog_closed=entry_prog_closed, exit_slots=slot_names, tempfile=tf, bsp={k: v for k, v in bsp.items()},
                digests=raw_digests, writes_ok=writes_ok, obj=obj, subclasses=list(SUBCLASSES))
    return '\n'.join(lines), side


GEN = {'AtomicWriter_gen': translate}
