"""C12 translator: the facts about srctools.AtomicWriter and BSP.save that the model depends on -> Gen/AtomicWriter_gen.v.

* `AtomicWriter.__exit__` is *symbolically executed* (a tiny abstract interpreter over the statement forms it uses:
  if / try-except-finally / assignments of constants and aliases / calls that close the temp handle, unlink the temp
  name or replace it onto the destination / return / raise) for the six situations
  {body returned, body raised} x {no fault, OSError in close, OSError in replace}.  The observed operation sequences
  give the `cfg` record of SM/AtomicWriter.v (what happens on success / on exception, whether a failing close or
  replace still reaches the unlink).  Because the code is executed abstractly rather than pattern-matched, a
  behaviour-preserving restructuring (try/finally vs try/except+raise, local aliases, a success flag) yields the same
  record, while dropping the cleanup, flipping the `exc_type` test or reordering close/replace changes it.
* `AtomicWriter.make_tempfile`: every mode string given to `.open(...)` must be an exclusive-create mode, the open must
  sit in a `try` whose handler catches FileExistsError inside the retry loop, and the temp name must be built with
  `self.filename.with_name(...)` (same directory, so the rename is atomic and never crosses a file system).
* `bsp.py`: census of every call that can create/modify a file (open with a write mode, Path.write_*, os.replace/
  rename/remove/unlink, shutil.*) anywhere in the module, and of every `.write(...)` receiver inside `BSP.save`
  (must be the AtomicWriter handle, a DeferredWrites built on it, or a local BytesIO).

Fail-closed: anything outside these forms raises TranslateError.
"""
from __future__ import annotations

import ast

from harness.common import TranslateError, ast_digest, src_text

CATCH_ALL = {'OSError', 'Exception', 'BaseException', 'IOError', 'EnvironmentError'}


# ------------------------------------------------------------------------------------------- symbolic __exit__
class _Env:
    def __init__(self, exc: bool, fault: str | None) -> None:
        self.exc = exc
        self.fault = fault
        self.fired = False
        self.ops: list[str] = []
        # abstract values: 'TEMP' (the open handle), 'TNAME' (temp path), 'DEST', 'EXC' (exc_type), True/False/None
        self.vars: dict[str, object] = {'self.temp': 'TEMP', 'self._temp_name': 'TNAME', 'self.filename': 'DEST',
                                        'exc_type': 'EXC' if exc else None, 'exc_value': 'EXC' if exc else None,
                                        'tback': 'EXC' if exc else None}
        self.raising = exc  # informational


def _key(node: ast.AST) -> str | None:
    if isinstance(node, ast.Name):
        return node.id
    if isinstance(node, ast.Attribute) and isinstance(node.value, ast.Name) and node.value.id == 'self':
        return 'self.' + node.attr
    return None


def _val(node: ast.AST, env: _Env, where: str):
    if isinstance(node, ast.Constant) and (node.value is None or isinstance(node.value, bool)):
        return node.value
    k = _key(node)
    if k is not None and k in env.vars:
        return env.vars[k]
    raise TranslateError(f'{where}: unsupported value `{ast.unparse(node)}` (line {node.lineno})')


def _test(node: ast.AST, env: _Env, where: str) -> bool:
    if isinstance(node, ast.Compare) and len(node.ops) == 1 and isinstance(node.ops[0], (ast.Is, ast.IsNot)):
        a = _val(node.left, env, where)
        b = _val(node.comparators[0], env, where)
        if b is not None and a is not None:
            raise TranslateError(f'{where}: identity test between two non-None values `{ast.unparse(node)}`')
        same = (a is None) == (b is None)
        return same if isinstance(node.ops[0], ast.Is) else not same
    if isinstance(node, ast.UnaryOp) and isinstance(node.op, ast.Not):
        return not _test(node.operand, env, where)
    if isinstance(node, ast.BoolOp):
        vals = [_test(v, env, where) for v in node.values]
        return all(vals) if isinstance(node.op, ast.And) else any(vals)
    v = _val(node, env, where)
    if isinstance(v, bool):
        return v
    if v is None:
        return False
    if v in ('TEMP', 'TNAME', 'DEST', 'EXC'):
        return True
    raise TranslateError(f'{where}: unsupported test `{ast.unparse(node)}`')


def _classify_call(call: ast.Call, env: _Env, where: str) -> str:
    f = call.func
    if isinstance(f, ast.Attribute):
        recv = f.value
        # os.replace(tmp, dest) / os.unlink(tmp) / os.remove(tmp)
        if isinstance(recv, ast.Name) and recv.id in ('os', '_os'):
            args = [_val(a, env, where) for a in call.args]
            if f.attr in ('replace', 'rename') and args == ['TNAME', 'DEST']:
                return 'REPLACE'
            if f.attr in ('unlink', 'remove') and args == ['TNAME']:
                return 'UNLINK'
            raise TranslateError(f'{where}: unsupported os call `{ast.unparse(call)}`')
        rv = _val(recv, env, where)
        if rv == 'TEMP' and f.attr in ('__exit__', 'close'):
            return 'CLOSE'
        if rv == 'TNAME' and f.attr == 'unlink':
            return 'UNLINK'
        if rv == 'TNAME' and f.attr in ('replace', 'rename') and len(call.args) == 1 \
                and _val(call.args[0], env, where) == 'DEST':
            return 'REPLACE'
    raise TranslateError(f'{where}: unsupported call `{ast.unparse(call)}` (line {call.lineno})')


def _exec(stmts: list[ast.stmt], env: _Env, where: str) -> str:
    """Returns 'normal' | 'return' | 'raise'."""
    for st in stmts:
        out = _exec1(st, env, where)
        if out != 'normal':
            return out
    return 'normal'


def _exec1(st: ast.stmt, env: _Env, where: str) -> str:
    if isinstance(st, ast.Pass) or isinstance(st, ast.Assert):
        return 'normal'
    if isinstance(st, ast.Expr):
        if isinstance(st.value, ast.Constant):
            return 'normal'
        if isinstance(st.value, ast.Call):
            op = _classify_call(st.value, env, where)
            env.ops.append(op)
            if env.fault == op and not env.fired:
                env.fired = True
                env.ops[-1] = op + '!'
                return 'raise'
            return 'normal'
        raise TranslateError(f'{where}: unsupported expression statement (line {st.lineno})')
    if isinstance(st, ast.Assign):
        if len(st.targets) != 1:
            raise TranslateError(f'{where}: chained assignment (line {st.lineno})')
        tgt, val = st.targets[0], st.value
        if isinstance(tgt, ast.Tuple):
            if not isinstance(val, ast.Tuple) or len(val.elts) != len(tgt.elts):
                raise TranslateError(f'{where}: unsupported tuple assignment (line {st.lineno})')
            vals = [_val(v, env, where) for v in val.elts]
            for t, v in zip(tgt.elts, vals):
                k = _key(t)
                if k is None:
                    raise TranslateError(f'{where}: unsupported assignment target (line {st.lineno})')
                env.vars[k] = v
            return 'normal'
        k = _key(tgt)
        if k is None:
            raise TranslateError(f'{where}: unsupported assignment target (line {st.lineno})')
        env.vars[k] = _val(val, env, where)
        return 'normal'
    if isinstance(st, ast.AnnAssign) and st.value is not None:
        k = _key(st.target)
        if k is None:
            raise TranslateError(f'{where}: unsupported assignment target (line {st.lineno})')
        env.vars[k] = _val(st.value, env, where)
        return 'normal'
    if isinstance(st, ast.If):
        return _exec(st.body if _test(st.test, env, where) else st.orelse, env, where)
    if isinstance(st, ast.Return):
        if st.value is not None and not (isinstance(st.value, ast.Constant) and st.value.value in (None, False)):
            raise TranslateError(f'{where}: __exit__ may swallow the exception (returns `{ast.unparse(st.value)}`)')
        return 'return'
    if isinstance(st, ast.Raise):
        return 'raise'
    if isinstance(st, ast.Try):
        out = _exec(st.body, env, where)
        if out == 'raise':
            for h in st.handlers:
                names = _handler_names(h, where)
                # the injected fault is an OSError that is not FileNotFoundError / FileExistsError
                if names is None or names & CATCH_ALL:
                    out = _exec(h.body, env, where)
                    break
        elif out == 'normal' and st.orelse:
            out = _exec(st.orelse, env, where)
        if st.finalbody:
            fin = _exec(st.finalbody, env, where)
            if fin != 'normal':
                out = fin
        return out
    raise TranslateError(f'{where}: unsupported statement `{type(st).__name__}` (line {st.lineno})')


def _handler_names(h: ast.ExceptHandler, where: str) -> set[str] | None:
    if h.type is None:
        return None
    ts = h.type.elts if isinstance(h.type, ast.Tuple) else [h.type]
    names = set()
    for t in ts:
        if isinstance(t, ast.Name):
            names.add(t.id)
        else:
            raise TranslateError(f'{where}: unsupported exception class `{ast.unparse(t)}`')
    return names


def _run_exit(fn: ast.FunctionDef, exc: bool, fault: str | None) -> tuple[list[str], str]:
    env = _Env(exc, fault)
    params = [a.arg for a in fn.args.args]
    if len(params) != 4:
        raise TranslateError('AtomicWriter.__exit__: expected (self, exc_type, exc_value, tback)')
    for src, dst in zip(('exc_type', 'exc_value', 'tback'), params[1:]):
        env.vars[dst] = env.vars[src]
    out = _exec(fn.body, env, 'AtomicWriter.__exit__')
    return env.ops, out


def _action(ops: list[str], where: str) -> tuple[str, bool]:
    """ops of a fault-free path -> (action, close_first)."""
    if ops == ['CLOSE', 'REPLACE']:
        return 'ACommit', True
    if ops == ['CLOSE', 'UNLINK']:
        return 'ADiscard', True
    if ops == ['CLOSE']:
        return 'ANothing', True
    if ops in (['REPLACE', 'CLOSE'], ['UNLINK', 'CLOSE']):
        return ('ACommit' if ops[0] == 'REPLACE' else 'ADiscard'), False
    raise TranslateError(f'{where}: operation sequence {ops} is outside the model')


def _exit_facts(fn: ast.FunctionDef) -> dict:
    ok_ops, ok_out = _run_exit(fn, False, None)
    ex_ops, _ = _run_exit(fn, True, None)
    on_ok, cf1 = _action(ok_ops, '__exit__ success path')
    on_exc, cf2 = _action(ex_ops, '__exit__ exception path')
    if ok_out == 'raise':
        raise TranslateError('__exit__ raises on the fault-free success path')
    cl_ok, _ = _run_exit(fn, False, 'CLOSE')
    cl_ex, _ = _run_exit(fn, True, 'CLOSE')
    for ops in (cl_ok, cl_ex):
        if ops not in (['CLOSE!'], ['CLOSE!', 'UNLINK']):
            raise TranslateError(f'__exit__ after a failing close performs {ops}: outside the model')
    close_guard = cl_ok == ['CLOSE!', 'UNLINK'] and cl_ex == ['CLOSE!', 'UNLINK']
    replace_guard = True
    rp_paths = {}
    for exc, base in ((False, ok_ops), (True, ex_ops)):
        if 'REPLACE' in base:
            ops, _ = _run_exit(fn, exc, 'REPLACE')
            rp_paths['exc' if exc else 'ok'] = ops
            i = ops.index('REPLACE!')
            rest = ops[i + 1:]
            if rest not in ([], ['UNLINK']):
                raise TranslateError(f'__exit__ after a failing replace performs {rest}: outside the model')
            replace_guard = replace_guard and rest == ['UNLINK']
    return dict(on_ok=on_ok, on_exc=on_exc, close_first=cf1 and cf2, close_guard=close_guard,
                replace_guard=replace_guard,
                paths={'ok': ok_ops, 'exc': ex_ops, 'close_fault_ok': cl_ok, 'close_fault_exc': cl_ex,
                       'replace_fault': rp_paths})


# ------------------------------------------------------------------------------------------- make_tempfile
def _tempfile_facts(fn: ast.FunctionDef) -> dict:
    modes: list[tuple[str, int, bool]] = []      # (mode, line, inside a try that catches FileExistsError in a loop)
    sibling = None

    def walk(node, in_loop: bool, catches: bool):
        nonlocal sibling
        for ch in ast.iter_child_nodes(node):
            loop = in_loop or isinstance(ch, (ast.For, ast.While))
            c = catches
            if isinstance(ch, ast.Try):
                hn = set()
                for h in ch.handlers:
                    n = _handler_names(h, 'make_tempfile')
                    hn |= n if n is not None else {'*'}
                retry = bool(hn & {'FileExistsError'})
                for sub in ch.body:
                    walk_stmt(sub, loop, c or (retry and loop))
                for h in ch.handlers:
                    for sub in h.body:
                        walk_stmt(sub, loop, c)
                for sub in ch.orelse + ch.finalbody:
                    walk_stmt(sub, loop, c)
                continue
            visit(ch, loop, c)
            walk(ch, loop, c)

    def walk_stmt(st, in_loop, catches):
        visit(st, in_loop, catches)
        walk(st, in_loop, catches)

    def visit(ch, in_loop, catches):
        nonlocal sibling
        if isinstance(ch, ast.Call):
            f = ch.func
            is_open = (isinstance(f, ast.Attribute) and f.attr == 'open') or (isinstance(f, ast.Name) and f.id == 'open')
            if is_open:
                margs = [a for a in ch.args if isinstance(a, ast.Constant) and isinstance(a.value, str)]
                margs += [k.value for k in ch.keywords if k.arg == 'mode' and isinstance(k.value, ast.Constant)]
                if len(margs) != 1:
                    raise TranslateError(f'make_tempfile: open call without a literal mode (line {ch.lineno})')
                modes.append((margs[0].value, ch.lineno, in_loop and catches))
        if isinstance(ch, ast.Assign) and len(ch.targets) == 1 and _key(ch.targets[0]) == 'self._temp_name':
            v = ch.value
            ok = (isinstance(v, ast.Call) and isinstance(v.func, ast.Attribute) and v.func.attr == 'with_name'
                  and _key(v.func.value) == 'self.filename')
            sibling = ok if sibling is None else (sibling and ok)

    walk(fn, False, False)
    if not modes:
        raise TranslateError('make_tempfile: no open call found')
    if sibling is None:
        raise TranslateError('make_tempfile: no assignment to self._temp_name found')
    excl = all('x' in m and 'w' not in m and 'a' not in m and '+' not in m and retry for m, _, retry in modes)
    return dict(excl=excl, sibling=bool(sibling), modes=[[m, ln, r] for m, ln, r in modes])


# ------------------------------------------------------------------------------------------- bsp.py census
WRITE_FUNCS_OS = {'replace', 'rename', 'remove', 'unlink', 'truncate', 'rmdir', 'mkdir', 'makedirs', 'link', 'symlink'}


def _bsp_census(tree: ast.Module) -> dict:
    fs_sites: list[list] = []       # module-wide direct file modifications
    for node in ast.walk(tree):
        if not isinstance(node, ast.Call):
            continue
        f = node.func
        name = f.attr if isinstance(f, ast.Attribute) else (f.id if isinstance(f, ast.Name) else None)
        if name == 'open':
            mode = None
            if len(node.args) >= 2:
                mode = node.args[1]
            elif isinstance(f, ast.Attribute) and len(node.args) >= 1 and not (isinstance(f.value, ast.Name) and f.value.id in ('io', 'builtins')):
                mode = node.args[0]
            for k in node.keywords:
                if k.arg == 'mode':
                    mode = k.value
            if mode is None:
                m = 'r'
            elif isinstance(mode, ast.Constant) and isinstance(mode.value, str):
                m = mode.value
            else:
                raise TranslateError(f'bsp.py:{node.lineno}: open() with a non-literal mode')
            if any(ch in m for ch in 'wxa+'):
                fs_sites.append(['open:' + m, node.lineno])
        elif name in ('write_bytes', 'write_text', 'touch'):
            fs_sites.append([name, node.lineno])
        elif isinstance(f, ast.Attribute) and isinstance(f.value, ast.Name) and f.value.id == 'os' and name in WRITE_FUNCS_OS:
            fs_sites.append(['os.' + name, node.lineno])
        elif isinstance(f, ast.Attribute) and isinstance(f.value, ast.Name) and f.value.id == 'shutil':
            fs_sites.append(['shutil.' + name, node.lineno])
    save = None
    for n in tree.body:
        if isinstance(n, ast.ClassDef) and n.name == 'BSP':
            for f in n.body:
                if isinstance(f, ast.FunctionDef) and f.name == 'save':
                    save = f
    if save is None:
        raise TranslateError('bsp.py: BSP.save not found')
    # every `with` inside save: what the context expression can evaluate to.  A plain name is resolved through all the
    # assignments to it inside save (so `writer = AtomicWriter(..) if .. else open(..)` or an if/else assigning the
    # name is seen as two constructors).  The generated list is judged by a kernel-checked obligation, not here.
    assigns: dict[str, list[ast.expr]] = {}
    for node in ast.walk(save):
        if isinstance(node, ast.Assign):
            for t in node.targets:
                if isinstance(t, ast.Name):
                    assigns.setdefault(t.id, []).append(node.value)
        elif isinstance(node, ast.AnnAssign) and isinstance(node.target, ast.Name) and node.value is not None:
            assigns.setdefault(node.target.id, []).append(node.value)

    def ctor_values(e: ast.expr, depth: int = 0) -> list[ast.expr]:
        if depth > 4:
            raise TranslateError('BSP.save: context expression of `with` is defined through too many aliases')
        if isinstance(e, ast.IfExp):
            return ctor_values(e.body, depth + 1) + ctor_values(e.orelse, depth + 1)
        if isinstance(e, ast.Name):
            if e.id not in assigns:
                raise TranslateError(f'BSP.save: `with {e.id}`: no assignment to that name inside save')
            return [v for a in assigns[e.id] for v in ctor_values(a, depth + 1)]
        return [e]

    def is_atomic_bytes(ce: ast.expr) -> bool:
        if not (isinstance(ce, ast.Call) and isinstance(ce.func, ast.Name) and ce.func.id == 'AtomicWriter'):
            return False
        return any(k.arg == 'is_bytes' and isinstance(k.value, ast.Constant) and k.value.value is True
                   for k in ce.keywords) or (len(ce.args) >= 2 and isinstance(ce.args[1], ast.Constant)
                                             and ce.args[1].value is True)

    # names used as output: receivers of .write()/.writelines() and arguments of DeferredWrites(...)
    out_names: set[str] = set()
    for node in ast.walk(save):
        if isinstance(node, ast.Call):
            if isinstance(node.func, ast.Attribute) and node.func.attr in ('write', 'writelines') \
                    and isinstance(node.func.value, ast.Name):
                out_names.add(node.func.value.id)
            if isinstance(node.func, ast.Name) and node.func.id == 'DeferredWrites':
                out_names |= {a.id for a in node.args if isinstance(a, ast.Name)}
    withs = []          # (bound name, line) of every `with ... as name` whose name is used as output
    ctors: list[list] = []     # [unparsed constructor, line, is AtomicWriter(..., is_bytes=True)]
    for node in ast.walk(save):
        if isinstance(node, (ast.With, ast.AsyncWith)):
            for item in node.items:
                if item.optional_vars is None:
                    continue        # cannot be written to; a direct open() for writing is in the module-wide census
                if not isinstance(item.optional_vars, ast.Name):
                    raise TranslateError('BSP.save: `with ... as <target>`: target is not a simple name')
                if item.optional_vars.id not in out_names:
                    continue
                for v in ctor_values(item.context_expr):
                    ctors.append([ast.unparse(v)[:60].replace('"', "'"), node.lineno, is_atomic_bytes(v)])
                withs.append((item.optional_vars.id, node.lineno))
    if len({w[0] for w in withs}) > 1:
        raise TranslateError(f'BSP.save: several different `with ... as name` output handles: {withs}')
    handle = withs[0][0] if withs else '<none>'
    handle_line = withs[0][1] if withs else 0
    locals_ok = {handle: 'handle'}
    for node in ast.walk(save):
        if isinstance(node, ast.Assign) and len(node.targets) == 1 and isinstance(node.targets[0], ast.Name) \
                and isinstance(node.value, ast.Call) and isinstance(node.value.func, ast.Name):
            fn = node.value.func.id
            if fn == 'BytesIO' and not node.value.args:
                locals_ok[node.targets[0].id] = 'bytesio'
            elif fn == 'DeferredWrites' and len(node.value.args) == 1 and isinstance(node.value.args[0], ast.Name) \
                    and node.value.args[0].id == handle:
                locals_ok[node.targets[0].id] = 'deferred'
    writes = []
    for node in ast.walk(save):
        if isinstance(node, ast.Call) and isinstance(node.func, ast.Attribute) and node.func.attr in ('write', 'writelines'):
            r = node.func.value
            kind = locals_ok.get(r.id) if isinstance(r, ast.Name) else None
            writes.append([ast.unparse(r), node.lineno, kind or 'unknown'])
    return dict(fs_sites=fs_sites, handle=handle, handle_line=handle_line, ctors=ctors,
                bytes_mode=bool(ctors) and all(c[2] for c in ctors), writes=writes,
                save_digest=ast_digest(save))


# ------------------------------------------------------------------------------------------- entry point
def translate() -> tuple[str, dict]:
    tree = ast.parse(src_text('__init__.py'))
    cls = next((n for n in tree.body if isinstance(n, ast.ClassDef) and n.name == 'AtomicWriter'), None)
    if cls is None:
        raise TranslateError('class AtomicWriter not found in srctools/__init__.py')
    fns = {f.name: f for f in cls.body if isinstance(f, ast.FunctionDef) and not any(
        isinstance(d, ast.Name) and d.id == 'overload' for d in f.decorator_list)}
    for need in ('make_tempfile', '__enter__', '__exit__'):
        if need not in fns:
            raise TranslateError(f'AtomicWriter.{need} not found')
    ex = _exit_facts(fns['__exit__'])
    tf = _tempfile_facts(fns['make_tempfile'])
    # __enter__ must create the temp file and hand out the temp handle
    ent_src = [ast.unparse(s) for s in fns['__enter__'].body if not (isinstance(s, ast.Expr) and isinstance(s.value, ast.Constant))]
    enter_ok = any('make_tempfile()' in s for s in ent_src) and any(s.startswith('return self.temp') for s in ent_src)
    if not enter_ok:
        raise TranslateError(f'AtomicWriter.__enter__ not recognised: {ent_src}')
    bsp = _bsp_census(ast.parse(src_text('bsp.py')))
    b = lambda x: 'true' if x else 'false'
    writes_ok = all(w[2] in ('handle', 'bytesio', 'deferred') for w in bsp['writes'])
    lines = [
        '(* GENERATED by translate/c12_atomic.py from src/srctools/__init__.py (AtomicWriter) and bsp.py. Do not edit. *)',
        'From Coq Require Import List String.', 'From SV Require Import SM.AtomicWriter.', 'Import ListNotations.',
        'Open Scope string_scope.',
        'Definition aw_cfg : cfg := {|',
        f'  c_excl := {b(tf["excl"])};',
        f'  c_close_guard := {b(ex["close_guard"])};',
        f'  c_replace_guard := {b(ex["replace_guard"])};',
        f'  c_on_ok := {ex["on_ok"]};',
        f'  c_on_exc := {ex["on_exc"]} |}}.',
        '(* the temp handle is closed before the temp name is replaced/unlinked *)',
        f'Definition aw_close_first : bool := {b(ex["close_first"])}.',
        '(* the temp name is a sibling of the destination (filename.with_name) *)',
        f'Definition aw_tmp_sibling : bool := {b(tf["sibling"])}.',
        '(* direct file modifications anywhere in bsp.py (open for writing, os.replace, ...) *)',
        'Definition bsp_fs_write_sites : list string := [' + '; '.join(f'"{k}@{ln}"' for k, ln in bsp['fs_sites']) + '].',
        '(* receivers of .write() inside BSP.save: (expression, is the AtomicWriter handle / DeferredWrites on it / local BytesIO) *)',
        'Definition bsp_save_writes : list (string * bool) := [',
        ';\n'.join(f'  ("{r}@{ln}", {b(k != "unknown")})' for r, ln, k in bsp['writes']),
        '].',
        '(* what the context expression of every `with` in BSP.save can be: (constructor, is AtomicWriter(.., is_bytes=True)) *)',
        'Definition bsp_save_with_ctors : list (string * bool) := [' + '; '.join(
            f'("{c}@{ln}", {b(ok)})' for c, ln, ok in bsp['ctors']) + '].',
        f'Definition bsp_save_handle_is_bytes : bool := {b(bsp["bytes_mode"])}.',
        '',
    ]
    side = dict(exit=ex, tempfile=tf, bsp={k: v for k, v in bsp.items()},
                digests={n: ast_digest(f) for n, f in fns.items()}, writes_ok=writes_ok)
    return '\n'.join(lines), side


GEN = {'AtomicWriter_gen': translate}
