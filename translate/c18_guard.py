"""C18 translator: the containment guard of RawFileSystem._resolve_path -> Gen/Containment_gen.v.

What is read from /repo/src/srctools/filesys.py (class RawFileSystem), all fail-closed:

* `__init__` stores `os.path.abspath(path)` as the root (`root_is_abspath`) and the parameter `constrain_path`, unchanged,
  as `self.constrain_path`; no method of the class assigns either afterwards;
* `_resolve_path` computes `abs_path = os.path.abspath(os.path.join(self.path, path))`, raises
  `RootEscapeError` under a boolean condition and returns `abs_path`.  The *raise condition* (conjunction of the
  enclosing `if` tests) is translated into the predicate language of rocq/SM/PathNorm.v (`gx` over string
  expressions `sx`): names `abs_path`, `self.path`, `os.sep`, string constants, `+`, `.rstrip(os.sep)`,
  `os.path.join(a, b)`, `os.path.commonpath([a, b])`, `os.path.commonprefix([a, b])` (character-wise), `a if x.endswith(os.sep) else b`, local string variables
  (substituted); `==`, `!=`, `.startswith`, `.endswith`, `not`, `and`, `or`, `self.constrain_path`, True/False.
  Anything else raises TranslateError.
* a census of every call inside RawFileSystem that touches the operating system (open, os.walk, os.stat,
  os.path.isfile, ...): is its path argument the result of `self._resolve_path(...)`?  Unknown `os.*` calls fail closed.
* packlist.unify_path: shape of its three statements, as side information only (its tie is the exhaustive
  correspondence in checks/c18.py; a changed digest escalates budgets, never raises an alarm).
"""
from __future__ import annotations

import ast

from harness.common import TranslateError, ast_digest, src_text

# calls that are pure string manipulation (no file-system access apart from getcwd in abspath)
PURE_OS = {'os.path.join', 'os.path.abspath', 'os.path.relpath', 'os.path.normpath', 'os.fspath', 'os.path.normcase',
           'os.path.basename', 'os.path.dirname', 'os.path.split', 'os.path.splitext', 'os.path.commonpath',
           'os.path.isabs', 'os.path.commonprefix'}
# calls that reach the file system through their first argument
ACCESS = {'open', 'os.walk', 'os.stat', 'os.lstat', 'os.path.isfile', 'os.path.isdir', 'os.path.exists',
          'os.path.getmtime', 'os.path.getsize', 'os.listdir', 'os.scandir', 'io.open', 'os.open', 'os.path.lexists'}


def _dotted(n: ast.AST) -> str | None:
    if isinstance(n, ast.Name):
        return n.id
    if isinstance(n, ast.Attribute):
        b = _dotted(n.value)
        return None if b is None else f'{b}.{n.attr}'
    return None


def _coq_ident(s: str) -> str:
    """Text safe inside a Coq string literal."""
    return ''.join(ch if ch.isalnum() or ch in ' @._(),:=-+[]<>/' else '?' for ch in s)


def _coq_str(s: str) -> str:
    return '[' + ';'.join(str(ord(c)) for c in s) + ']%N'


MODULE_PREFIXES = ('os.', 'posixpath.', 'ntpath.', 'genericpath.', 'unicodedata.', 'urllib.', 'pathlib.', 'str.', 'string.')

# markers for the path parameter and os.path.join(self.path, path); they may only occur inside the abspath() call that is
# the model's SAbs, anything else fails closed (the markers are not Coq terms)
PATH_PARAM = '<path-parameter>'
JOINED = '<join(self.path,path)>'
UNBOUND = '<bound-on-one-branch-only>'      # a local assigned in one branch of an `if` only: unusable afterwards


class _Tr:
    def __init__(self, where: str, helpers: dict | None = None, depth: int = 0) -> None:
        self.where = where
        self.env: dict[str, str] = {}      # local string variables -> sx text
        # functions whose body may be read in place of a call: methods of RawFileSystem / FileSystem called as
        # `self.name(...)`, module-level functions called as `name(...)` (helpers extracted from _resolve_path)
        self.helpers: dict[str, ast.FunctionDef] = helpers or {}
        self.depth = depth
        # module-level NAME = 'literal' / NAME = os.sep, bound once (hoisted constants); kept under the key '=consts'
        self.consts: dict[str, ast.AST] = (helpers or {}).get('=consts', {})    # type: ignore[assignment]
        # names that stand for the file-system object: `self`, and the parameter of a helper that was handed `self`
        # (`_resolve_raw_path(fsys, path)` called as `_resolve_raw_path(self, path)`)
        self.self_names: set[str] = {'self'}
        # decorated helpers whose body was read nevertheless: (name, decorator text); shared by all nested translators and
        # reported as wrappers of the containment method (obligation resolve_path_is_called_unwrapped)
        self.decorated: list = (helpers or {}).setdefault('=decorated', []) if helpers is not None else []

    def self_attr(self, n: ast.AST) -> str | None:
        """`X.attr` with X a name of the file-system object -> attr."""
        if isinstance(n, ast.Attribute) and isinstance(n.value, ast.Name) and n.value.id in self.self_names \
                and n.value.id not in self.env:
            return n.attr
        return None

    def assign(self, name: str, value: ast.AST) -> None:
        """A local: a string expression, or a named boolean (`inside = a == b or a.startswith(c)`), kept as 'B:' + gx."""
        try:
            self.env[name] = 'B:' + self.gx(value)      # booleans first: x.startswith(y) must not be taken for a string
        except TranslateError:
            self.env[name] = self.sx(value)

    def helper_call(self, n: ast.AST):
        """(function, translator with the parameters bound to the translated arguments) when `n` is a call of a helper
        whose body can be read in place of the call, else None."""
        if not isinstance(n, ast.Call) or n.keywords or any(isinstance(a, ast.Starred) for a in n.args):
            return None
        f = n.func
        if isinstance(f, ast.Attribute) and isinstance(f.value, ast.Name) and f.value.id == 'self':
            key = 'self.' + f.attr
        elif isinstance(f, ast.Name):
            key = f.id
        else:
            return None
        fn = self.helpers.get(key)
        if fn is None:
            return None
        if self.depth >= 3:
            self.fail(n, 'helpers nested too deeply (or recursive)')
        decs = [_dotted(d.func if isinstance(d, ast.Call) else d) for d in fn.decorator_list]
        for d, dn in zip(decs, fn.decorator_list):
            if d not in NEUTRAL_DECORATORS:
                # something may answer in place of the body (a cache, a wrapper): the body is still read, so that the guard
                # has a meaning, and the decoration is reported as a wrapper of the containment method (named obligation)
                rec = (key, f'decorator @{ast.unparse(dn)[:60]} on a helper the containment method runs')
                if rec not in self.decorated:
                    self.decorated.append(rec)
        a = fn.args
        if a.vararg or a.kwarg or a.kwonlyargs or a.posonlyargs or a.defaults:
            self.fail(n, f'helper {key} has a signature that is not read')
        params = [x.arg for x in a.args]
        if key.startswith('self.') and 'staticmethod' not in decs:
            if not params or params[0] != 'self':
                self.fail(n, f'helper {key} does not take self')
            params = params[1:]
        if len(params) != len(n.args):
            self.fail(n, f'helper {key} called with {len(n.args)} arguments for {len(params)} parameters')
        inner = _Tr(f'{self.where} -> {key}', self.helpers, self.depth + 1)
        inner.decorated = self.decorated
        if not key.startswith('self.'):
            inner.self_names = set()            # a module-level function knows the object only through its parameters
        for prm, arg in zip(params, n.args):
            if isinstance(arg, ast.Name) and arg.id in self.self_names and arg.id not in self.env:
                inner.self_names.add(prm)
            else:
                inner.env[prm] = self.sx(arg)
        return fn, inner

    def run_body(self, fn: ast.FunctionDef, leaf):
        """Path-condition execution of a helper body made of assignments of string expressions to locals, `if` / `else`
        over boolean expressions and `return e`: list of (conditions on the path, leaf(e) under the locals of the path)."""
        out: list[tuple[list[str], str]] = []

        def block(stmts, conds):
            for st in stmts:
                if isinstance(st, ast.Expr) and isinstance(st.value, ast.Constant) or isinstance(st, ast.Pass):
                    continue
                if isinstance(st, (ast.Assign, ast.AnnAssign)):
                    tg = st.targets if isinstance(st, ast.Assign) else [st.target]
                    if len(tg) != 1 or not isinstance(tg[0], ast.Name) or st.value is None or tg[0].id == 'self':
                        self.fail(st, 'assignment to something other than one local name')
                    self.assign(tg[0].id, st.value)
                elif isinstance(st, ast.If):
                    g = self.gx(st.test)
                    saved = dict(self.env)
                    mk = self.cond_builder(st.test)
                    t_out = block(st.body, conds + [g])
                    env_t, self.env = self.env, dict(saved)
                    f_out = block(st.orelse, conds + [f'(GNot {g})'])
                    if t_out is not None and f_out is not None:
                        self.env = self.merge_envs(st, mk, env_t, self.env)
                    elif t_out is not None:
                        conds, self.env = t_out, env_t
                    elif f_out is not None:
                        conds = f_out
                    else:
                        return None
                elif isinstance(st, ast.Return) and st.value is not None:
                    out.append((conds, leaf(st.value)))
                    return None
                else:
                    self.fail(st, 'unrecognised statement in a helper')
            return conds

        if block(fn.body, []) is not None:
            self.fail(fn, 'a path through the helper ends without return')
        return out

    def fail(self, node: ast.AST, what: str):
        raise TranslateError(f'filesys.py:{getattr(node, "lineno", "?")}: {self.where}: {what}: `{ast.unparse(node)}`')

    def is_sep(self, n: ast.AST) -> bool:
        if isinstance(n, ast.Name) and n.id not in self.env and n.id in self.consts:
            return self.is_sep(self.consts[n.id])
        return _dotted(n) in ('os.sep', 'os.path.sep') or (isinstance(n, ast.Constant) and n.value == '/')

    def cond_builder(self, t: ast.AST):
        """For the test `t` of an `if` / conditional expression over strings, evaluated under the CURRENT locals: a function
        (a, b) -> sx text of `a if t else b`; None when the test is not one of the string tests of the guard language
        (`x == y`, `x != y`, `x`, `not x`, `x.endswith(os.sep)`)."""
        neg = False
        while isinstance(t, ast.UnaryOp) and isinstance(t.op, ast.Not):
            t, neg = t.operand, not neg
        try:
            if isinstance(t, ast.Compare) and len(t.ops) == 1 and isinstance(t.ops[0], (ast.Eq, ast.NotEq)):
                c, d = self.sx(t.left), self.sx(t.comparators[0])
                if isinstance(t.ops[0], ast.NotEq):
                    neg = not neg
                head = f'SIfEq {c} {d}'
            elif (isinstance(t, ast.Call) and isinstance(t.func, ast.Attribute) and t.func.attr == 'endswith'
                    and len(t.args) == 1 and not t.keywords and self.is_sep(t.args[0])):
                head = f'SIfEndsSep {self.sx(t.func.value)}'
            else:
                head = f'SIfEmpty {self.sx(t)}'       # truthiness of a string: `x` is "not empty"
                neg = not neg
        except TranslateError:
            return None
        if PATH_PARAM in head or JOINED in head:
            return None
        return (lambda a, b: f'({head} {b} {a})') if neg else (lambda a, b: f'({head} {a} {b})')

    def merge_envs(self, st: ast.AST, mk, env_t: dict, env_f: dict) -> dict:
        """Locals after an `if` both of whose branches continue: where they differ the local is the conditional string."""
        if env_t == env_f:
            return env_t
        out = {}
        for k in set(env_t) | set(env_f):
            a, b = env_t.get(k), env_f.get(k)
            if a == b:
                out[k] = a
            elif a is None or b is None or UNBOUND in (a, b):
                out[k] = UNBOUND              # dead after the `if` (a later use fails closed)
            elif a.startswith('B:') or b.startswith('B:') or mk is None \
                    or a in (PATH_PARAM, JOINED) or b in (PATH_PARAM, JOINED):
                self.fail(st, 'locals assigned differently in two branches that both continue')
            else:
                out[k] = mk(a, b)
        return out

    def sx(self, n: ast.AST) -> str:
        d = _dotted(n)
        if self.self_attr(n) == 'path':
            return 'SRoot'
        if d in ('os.sep', 'os.path.sep'):
            return f'(SLit {_coq_str("/")})'
        if isinstance(n, ast.Name) and n.id in self.env:
            if self.env[n.id].startswith('B:'):
                self.fail(n, 'a boolean local used as a string')
            if self.env[n.id] == UNBOUND:
                self.fail(n, 'a local that is assigned on one branch only is used after the branches join')
            return self.env[n.id]
        if isinstance(n, ast.Name) and n.id in self.consts:
            return self.sx(self.consts[n.id])
        if isinstance(n, ast.Constant) and isinstance(n.value, str):
            return f'(SLit {_coq_str(n.value)})'
        if isinstance(n, ast.BinOp) and isinstance(n.op, ast.Add):
            return f'(SCat {self.sx(n.left)} {self.sx(n.right)})'
        if isinstance(n, ast.IfExp):
            mk = self.cond_builder(n.test)
            if mk is None:
                self.fail(n, 'conditional string whose test is not a string test of the guard language')
            return mk(self.sx(n.body), self.sx(n.orelse))
        hc = self.helper_call(n)
        if hc is not None:
            fn, inner = hc
            paths = inner.run_body(fn, inner.sx)
            if len(paths) != 1:
                self.fail(n, 'string-valued helper with more than one return path')
            return paths[0][1]
        if isinstance(n, ast.Call) and not n.keywords:
            f = n.func
            fd = _dotted(f)
            if isinstance(f, ast.Attribute) and f.attr == 'rstrip' and len(n.args) == 1 and self.is_sep(n.args[0]):
                return f'(SRStrip {self.sx(f.value)})'
            # the transformations of the name-normalising helpers (_norm_name): translated faithfully; a guard comparing
            # transformed strings is never accepted by raise_sound (seeded c18_8)
            if isinstance(f, ast.Attribute) and f.attr == 'replace' and len(n.args) == 2 \
                    and isinstance(n.args[0], ast.Constant) and n.args[0].value == '\\' and self.is_sep(n.args[1]):
                return f'(SUnbs {self.sx(f.value)})'
            if isinstance(f, ast.Attribute) and f.attr in ('casefold', 'lower') and not n.args:
                return f'(SFold {self.sx(f.value)})'
            if fd in ('os.path.normpath', 'posixpath.normpath') and len(n.args) == 1:
                return f'(SNorm {self.sx(n.args[0])})'
            if fd in ('os.path.normcase', 'posixpath.normcase', 'os.fspath', 'str') and len(n.args) == 1:
                return self.sx(n.args[0])          # the identity on POSIX strings
            if fd in ('os.path.join', 'posixpath.join') and len(n.args) == 2:
                a, b = self.sx(n.args[0]), self.sx(n.args[1])
                if a == 'SRoot' and b == PATH_PARAM:
                    return JOINED                   # os.path.join(self.path, path): only meaningful under abspath
                return f'(SJoin {a} {b})'
            if fd in ('os.path.abspath', 'posixpath.abspath') and len(n.args) == 1 and self.sx(n.args[0]) == JOINED:
                return 'SAbs'                       # the model's abs_path, whatever the local is called
            if fd in ('os.path.commonpath', 'posixpath.commonpath') and len(n.args) == 1 \
                    and isinstance(n.args[0], (ast.List, ast.Tuple)) and len(n.args[0].elts) == 2:
                a, b = n.args[0].elts
                return f'(SCommon {self.sx(a)} {self.sx(b)})'
            if fd in ('os.path.commonprefix', 'posixpath.commonprefix', 'genericpath.commonprefix') and len(n.args) == 1 \
                    and isinstance(n.args[0], (ast.List, ast.Tuple)) and len(n.args[0].elts) == 2:
                a, b = n.args[0].elts          # character-wise: translated faithfully, never accepted by raise_sound
                return f'(SCommonPrefix {self.sx(a)} {self.sx(b)})'
            # a transformation of ONE guard string the language has no meaning for (x.strip(), x.upper(),
            # unicodedata.normalize('NFKC', x), os.path.realpath(x), os.path.expanduser(x) ...; other arguments constants):
            # written down by name as SOpaque, which raise_sound never accepts (named obligation instead of a translator
            # failure); tests (startswith, is...) are not strings
            if isinstance(f, ast.Name) or (fd or '').startswith(MODULE_PREFIXES):
                name, cands = fd, [a for a in n.args if not isinstance(a, ast.Constant)]       # f(x, 'const' ...)
            elif isinstance(f, ast.Attribute):
                name, cands = f.attr, ([f.value] if all(isinstance(a, ast.Constant) for a in n.args) else [])   # x.m('const' ...)
            else:
                name, cands = None, []
            last = (name or '').split('.')[-1]
            if name and len(cands) == 1 and not last.startswith(('is', 'starts', 'ends', 'exists', '_')) \
                    and last not in ('open', 'stat', 'lstat', 'walk', 'listdir', 'scandir', 'getcwd', 'len', 'bool', 'int'):
                return f'(SOpaque {_coq_str(name)} {self.sx(cands[0])})'
        self.fail(n, 'unrecognised string expression')

    def gx(self, n: ast.AST) -> str:
        if isinstance(n, ast.Constant) and n.value is True:
            return 'GTrue'
        if isinstance(n, ast.Constant) and n.value is False:
            return 'GFalse'
        if self.self_attr(n) == 'constrain_path':
            return 'GConstrain'
        if isinstance(n, ast.Name) and self.env.get(n.id, '') == UNBOUND:
            self.fail(n, 'a local that is assigned on one branch only is used after the branches join')
        if isinstance(n, ast.Name) and self.env.get(n.id, '').startswith('B:'):
            return self.env[n.id][2:]
        if isinstance(n, ast.UnaryOp) and isinstance(n.op, ast.Not):
            return f'(GNot {self.gx(n.operand)})'
        if isinstance(n, ast.BoolOp):
            c = 'GAnd' if isinstance(n.op, ast.And) else 'GOr'
            out = self.gx(n.values[-1])
            for v in reversed(n.values[:-1]):
                out = f'({c} {self.gx(v)} {out})'
            return out
        if isinstance(n, ast.Compare) and len(n.ops) == 1:
            a, b = self.sx(n.left), self.sx(n.comparators[0])
            if isinstance(n.ops[0], ast.Eq):
                return f'(GEq {a} {b})'
            if isinstance(n.ops[0], ast.NotEq):
                return f'(GNot (GEq {a} {b}))'
            self.fail(n, 'comparison operator other than == / !=')
        hc = self.helper_call(n)
        if hc is not None:
            fn, inner = hc
            paths = inner.run_body(fn, inner.gx)      # true iff some path is taken and returns true
            terms = [_conj(conds + [leaf]) for conds, leaf in paths]
            out = terms[-1]
            for x in reversed(terms[:-1]):
                out = f'(GOr {x} {out})'
            return out
        if isinstance(n, ast.Call) and isinstance(n.func, ast.Attribute) and len(n.args) == 1 and not n.keywords:
            if n.func.attr == 'startswith':
                return f'(GStarts {self.sx(n.func.value)} {self.sx(n.args[0])})'
            if n.func.attr == 'endswith':
                return f'(GEnds {self.sx(n.func.value)} {self.sx(n.args[0])})'
        self.fail(n, 'unrecognised boolean expression')


# decorators that do not put anything between a caller and the function body (no cache, no wrapper that could answer
# in its place); everything else on a method of the file-system classes is reported
NEUTRAL_DECORATORS = {'classmethod', 'staticmethod', 'abstractmethod', 'abc.abstractmethod', 'overload', 'typing.overload',
                      'override', 'typing.override', 'typing_extensions.override', 'final', 'typing.final',
                      'typing_extensions.final', 'deprecated', 'typing_extensions.deprecated', 'warnings.deprecated'}
FS_CLASSES = ('File', 'FileSystem', 'RawFileSystem', 'FileSystemChain')


def wrapper_census(tree: ast.Module) -> list[tuple[str, str, str]]:
    """Everything that can stand between a call of a method of File / FileSystem / RawFileSystem / FileSystemChain and
    the body the translators read: (class, method, what).

    * a decorator that is not in NEUTRAL_DECORATORS (functools.lru_cache, functools.cache, a home-made memoiser, property ...);
    * a class-body statement that rebinds the name of a method (`_resolve_path = cache(_resolve_path)`), a second `def` of
      the same name, `__getattr__` / `__getattribute__` / `__class_getitem__`-style hooks are not needed: only
      `__getattribute__` and `__getattr__` can answer for an existing or missing method, both are reported;
    * a statement anywhere in the module that assigns to, deletes or `setattr`s an attribute of one of the classes;
    * a subclass of RawFileSystem defined in the module that redefines one of its methods."""
    out: list[tuple[str, str, str]] = []
    classes = {n.name: n for n in tree.body if isinstance(n, ast.ClassDef)}
    for cname in FS_CLASSES:
        cls = classes.get(cname)
        if cls is None:
            continue
        seen: set[str] = set()
        for st in cls.body:
            if isinstance(st, (ast.FunctionDef, ast.AsyncFunctionDef)):
                if st.name in seen:
                    out.append((cname, st.name, 'defined twice in the class body'))
                seen.add(st.name)
                if st.name in ('__getattribute__', '__getattr__'):
                    out.append((cname, st.name, 'attribute hook'))
                for dec in st.decorator_list:
                    d = _dotted(dec.func if isinstance(dec, ast.Call) else dec)
                    if d not in NEUTRAL_DECORATORS:
                        out.append((cname, st.name, f'decorator @{ast.unparse(dec)[:60]}'))
        methods = {m for c in FS_CLASSES if c in classes for f in classes[c].body
                   if isinstance(f, (ast.FunctionDef, ast.AsyncFunctionDef)) for m in [f.name]}
        for st in cls.body:
            if isinstance(st, (ast.Assign, ast.AugAssign)) or (isinstance(st, ast.AnnAssign) and st.value is not None):
                for t in (st.targets if isinstance(st, ast.Assign) else [st.target]):
                    for nm in ast.walk(t):
                        if isinstance(nm, ast.Name) and nm.id in methods:
                            out.append((cname, nm.id, f'rebound in the class body: {ast.unparse(st)[:60]}'))
    for node in ast.walk(tree):
        targets: list[ast.AST] = []
        if isinstance(node, ast.Assign):
            targets = list(node.targets)
        elif isinstance(node, (ast.AugAssign, ast.AnnAssign)):
            targets = [node.target]
        elif isinstance(node, ast.Delete):
            targets = list(node.targets)
        for t in targets:
            for sub in ast.walk(t):
                if isinstance(sub, ast.Attribute) and isinstance(sub.value, ast.Name) and sub.value.id in FS_CLASSES:
                    out.append((sub.value.id, sub.attr, f'attribute of the class assigned: {ast.unparse(node)[:60]}'))
        if isinstance(node, ast.Call) and _dotted(node.func) in ('setattr', 'delattr') and node.args \
                and isinstance(node.args[0], ast.Name) and node.args[0].id in FS_CLASSES:
            out.append((node.args[0].id, ast.unparse(node.args[1])[:30] if len(node.args) > 1 else '?',
                        f'{_dotted(node.func)} on the class'))
    raw_methods = {f.name for f in classes['RawFileSystem'].body if isinstance(f, (ast.FunctionDef, ast.AsyncFunctionDef))} \
        if 'RawFileSystem' in classes else set()
    for cname, cls in classes.items():
        if any(_dotted(b.value if isinstance(b, ast.Subscript) else b) == 'RawFileSystem' for b in cls.bases):
            for f in cls.body:
                if isinstance(f, (ast.FunctionDef, ast.AsyncFunctionDef)) and f.name in raw_methods and f.name != '__init__':
                    out.append((cname, f.name, 'subclass of RawFileSystem redefines the method'))
    return out


IMMUTABLE_MAKERS = {'TypeVar', 'typing.TypeVar', 'typing_extensions.TypeVar', 'NewType', 'typing.NewType', 'frozenset', 'tuple',
                    're.compile', 'struct.Struct', 'object', 'int', 'str', 'float', 'bool', 'bytes', 'ParamSpec',
                    'typing.ParamSpec', 'typing_extensions.ParamSpec', 'Literal',
                    # loggers carry no answers from one file system to another
                    'logging.getLogger', 'get_logger', 'logger.get_logger', 'srctools.logger.get_logger'}


def _immutable_value(v: ast.AST | None) -> bool:
    """Can the object this expression makes never change (so sharing it between file systems carries no state)?"""
    if v is None:
        return True
    if isinstance(v, ast.Constant):
        return True
    if isinstance(v, ast.Tuple):
        return all(_immutable_value(e) for e in v.elts)
    if isinstance(v, ast.UnaryOp):
        return _immutable_value(v.operand)
    if isinstance(v, ast.BinOp):
        return _immutable_value(v.left) and _immutable_value(v.right)
    if isinstance(v, ast.JoinedStr):
        return True
    if isinstance(v, ast.Call):
        return _dotted(v.func) in IMMUTABLE_MAKERS
    d = _dotted(v)
    if d is not None:                      # alias of a constant of the standard library (os.sep, os.curdir ...)
        return d.startswith(('os.', 'posixpath.', 'string.', 'sys.maxsize'))
    if isinstance(v, ast.Subscript):       # typing aliases: Union[str, File], Optional[...]
        return _dotted(v.value) in ('Union', 'Optional', 'typing.Union', 'typing.Optional', 'Literal', 'type', 'Callable')
    return False


def _local_names(fn: ast.AST) -> set[str]:
    """Names bound inside a function (parameters, assignment / loop / with / except / comprehension / import targets),
    without those it declares global or nonlocal."""
    out: set[str] = set()
    declared: set[str] = set()
    a = fn.args
    for p in a.posonlyargs + a.args + a.kwonlyargs + ([a.vararg] if a.vararg else []) + ([a.kwarg] if a.kwarg else []):
        out.add(p.arg)
    for n in ast.walk(fn):
        if isinstance(n, ast.Name) and isinstance(n.ctx, (ast.Store, ast.Del)):
            out.add(n.id)
        elif isinstance(n, (ast.Global, ast.Nonlocal)):
            declared.update(n.names)
        elif isinstance(n, ast.ExceptHandler) and n.name:
            out.add(n.name)
        elif isinstance(n, ast.alias):
            out.add((n.asname or n.name).split('.')[0])
        elif isinstance(n, (ast.FunctionDef, ast.AsyncFunctionDef, ast.ClassDef)) and n is not fn:
            out.add(n.name)
    return out - declared


def shared_state_census(tree: ast.Module) -> list[tuple[str, str, str]]:
    """State that outlives one call and is visible to more than one file-system object: (where, name, what).

    The theorems speak about one call of a method on one object whose answers depend on the object's root, its flag and
    the arguments.  A table at module or class level (a hand-written memo of resolved paths, of existence answers, of
    File handles) is shared between a constrained and an unconstrained system on the same folder exactly like the
    lru_cache of seeded c18_4 (SM/PathMemo.v: key without the flag, refuted).  Reported, for the methods of File /
    FileSystem / RawFileSystem / FileSystemChain and the module-level functions they call (transitively):
    * a read or write of a module-level name bound to something that is not an immutable constant (dict / list / set
      displays, comprehensions, calls other than TypeVar-like makers), or bound more than once;
    * `global` / `nonlocal` declarations;
    * a class-body assignment of such a value in one of the classes (`_seen: dict = {}`);
    * a mutable default value of a parameter (`def _resolve_path(self, path, _memo={})`);
    * state kept on function objects (`f.cache = ...`, `self.m.__func__...`) through an attribute store on a method name."""
    out: list[tuple[str, str, str]] = []
    classes = {n.name: n for n in tree.body if isinstance(n, ast.ClassDef)}
    funcs = {n.name: n for n in tree.body if isinstance(n, (ast.FunctionDef, ast.AsyncFunctionDef))}
    # module-level bindings by assignment
    bound: dict[str, list[ast.AST | None]] = {}
    for st in tree.body:
        stmts = [st]
        if isinstance(st, (ast.If, ast.Try, ast.With, ast.For, ast.While)):
            stmts = [x for x in ast.walk(st) if isinstance(x, ast.stmt)]
        for s in stmts:
            if isinstance(s, (ast.FunctionDef, ast.AsyncFunctionDef, ast.ClassDef)):
                continue
            tg: list[ast.AST] = []
            val: ast.AST | None = None
            if isinstance(s, ast.Assign):
                tg, val = list(s.targets), s.value
            elif isinstance(s, ast.AnnAssign) and s.value is not None:
                tg, val = [s.target], s.value
            elif isinstance(s, ast.AugAssign):
                tg, val = [s.target], ast.List(elts=[], ctx=ast.Load())     # rebinding: counts as mutable
            elif isinstance(s, (ast.For, ast.With)):
                val = ast.List(elts=[], ctx=ast.Load())
                tg = [s.target] if isinstance(s, ast.For) else [i.optional_vars for i in s.items if i.optional_vars is not None]
            for t in tg:
                for nm in ast.walk(t):
                    if isinstance(nm, ast.Name):
                        bound.setdefault(nm.id, []).append(val if isinstance(t, ast.Name) else ast.List(elts=[], ctx=ast.Load()))
    mutable_globals = {k for k, vs in bound.items() if len(vs) > 1 or not all(_immutable_value(v) for v in vs)}
    # the functions to scan: methods of the classes + module-level functions reachable from them by name
    todo: list[tuple[str, ast.AST]] = []
    for cname in FS_CLASSES:
        cls = classes.get(cname)
        if cls is None:
            continue
        for st in cls.body:
            if isinstance(st, (ast.FunctionDef, ast.AsyncFunctionDef)):
                todo.append((f'{cname}.{st.name}', st))
            elif isinstance(st, (ast.Assign, ast.AugAssign)) or (isinstance(st, ast.AnnAssign) and st.value is not None):
                v = st.value
                if not _immutable_value(v) or isinstance(st, ast.AugAssign):
                    for t in (st.targets if isinstance(st, ast.Assign) else [st.target]):
                        if isinstance(t, ast.Name) and t.id in ('__slots__', '__match_args__', '__annotations__'):
                            continue              # layout declarations, read by the interpreter only
                        out.append((cname, ast.unparse(t)[:30], f'class-level mutable value: {ast.unparse(st)[:60]}'))
    seen_funcs: set[str] = set()
    i = 0
    while i < len(todo):
        where, fn = todo[i]
        i += 1
        local = _local_names(fn)
        for n in ast.walk(fn):
            if isinstance(n, (ast.Global, ast.Nonlocal)):
                out.append((where, ','.join(n.names), 'global / nonlocal declaration'))
            elif isinstance(n, ast.Name) and n.id not in local:
                if n.id in mutable_globals:
                    out.append((where, n.id, 'module-level mutable object used'))
                elif n.id in funcs and n.id not in seen_funcs:
                    seen_funcs.add(n.id)
                    todo.append((n.id, funcs[n.id]))
                    for dec in funcs[n.id].decorator_list:
                        # a cache / wrapper on a module-level function the methods run is a table shared by every
                        # file-system object (seeded c18_7: lru_cache keyed by the object, whose __eq__ ignores the flag)
                        if _dotted(dec.func if isinstance(dec, ast.Call) else dec) not in NEUTRAL_DECORATORS:
                            out.append((where, n.id, f'decorated module-level function reached: @{ast.unparse(dec)[:50]}'))
            elif isinstance(n, ast.Attribute) and isinstance(n.ctx, (ast.Store, ast.Del)):
                b = n.value
                if isinstance(b, ast.Attribute) and isinstance(b.value, ast.Name) and b.value.id in ('self', 'cls') \
                        and any(b.attr == m.name for c in FS_CLASSES if c in classes for m in classes[c].body
                                if isinstance(m, (ast.FunctionDef, ast.AsyncFunctionDef))):
                    out.append((where, ast.unparse(n)[:40], 'state stored on a method object'))
        a = fn.args
        for dflt in list(a.defaults) + [d for d in a.kw_defaults if d is not None]:
            if not _immutable_value(dflt):
                out.append((where, ast.unparse(dflt)[:30], 'mutable default value of a parameter'))
    return list(dict.fromkeys(out))


def _sym_init(fn: ast.FunctionDef, params: dict[str, str], base_init=None) -> dict[str, str | None]:
    """Straight-line symbolic run of a constructor: what ends up in which attribute of self.

    Values are 'PATH' (the path parameter, also through os.fspath), 'ABS' (os.path.abspath of it), 'CON' (the
    constrain_path parameter) or None (anything else).  Locals are followed, `super().__init__(x)` /
    `FileSystem.__init__(self, x)` runs the base constructor with x; any control flow makes every attribute unknown."""
    env: dict[str, str | None] = dict(params)
    attrs: dict[str, str | None] = {}

    def ev(n: ast.AST) -> str | None:
        if isinstance(n, ast.Name):
            return env.get(n.id)
        if isinstance(n, ast.Call) and not n.keywords and len(n.args) == 1:
            d = _dotted(n.func)
            v = ev(n.args[0])
            if d in ('os.path.abspath', 'posixpath.abspath') and v in ('PATH', 'ABS'):
                return 'ABS'                      # abspath is idempotent and calls os.fspath itself
            if d == 'os.fspath' and v in ('PATH', 'ABS'):
                return v
        return None

    for st in fn.body:
        if isinstance(st, ast.Expr) and isinstance(st.value, ast.Constant):
            continue
        if isinstance(st, (ast.Assign, ast.AnnAssign)):
            if st.value is None:
                continue
            v = ev(st.value)
            for t in (st.targets if isinstance(st, ast.Assign) else [st.target]):
                if isinstance(t, ast.Name):
                    env[t.id] = v
                elif isinstance(t, ast.Attribute) and isinstance(t.value, ast.Name) and t.value.id == 'self':
                    attrs[t.attr] = v
                else:
                    return {'path': None, 'constrain_path': None}
            continue
        if isinstance(st, ast.Expr) and isinstance(st.value, ast.Call):
            c = st.value
            d = ast.unparse(c.func)
            args = list(c.args) + [k.value for k in c.keywords if k.arg == 'path']
            if base_init is not None and d in ('super().__init__', 'super(RawFileSystem, self).__init__') and len(args) == 1:
                bp = [a.arg for a in base_init.args.args]
                if len(bp) == 2:
                    attrs.update(_sym_init(base_init, {bp[1]: ev(args[0])}))
                    continue
            if base_init is not None and d == 'FileSystem.__init__' and len(args) == 2 and _dotted(args[0]) == 'self':
                bp = [a.arg for a in base_init.args.args]
                if len(bp) == 2:
                    attrs.update(_sym_init(base_init, {bp[1]: ev(args[1])}))
                    continue
        if isinstance(st, ast.Pass):
            continue
        return {'path': None, 'constrain_path': None}
    return attrs


def resolve_method_name(raw: ast.ClassDef) -> str:
    """The method of RawFileSystem that decides containment: the one that raises RootEscapeError (whatever it is called;
    `_resolve_path` today).  With several such methods `_resolve_path` is taken if it is one of them."""
    names = [f.name for f in raw.body if isinstance(f, ast.FunctionDef) and f.name != '__init__'
             and any(_is_raise_escape(x) for x in ast.walk(f) if isinstance(x, ast.stmt))]
    if '_resolve_path' in names or not names:
        return '_resolve_path'
    if len(names) == 1:
        return names[0]
    raise TranslateError(f'filesys.py: several methods of RawFileSystem raise RootEscapeError: {names}')


def _is_raise_escape(st: ast.stmt) -> bool:
    return (isinstance(st, ast.Raise) and isinstance(st.exc, ast.Call) and _dotted(st.exc.func) == 'RootEscapeError')


def _conj(conds: list[str]) -> str:
    if not conds:
        return 'GTrue'
    c = conds[-1]
    for x in reversed(conds[:-1]):
        c = f'(GAnd {x} {c})'
    return c


def _resolve_guard(fn: ast.FunctionDef, helpers: dict | None = None) -> tuple[str, list[str]]:
    """Translate the body of _resolve_path by symbolic execution of its paths; returns (gx text of the condition under
    which RootEscapeError is raised, list of the source conditions met).

    The body is a tree of `if` / `else` over pure boolean expressions, assignments of string expressions to locals,
    `raise RootEscapeError(...)` and `return <the absolute path>`.  Every path through it must end in one of the two;
    the raise condition is the disjunction, over the paths that raise, of the conjunction of the (possibly negated)
    tests on the path.  `if c: return abs_path` followed by more statements is therefore the same as `if not c: ...`,
    an `else: raise` the same as `if not c: raise`, and the names of the locals do not matter: `SAbs` is whatever
    expression is `os.path.abspath(os.path.join(self.path, path))` after substituting locals."""
    tr = _Tr('_resolve_path', helpers)
    params = [a.arg for a in fn.args.args]
    if len(params) != 2 or fn.args.vararg or fn.args.kwarg or fn.args.kwonlyargs or fn.args.posonlyargs or fn.args.defaults:
        tr.fail(fn, 'unexpected signature')
    self_name, path_name = params
    if self_name != 'self':
        tr.fail(fn, 'first parameter is not self')
    tr.env[path_name] = PATH_PARAM
    body = [s for s in fn.body if not (isinstance(s, ast.Expr) and isinstance(s.value, ast.Constant))]
    if not body:
        tr.fail(fn, 'empty body')
    raise_conds: list[str] = []
    srcs: list[str] = []
    n_return = [0]

    def block(stmts: list[ast.stmt], conds: list[str], tr: _Tr = tr) -> list[str] | None:
        """Run the statements under the path condition `conds`; returns the path condition with which control falls
        out of the block, or None when every path through it returned or raised."""
        for st in stmts:
            if isinstance(st, (ast.Assign, ast.AnnAssign)):
                targets = st.targets if isinstance(st, ast.Assign) else [st.target]
                if len(targets) != 1 or not isinstance(targets[0], ast.Name) or st.value is None:
                    tr.fail(st, 'assignment to something other than one local name')
                if targets[0].id in tr.self_names:
                    tr.fail(st, 'self reassigned')
                tr.assign(targets[0].id, st.value)
            elif isinstance(st, ast.If):
                g = tr.gx(st.test)
                srcs.append(ast.unparse(st.test))
                saved = dict(tr.env)
                mk = tr.cond_builder(st.test)
                out_t = block(st.body, conds + [g], tr)
                env_t, tr.env = tr.env, dict(saved)
                out_f = block(st.orelse, conds + [f'(GNot {g})'], tr)
                env_f = tr.env
                if out_t is not None and out_f is not None:
                    # both continue: the path condition stays, locals assigned differently become conditional strings
                    tr.env = tr.merge_envs(st, mk, env_t, env_f)
                elif out_t is not None:
                    conds, tr.env = out_t, env_t
                elif out_f is not None:
                    conds, tr.env = out_f, env_f
                else:
                    return None
            elif _is_raise_escape(st):
                raise_conds.append(_conj(conds))
                return None
            elif isinstance(st, ast.Return):
                hc = tr.helper_call(st.value) if st.value is not None else None
                if hc is not None and any(isinstance(x, ast.stmt) and _is_raise_escape(x) for x in ast.walk(hc[0])):
                    # the containment method hands the whole decision to a helper (`return _resolve_raw_path(self, path)`):
                    # the helper's body is run in place of the return, under the same path condition
                    hfn, inner = hc
                    hbody = [x for x in hfn.body if not (isinstance(x, ast.Expr) and isinstance(x.value, ast.Constant))]
                    if block(hbody, conds, inner) is not None:
                        inner.fail(hfn, 'a path through the helper ends without return or raise')
                    return None
                if st.value is None or tr.sx(st.value) != 'SAbs':
                    tr.fail(st, 'returns something other than os.path.abspath(os.path.join(self.path, path))')
                n_return[0] += 1
                return None
            elif isinstance(st, ast.Pass) or (isinstance(st, ast.Expr) and isinstance(st.value, ast.Constant)):
                pass
            else:
                tr.fail(st, 'unrecognised statement')
        return conds

    if block(body, []) is not None:
        tr.fail(fn, 'a path through the function ends without return or raise')
    if not n_return[0]:
        tr.fail(fn, 'no path returns')
    if not raise_conds:
        g = 'GFalse'
    else:
        g = raise_conds[-1]
        for x in reversed(raise_conds[:-1]):
            g = f'(GOr {x} {g})'
    if PATH_PARAM in g or JOINED in g:
        tr.fail(fn, 'the raise condition reads the path argument other than through abspath(join(self.path, path))')
    return g, srcs


def _access_sites(cls: ast.ClassDef, rname: str = '_resolve_path') -> list[tuple[str, str, int, bool]]:
    """Every OS-touching call inside RawFileSystem: (method, callee, line, path argument comes from _resolve_path)."""
    out = []
    for fn in cls.body:
        if not isinstance(fn, (ast.FunctionDef, ast.AsyncFunctionDef)):
            continue
        resolved: set[str] = set()
        for node in ast.walk(fn):
            if isinstance(node, ast.Assign) and len(node.targets) == 1 and isinstance(node.targets[0], ast.Name):
                v = node.value
                if isinstance(v, ast.Call) and _dotted(v.func) == 'self.' + rname:
                    resolved.add(node.targets[0].id)
        for node in ast.walk(fn):
            if not isinstance(node, ast.Call):
                continue
            d = _dotted(node.func)
            if d is None:
                continue
            if d in ACCESS:
                if not node.args:
                    raise TranslateError(f'filesys.py:{node.lineno}: {d} called without positional path')
                a = node.args[0]
                ok = (isinstance(a, ast.Call) and _dotted(a.func) == 'self.' + rname) or \
                     (isinstance(a, ast.Name) and a.id in resolved)
                out.append((fn.name, d, node.lineno, ok))
            elif d.startswith(('os.', 'shutil.', 'pathlib.', 'io.', 'glob.')) or d in ('Path',):
                if d not in PURE_OS:
                    raise TranslateError(f'filesys.py:{node.lineno}: RawFileSystem.{fn.name}: unclassified call {d}')
    return out


def _unify_path_shape(tree: ast.Module) -> dict:
    for n in tree.body:
        if isinstance(n, ast.FunctionDef) and n.name == 'unify_path':
            body = [s for s in n.body if not (isinstance(s, ast.Expr) and isinstance(s.value, ast.Constant))]
            src = [ast.unparse(s) for s in body]
            shape = {
                'normalise': len(src) > 0 and src[0] == "path = os.path.normpath(path).casefold().replace('\\\\', '/')",
                'reject': len(src) > 1 and src[1] == "if '../' in path:\n    raise ValueError('Path tried to escape root!')",
                'strip': len(src) > 2 and src[2] == "return path.lstrip('/')",
                'n_stmts': len(src),
            }
            shape['digest'] = ast_digest(n)
            return shape
    raise TranslateError('packlist.py: unify_path not found')


def translate() -> tuple[str, dict]:
    tree = ast.parse(src_text('filesys.py'))
    raw = None
    for n in tree.body:
        if isinstance(n, ast.ClassDef) and n.name == 'RawFileSystem':
            raw = n
    if raw is None:
        raise TranslateError('filesys.py: class RawFileSystem not found')
    init = resolve = None
    rname = resolve_method_name(raw)
    for f in raw.body:
        if isinstance(f, ast.FunctionDef) and f.name == '__init__':
            init = f
        if isinstance(f, ast.FunctionDef) and f.name == rname:
            resolve = f
    if init is None or resolve is None:
        raise TranslateError('filesys.py: RawFileSystem.__init__/_resolve_path not found')
    # what the constructor leaves in self.path / self.constrain_path (locals followed, base constructor run symbolically)
    base_init = None
    for n in tree.body:
        if isinstance(n, ast.ClassDef) and n.name == 'FileSystem':
            for f in n.body:
                if isinstance(f, ast.FunctionDef) and f.name == '__init__':
                    base_init = f
    ip = [a.arg for a in init.args.args + init.args.kwonlyargs]
    stored = _sym_init(init, {ip[1]: 'PATH', 'constrain_path': 'CON'} if len(ip) >= 3 and 'constrain_path' in ip[2:] else {},
                       base_init)
    root_abs = stored.get('path') == 'ABS'
    path_stores = [x for f in raw.body if isinstance(f, ast.FunctionDef) and f.name != '__init__' for x in ast.walk(f)
                   if isinstance(x, (ast.Assign, ast.AugAssign, ast.AnnAssign))
                   for t in (x.targets if isinstance(x, ast.Assign) else [x.target]) if _dotted(t) == 'self.path']
    # self.constrain_path = the constructor's parameter, unchanged; assigned nowhere else in the class
    con_stores = [(f.name, x) for f in raw.body if isinstance(f, ast.FunctionDef) for x in ast.walk(f)
                  if isinstance(x, (ast.Assign, ast.AugAssign, ast.AnnAssign))
                  for t in (x.targets if isinstance(x, ast.Assign) else [x.target]) if _dotted(t) == 'self.constrain_path']
    con_from_param = stored.get('constrain_path') == 'CON'
    con_elsewhere = any(fn != '__init__' for fn, _ in con_stores)
    helpers: dict = {}
    nbound: dict[str, int] = {}
    consts: dict[str, ast.AST] = {}
    for n in tree.body:
        for t in (n.targets if isinstance(n, ast.Assign) else [n.target] if isinstance(n, (ast.AnnAssign, ast.AugAssign)) else []):
            for nm in ast.walk(t):
                if isinstance(nm, ast.Name):
                    nbound[nm.id] = nbound.get(nm.id, 0) + 1
        if isinstance(n, (ast.Assign, ast.AnnAssign)) and n.value is not None:
            t = n.targets[0] if isinstance(n, ast.Assign) and len(n.targets) == 1 else getattr(n, 'target', None)
            if isinstance(t, ast.Name) and (isinstance(n.value, ast.Constant) and isinstance(n.value.value, str)
                                            or _dotted(n.value) in ('os.sep', 'os.path.sep')):
                consts[t.id] = n.value
    helpers['=consts'] = {k: v for k, v in consts.items() if nbound.get(k) == 1}
    for n in tree.body:
        if isinstance(n, ast.FunctionDef):
            helpers[n.name] = n
        elif isinstance(n, ast.ClassDef) and n.name == 'FileSystem':
            helpers.update({'self.' + f.name: f for f in n.body if isinstance(f, ast.FunctionDef)})
    helpers.update({'self.' + f.name: f for f in raw.body if isinstance(f, ast.FunctionDef) and f.name != rname})
    guard, srcs = _resolve_guard(resolve, helpers)
    # the census of access sites is taken from the data-flow interpreter of translate/c18_ops.py (helper methods inlined,
    # locals followed); only if that one cannot read the class the syntactic census below is used
    try:
        from translate import c18_ops
        by_site: dict[tuple, bool] = {}
        for m, c, _b, pexp, line in c18_ops.translate()[1]['raw_sites']:
            by_site[(m, c, line)] = by_site.get((m, c, line), True) and pexp.startswith('(PResolve ')
        sites = [(m, c, line, ok) for (m, c, line), ok in by_site.items()]
    except TranslateError:
        sites = _access_sites(raw, rname)
    if not sites:
        raise TranslateError('filesys.py: RawFileSystem has no recognised file-system access site')
    up = _unify_path_shape(ast.parse(src_text('packlist.py')))
    # anything between a caller of _resolve_path / __init__ and the bodies translated above (seeded c18_4: lru_cache)
    wrappers = [w for w in wrapper_census(tree) if w[1] in (rname, '__init__', '__getattribute__', '__getattr__')
                and w[0] in ('RawFileSystem', 'FileSystem') or w[2].startswith('subclass') and w[1] == rname]
    # decorated helpers the containment method runs (seeded c18_7: the whole body moved into a module-level function under
    # functools.lru_cache, keyed by the file-system object, whose __eq__ / __hash__ ignore constrain_path)
    wrappers += [('helper of ' + rname, k, w) for k, w in helpers.get('=decorated', [])]
    lines = [
        '(* GENERATED by translate/c18_guard.py from /repo/src/srctools/filesys.py, packlist.py. Do not edit. *)',
        'From Coq Require Import NArith List String.', 'From SV Require Import SM.PathNorm.',
        'Import ListNotations.', 'Open Scope string_scope.',
        '(* condition under which RawFileSystem._resolve_path raises RootEscapeError *)',
        f'Definition raise_if : gx := {guard}.',
        f'Definition root_is_abspath : bool := {"true" if root_abs else "false"}.',
        f'Definition root_reassigned_in_class : bool := {"true" if path_stores else "false"}.',
        f'Definition constrain_flag_is_the_constructor_argument : bool := {"true" if con_from_param and not con_elsewhere else "false"}.',
        '(* decorators / rebindings / attribute hooks standing between a caller and the body of _resolve_path, __init__ *)',
        'Definition resolve_path_wrappers : list (string * string * string) := [',
        ';\n'.join(f'  ("{c}", "{m}", "{_coq_ident(w)}")' for c, m, w in wrappers), '].',
        '(* every file-system access of RawFileSystem: (method, callee, path argument is a _resolve_path result) *)',
        'Definition access_sites : list (string * string * bool) := [',
        ';\n'.join(f'  ("{m}", "{c}", {"true" if ok else "false"})' for m, c, _, ok in sites),
        '].',
        '',
    ]
    side = {'raise_if': guard, 'source_conditions': srcs, 'root_is_abspath': root_abs,
            'access_sites': [list(s) for s in sites], 'unify_path': up, 'resolve_path_wrappers': [list(w) for w in wrappers],
            'resolve_digest': ast_digest(resolve), 'line': resolve.lineno, 'resolve_method': rname}
    return '\n'.join(lines), side


GEN = {'Containment_gen': translate}
