"""C11 translator, second part: the glue of the lump readers/writers of bsp.py -> Gen/BspGlue_gen.v.

* the visibility row-size expression of `runlength_decode` (reader) and `_lmp_write_visibility` (writer) as a term of
  the expression language of Fmt/BspVisRow.v, whether the reader passes the stored cluster count to the decoder and
  whether the writer checks every row against its expression;
* the texture string table: what `_lmp_write_textures` searches for in the block written so far, what it appends when
  nothing is found, the longest name its guard lets through, the window in which `_lmp_read_textures` looks for the
  terminator, and the codecs of both sides;
* (see c11_records.py for the per-record field orders and c11_dedup.py for the keys of the de-duplicating index tables,
  c11_helpers.py for helper properties handed to pack calls.)

Fail-closed: every statement of the decisive loops must be recognised, otherwise TranslateError.
"""
from __future__ import annotations

import ast
from typing import Any

from harness.common import TranslateError, src_text


NORMALISED = {'runlength_decode', '_lmp_read_visibility', '_lmp_write_visibility', '_lmp_write_textures', '_lmp_read_textures', 'write_ent_data'}


def _fn(tree: ast.AST, name: str) -> ast.FunctionDef:
    for n in ast.walk(tree):
        if isinstance(n, ast.FunctionDef) and n.name == name:
            return n
    raise TranslateError(f'function {name} not found')


def coq_z(v: int) -> str:
    return f'({v})%Z'


# ------------------------------------------------------------------------------------------------ row size expression
def rexp(e: ast.AST, var: str, where: str) -> str:
    """Python integer expression in one variable -> Coq term of type rexp."""
    def lit(x: ast.AST) -> int:
        if isinstance(x, ast.Constant) and isinstance(x.value, int) and not isinstance(x.value, bool):
            return x.value
        raise TranslateError(f'{where}: line {x.lineno}: operand must be an integer literal: {ast.unparse(x)}')

    if isinstance(e, ast.Name):
        if e.id != var:
            raise TranslateError(f'{where}: line {e.lineno}: row size depends on `{e.id}`, expected only `{var}`')
        return 'RVar'
    if isinstance(e, ast.Constant):
        return f'(RConst {coq_z(lit(e))})'
    if isinstance(e, ast.UnaryOp) and isinstance(e.op, ast.USub):
        return f'(RNeg {rexp(e.operand, var, where)})'
    if isinstance(e, ast.BinOp):
        if isinstance(e.op, ast.Add):
            return f'(RAdd {rexp(e.left, var, where)} {rexp(e.right, var, where)})'
        if isinstance(e.op, ast.Sub):
            return f'(RSub {rexp(e.left, var, where)} {rexp(e.right, var, where)})'
        if isinstance(e.op, ast.Mult):
            if isinstance(e.right, ast.Constant):
                return f'(RMulC {rexp(e.left, var, where)} {coq_z(lit(e.right))})'
            return f'(RMulC {rexp(e.right, var, where)} {coq_z(lit(e.left))})'
        if isinstance(e.op, ast.FloorDiv):
            return f'(RFloorDiv {rexp(e.left, var, where)} {coq_z(lit(e.right))})'
        if isinstance(e.op, ast.RShift):
            return f'(RShr {rexp(e.left, var, where)} {coq_z(lit(e.right))})'
    if isinstance(e, ast.Call) and ast.unparse(e.func) in ('math.ceil', 'ceil') and len(e.args) == 1 and not e.keywords:
        a = e.args[0]
        if isinstance(a, ast.BinOp) and isinstance(a.op, ast.Div):
            return f'(RCeilDiv {rexp(a.left, var, where)} {coq_z(lit(a.right))})'
    if isinstance(e, ast.Call) and ast.unparse(e.func) == 'int' and len(e.args) == 1 and not e.keywords:
        return rexp(e.args[0], var, where)
    raise TranslateError(f'{where}: line {e.lineno}: row size expression not in the translated language: {ast.unparse(e)[:80]}')


def vis_reader(tree: ast.Module) -> tuple[str, bool, str]:
    fn = _fn(tree, 'runlength_decode')
    params = [a.arg for a in fn.args.args]
    if len(params) != 3:
        raise TranslateError('runlength_decode: expected (data, start, max_clusters)')
    var = params[2]
    # the limit variable: `return result[:LIMIT]`
    rets = [n for n in ast.walk(fn) if isinstance(n, ast.Return)]
    if len(rets) != 1 or not (isinstance(rets[0].value, ast.Subscript) and isinstance(rets[0].value.slice, ast.Slice)
                              and rets[0].value.slice.lower is None and isinstance(rets[0].value.slice.upper, ast.Name)):
        raise TranslateError('runlength_decode: `return result[:limit]` not found')
    limit = rets[0].value.slice.upper.id
    whiles = [n for n in ast.walk(fn) if isinstance(n, ast.While)]
    if len(whiles) != 1 or f'< {limit}' not in ast.unparse(whiles[0].test):
        raise TranslateError('runlength_decode: loop test does not compare the result length with the limit')
    assigns = [n for n in ast.walk(fn) if isinstance(n, ast.Assign) and len(n.targets) == 1 and ast.unparse(n.targets[0]) == limit]
    chosen = None
    for n in ast.walk(fn):
        if isinstance(n, ast.If) and isinstance(n.test, ast.Compare) and ast.unparse(n.test) == f'{var} == -1':
            if len(n.body) == 1 and len(n.orelse) == 1 and n.body[0] in assigns and n.orelse[0] in assigns and len(assigns) == 2:
                chosen = n.orelse[0]
    if chosen is None:
        raise TranslateError(f'runlength_decode: `if {var} == -1: {limit} = ... else: {limit} = ...` not found')
    expr = rexp(chosen.value, var, 'runlength_decode')
    # the caller passes the stored cluster count
    rd = _fn(tree, '_lmp_read_visibility')
    cnt = None
    for n in ast.walk(rd):
        if isinstance(n, ast.Assign) and isinstance(n.value, ast.Call) and ast.unparse(n.value.func) == 'struct.unpack_from' \
                and len(n.value.args) == 3 and ast.unparse(n.value.args[2]) == '0':
            t = n.targets[0]
            if isinstance(t, (ast.List, ast.Tuple)) and len(t.elts) == 1 and isinstance(t.elts[0], ast.Name):
                cnt = t.elts[0].id
    if cnt is None:
        raise TranslateError('_lmp_read_visibility: `[cluster_count] = struct.unpack_from(fmt, data, 0)` not found')
    calls = [n for n in ast.walk(rd) if isinstance(n, ast.Call) and ast.unparse(n.func) == 'runlength_decode']
    if not calls:
        raise TranslateError('_lmp_read_visibility: no call of runlength_decode')
    passes = all(len(c.args) == 3 and not c.keywords and ast.unparse(c.args[2]) == cnt for c in calls)
    return expr, passes, ast.unparse(chosen.value)


def vis_writer(tree: ast.Module) -> tuple[str, bool, str]:
    fn = _fn(tree, '_lmp_write_visibility')
    cnt = None
    for n in fn.body:
        if isinstance(n, ast.Assign) and isinstance(n.targets[0], ast.Name) and ast.unparse(n.value) == 'len(vis.potentially_visible)':
            cnt = n.targets[0].id
    if cnt is None:
        raise TranslateError('_lmp_write_visibility: `cluster_count = len(vis.potentially_visible)` not found')
    packs = [n for n in ast.walk(fn) if isinstance(n, ast.Call) and ast.unparse(n.func) == 'struct.pack']
    if not any(len(p.args) == 2 and ast.unparse(p.args[1]) == cnt for p in packs):
        raise TranslateError('_lmp_write_visibility: the cluster count is not what is packed into the header')
    # the guard: for row in chain(pvs, pas): if len(row) != SIZE: raise
    guard_var = None
    for n in ast.walk(fn):
        if isinstance(n, ast.For) and isinstance(n.target, ast.Name) and 'potentially_visible' in ast.unparse(n.iter) \
                and 'potentially_audible' in ast.unparse(n.iter) and ast.unparse(n.iter).startswith('itertools.chain('):
            for st in n.body:
                if isinstance(st, ast.If) and not st.orelse and st.body and isinstance(st.body[-1], ast.Raise) \
                        and isinstance(st.test, ast.Compare) and len(st.test.ops) == 1 and isinstance(st.test.ops[0], ast.NotEq) \
                        and ast.unparse(st.test.left) == f'len({n.target.id})' and isinstance(st.test.comparators[0], ast.Name):
                    guard_var = st.test.comparators[0].id
    if guard_var is None:
        # no guard: the writer accepts rows of any length. The expression is then irrelevant; report the reader's form.
        return '(RConst (-1)%Z)', False, '<no row length check>'
    assigns = [n for n in ast.walk(fn) if isinstance(n, ast.Assign) and len(n.targets) == 1 and ast.unparse(n.targets[0]) == guard_var]
    if len(assigns) != 1:
        raise TranslateError(f'_lmp_write_visibility: expected exactly one assignment of `{guard_var}`')
    return rexp(assigns[0].value, cnt, '_lmp_write_visibility'), True, ast.unparse(assigns[0].value)


def vis_offset_order(tree: ast.Module) -> tuple[list[str], list[str]]:
    """Which row set (potentially_visible / potentially_audible) each of the two offsets of a cluster's header entry belongs to:
    writer `off = data.tell(); data.write(runlength_encode(rows_of_X)); ...; writes.set_data(ind, off1, off2)`,
    reader `[a, b] = <struct>.unpack_from(data, pos); vis.X.append(runlength_decode(data, a, n))`."""
    fw = _fn(tree, '_lmp_write_visibility')
    worder = None
    for loop in [n for n in fw.body if isinstance(n, ast.For)]:
        it = loop.iter
        if isinstance(it, ast.Call) and ast.unparse(it.func) == 'enumerate' and it.args:
            it, tgt = it.args[0], loop.target.elts[1] if isinstance(loop.target, ast.Tuple) and len(loop.target.elts) == 2 else None
        else:
            tgt = loop.target
        if not (isinstance(it, ast.Call) and ast.unparse(it.func) == 'zip' and isinstance(tgt, ast.Tuple) and len(tgt.elts) == len(it.args)
                and all(isinstance(t, ast.Name) for t in tgt.elts) and all(isinstance(a, ast.Attribute) for a in it.args)):
            continue
        var_attr = {t.id: a.attr for t, a in zip(tgt.elts, it.args)}
        pending: list[str] = []
        off_attr: dict[str, str] = {}
        for st in loop.body:
            if isinstance(st, ast.Assign) and len(st.targets) == 1 and isinstance(st.targets[0], ast.Name) \
                    and isinstance(st.value, ast.Call) and ast.unparse(st.value.func).endswith('.tell') and not st.value.args:
                pending.append(st.targets[0].id)
            elif isinstance(st, ast.Expr) and isinstance(st.value, ast.Call) and ast.unparse(st.value.func).endswith('.write') and len(st.value.args) == 1:
                a = st.value.args[0]
                if not (isinstance(a, ast.Call) and ast.unparse(a.func) == 'runlength_encode' and len(a.args) == 1
                        and isinstance(a.args[0], ast.Name) and a.args[0].id in var_attr):
                    raise TranslateError(f'_lmp_write_visibility: line {st.lineno}: write of something that is not an encoded row')
                if len(pending) != 1:
                    raise TranslateError(f'_lmp_write_visibility: line {st.lineno}: a row is written without exactly one fresh offset taken before it')
                off_attr[pending.pop()] = var_attr[a.args[0].id]
            elif isinstance(st, ast.Expr) and isinstance(st.value, ast.Call) and ast.unparse(st.value.func).endswith('.set_data'):
                args = st.value.args[1:]
                if pending or not all(isinstance(x, ast.Name) and x.id in off_attr for x in args):
                    raise TranslateError(f'_lmp_write_visibility: line {st.lineno}: set_data arguments are not the offsets taken before the rows')
                worder = [off_attr[x.id] for x in args]
            else:
                raise TranslateError(f'_lmp_write_visibility: line {st.lineno}: statement of the row loop not recognised: {ast.unparse(st)[:60]}')
    if worder is None:
        raise TranslateError('_lmp_write_visibility: row loop with set_data not found')
    fr = _fn(tree, '_lmp_read_visibility')
    rorder = None
    for loop in [n for n in ast.walk(fr) if isinstance(n, ast.For)]:
        names: list[str] = []
        got: dict[str, str] = {}
        for st in loop.body:
            if isinstance(st, ast.Assign) and isinstance(st.targets[0], (ast.List, ast.Tuple)) and isinstance(st.value, ast.Call) \
                    and ast.unparse(st.value.func).endswith('unpack_from') and all(isinstance(t, ast.Name) for t in st.targets[0].elts):
                names = [t.id for t in st.targets[0].elts]
            elif isinstance(st, ast.Expr) and isinstance(st.value, ast.Call) and isinstance(st.value.func, ast.Attribute) and st.value.func.attr == 'append' \
                    and isinstance(st.value.func.value, ast.Attribute) and len(st.value.args) == 1:
                c = st.value.args[0]
                if isinstance(c, ast.Call) and ast.unparse(c.func) == 'runlength_decode' and len(c.args) >= 2 and isinstance(c.args[1], ast.Name):
                    if c.args[1].id in got:
                        raise TranslateError(f'_lmp_read_visibility: line {st.lineno}: offset `{c.args[1].id}` is decoded twice')
                    got[c.args[1].id] = st.value.func.value.attr
        if names:
            if set(got) != set(names):
                raise TranslateError('_lmp_read_visibility: not every unpacked offset is decoded into a row set')
            rorder = [got[n] for n in names]
    if rorder is None:
        raise TranslateError('_lmp_read_visibility: `[a, b] = ....unpack_from(...)` in the cluster loop not found')
    return worder, rorder


# ------------------------------------------------------------------------------------------------ texture string table
NAME = object()


def bytes_parts(e: ast.AST, env: dict[str, list], namevar: str, where: str) -> list:
    """A bytes expression as a list of parts: NAME (the encoded texture name) or an int byte."""
    if isinstance(e, ast.Constant) and isinstance(e.value, bytes):
        return list(e.value)
    if isinstance(e, ast.Name) and e.id in env:
        return list(env[e.id])
    if isinstance(e, ast.Call) and isinstance(e.func, ast.Attribute) and e.func.attr == 'encode' \
            and isinstance(e.func.value, ast.Name) and e.func.value.id == namevar:
        return [('codec', tuple(ast.unparse(a) for a in e.args)), NAME]
    if isinstance(e, ast.BinOp) and isinstance(e.op, ast.Add):
        return bytes_parts(e.left, env, namevar, where) + bytes_parts(e.right, env, namevar, where)
    if isinstance(e, ast.Call) and ast.unparse(e.func) in ('bytes', 'bytearray') and len(e.args) == 1:
        return bytes_parts(e.args[0], env, namevar, where)
    raise TranslateError(f'{where}: line {e.lineno}: bytes expression not recognised: {ast.unparse(e)[:80]}')


def split_name_suffix(parts: list, where: str) -> tuple[tuple, list[int]]:
    codecs = [p[1] for p in parts if isinstance(p, tuple)]
    rest = [p for p in parts if not isinstance(p, tuple)]
    if not rest or rest[0] is not NAME or any(p is NAME for p in rest[1:]) or len(codecs) != 1:
        raise TranslateError(f'{where}: expected the encoded name followed by literal bytes')
    return codecs[0], [int(p) for p in rest[1:]]


def textures(tree: ast.Module) -> dict[str, Any]:
    fw = _fn(tree, '_lmp_write_textures')
    loops = [n for n in fw.body if isinstance(n, ast.For)]
    if len(loops) != 1 or not isinstance(loops[0].target, ast.Name) or ast.unparse(loops[0].iter) != fw.args.args[1].arg:
        raise TranslateError('_lmp_write_textures: expected one loop over the texture list')
    loop = loops[0]
    tex = loop.target.id
    env: dict[str, list] = {}
    maxlen = None
    search = None
    appended = None
    datavar = None
    indvar = None
    wrote_table = False
    for st in loop.body:
        u = ast.unparse(st)
        if isinstance(st, ast.If) and st.body and isinstance(st.body[-1], ast.Raise) and not st.orelse \
                and isinstance(st.test, ast.Compare) and ast.unparse(st.test.left) == f'len({tex})' and len(st.test.ops) == 1 \
                and isinstance(st.test.comparators[0], ast.Constant):
            k = st.test.comparators[0].value
            m = k - 1 if isinstance(st.test.ops[0], ast.GtE) else k if isinstance(st.test.ops[0], ast.Gt) else None
            if m is None:
                raise TranslateError(f'_lmp_write_textures: line {st.lineno}: guard comparison not recognised')
            maxlen = m if maxlen is None else min(maxlen, m)
        elif isinstance(st, ast.Assign) and len(st.targets) == 1 and isinstance(st.targets[0], ast.Name) \
                and isinstance(st.value, ast.Call) and isinstance(st.value.func, ast.Attribute) and st.value.func.attr == 'find':
            if len(st.value.args) != 1 or st.value.keywords or not isinstance(st.value.func.value, ast.Name):
                raise TranslateError(f'_lmp_write_textures: line {st.lineno}: find() call not recognised')
            datavar = st.value.func.value.id
            indvar = st.targets[0].id
            search = bytes_parts(st.value.args[0], env, tex, '_lmp_write_textures')
        elif isinstance(st, ast.Assign) and len(st.targets) == 1 and isinstance(st.targets[0], ast.Name):
            env[st.targets[0].id] = bytes_parts(st.value, env, tex, '_lmp_write_textures')
        elif isinstance(st, ast.If) and indvar is not None and ast.unparse(st.test) in (f'{indvar} == -1', f'{indvar} < 0') and not st.orelse:
            appended = []
            first = st.body[0]
            if ast.unparse(first) != f'{indvar} = len({datavar})':
                raise TranslateError(f'_lmp_write_textures: line {st.lineno}: expected `{indvar} = len({datavar})` first')
            for s2 in st.body[1:]:
                if isinstance(s2, ast.Expr) and isinstance(s2.value, ast.Call) and isinstance(s2.value.func, ast.Attribute) \
                        and ast.unparse(s2.value.func.value) == datavar and len(s2.value.args) == 1:
                    if s2.value.func.attr == 'extend':
                        appended += bytes_parts(s2.value.args[0], env, tex, '_lmp_write_textures')
                    elif s2.value.func.attr == 'append' and isinstance(s2.value.args[0], ast.Constant) and isinstance(s2.value.args[0].value, int):
                        appended.append(s2.value.args[0].value)
                    else:
                        raise TranslateError(f'_lmp_write_textures: line {s2.lineno}: statement not recognised: {ast.unparse(s2)[:60]}')
                elif isinstance(s2, ast.AugAssign) and isinstance(s2.op, ast.Add) and ast.unparse(s2.target) == datavar:
                    appended += bytes_parts(s2.value, env, tex, '_lmp_write_textures')
                else:
                    raise TranslateError(f'_lmp_write_textures: line {s2.lineno}: statement not recognised: {ast.unparse(s2)[:60]}')
        elif indvar is not None and u.replace(' ', '') in (f"table.write(struct.pack('<i',{indvar}))",):
            wrote_table = True
        else:
            raise TranslateError(f'_lmp_write_textures: line {st.lineno}: statement not recognised: {u[:60]}')
    if search is None or appended is None or not wrote_table:
        raise TranslateError('_lmp_write_textures: find / append / table write not all found')
    wcodec, ss = split_name_suffix(search, '_lmp_write_textures (searched pattern)')
    wcodec2, sa = split_name_suffix(appended, '_lmp_write_textures (appended bytes)')
    ret = [n for n in fw.body if isinstance(n, ast.Return)]
    if len(ret) != 1 or ast.unparse(ret[0].value) not in (datavar, f'bytes({datavar})'):
        raise TranslateError('_lmp_write_textures: the data block is not what is returned')

    fr = _fn(tree, '_lmp_read_textures')
    win = None
    rcodec = None
    for n in ast.walk(fr):
        if isinstance(n, ast.Call) and isinstance(n.func, ast.Attribute) and n.func.attr == 'index' and len(n.args) == 3:
            if not (isinstance(n.args[0], ast.Constant) and n.args[0].value == b'\0'):
                raise TranslateError('_lmp_read_textures: index() does not look for one NUL byte')
            a, b = n.args[1], n.args[2]
            if not (isinstance(b, ast.BinOp) and isinstance(b.op, ast.Add) and ast.unparse(b.left) == ast.unparse(a)
                    and isinstance(b.right, ast.Constant) and isinstance(b.right.value, int)):
                raise TranslateError('_lmp_read_textures: search window not `off, off + N`')
            win = b.right.value
        if isinstance(n, ast.Yield) and isinstance(n.value, ast.Call) and isinstance(n.value.func, ast.Attribute) \
                and n.value.func.attr == 'decode':
            rcodec = tuple(ast.unparse(a) for a in n.value.args)
            sub = n.value.func.value
            if not (isinstance(sub, ast.Subscript) and isinstance(sub.slice, ast.Slice) and sub.slice.lower is not None
                    and sub.slice.upper is not None):
                raise TranslateError('_lmp_read_textures: yielded value is not data[off:terminator]')
    if win is None or rcodec is None:
        raise TranslateError('_lmp_read_textures: index()/decode() not found')
    if maxlen is None:
        maxlen = 10 ** 6     # no guard at all: every length is let through
    return {'search_suffix': ss, 'append_suffix': sa, 'maxlen': maxlen, 'window': win,
            'codec_same': wcodec == wcodec2 == rcodec, 'codec': [list(wcodec), list(rcodec)]}


# ------------------------------------------------------------------------------------------------ entity lump text
def _mode(e: ast.AST, where: str) -> str:
    """How an interpolated field is put between the quotes."""
    if isinstance(e, ast.Call) and ast.unparse(e.func) == 'escape_text' and e.args:
        ml = False
        if len(e.args) == 2:
            if not isinstance(e.args[1], ast.Constant):
                raise TranslateError(f'{where}: escape_text multiline argument not constant')
            ml = bool(e.args[1].value)
        for k in e.keywords:
            if k.arg == 'multiline' and isinstance(k.value, ast.Constant):
                ml = bool(k.value.value)
            else:
                raise TranslateError(f'{where}: escape_text keyword not recognised')
        return 'EscML' if ml else 'EscS'
    if isinstance(e, (ast.Name, ast.Attribute)) or (isinstance(e, ast.Call) and not e.args and isinstance(e.func, ast.Attribute)):
        return 'Raw'
    raise TranslateError(f'{where}: interpolated field not recognised: {ast.unparse(e)[:60]}')


def _template(js: ast.AST, where: str) -> list:
    """f-string -> list of literal strings and ('f', expr, has_format_spec)."""
    if not isinstance(js, ast.JoinedStr):
        raise TranslateError(f'{where}: not an f-string')
    out: list = []
    for v in js.values:
        if isinstance(v, ast.Constant):
            if out and isinstance(out[-1], str):
                out[-1] += v.value
            else:
                out.append(v.value)
        elif isinstance(v, ast.FormattedValue) and v.conversion == -1:
            out.append(('f', v.value, v.format_spec is not None))
        else:
            raise TranslateError(f'{where}: f-string part not recognised')
    return out


def ent_text(tree: ast.Module) -> dict[str, Any]:
    fw = _fn(tree, 'write_ent_data')
    kv_loop = None
    for n in ast.walk(fw):
        if isinstance(n, ast.For) and ast.unparse(n.iter).endswith('.items()') and isinstance(n.target, ast.Tuple) and len(n.target.elts) == 2:
            kv_loop = n
    if kv_loop is None or len(kv_loop.body) != 1:
        raise TranslateError('write_ent_data: `for key, value in ent.items():` with one statement not found')
    kname, vname = (ast.unparse(e) for e in kv_loop.target.elts)
    st = kv_loop.body[0]
    call = st.value if isinstance(st, ast.Expr) else None
    if not (isinstance(call, ast.Call) and ast.unparse(call.func) == 'out.write' and len(call.args) == 1
            and isinstance(call.args[0], ast.Call) and isinstance(call.args[0].func, ast.Attribute) and call.args[0].func.attr == 'encode'):
        raise TranslateError('write_ent_data: keyvalue line is not out.write(f"...".encode(...))')
    t = _template(call.args[0].func.value, 'write_ent_data')
    if len(t) != 5 or t[0] != '"' or t[2] != '" "' or t[4] != '"\n' or isinstance(t[1], str) or isinstance(t[3], str):
        raise TranslateError('write_ent_data: keyvalue line is not `"<key>" "<value>"\\n`')

    def names(e: ast.AST) -> set[str]:
        return {x.id for x in ast.walk(e) if isinstance(x, ast.Name)}
    if kname not in names(t[1][1]) or vname not in names(t[3][1]):
        raise TranslateError('write_ent_data: key/value are not interpolated in this order')
    km, vm = _mode(t[1][1], 'write_ent_data'), _mode(t[3][1], 'write_ent_data')
    # framing: braces, newline, final NUL are compared byte by byte by the correspondence of checks/c11.py
    from translate import c11_norm
    vtree = c11_norm.functions(ast.parse(src_text('vmf.py')), {'as_keyvalue'})
    ocls = next((n for n in vtree.body if isinstance(n, ast.ClassDef) and n.name == 'Output'), None)
    if ocls is None:
        raise TranslateError('vmf.py: class Output not found')
    ak = next((n for n in ocls.body if isinstance(n, ast.FunctionDef) and n.name == 'as_keyvalue'), None)
    if ak is None:
        raise TranslateError('Output.as_keyvalue not found')
    ret = [n for n in ast.walk(ak) if isinstance(n, ast.Return)]
    seps = [n for n in ak.body if isinstance(n, ast.Assign) and ast.unparse(n.targets[0]) == 'sep']
    if len(ret) != 1 or len(seps) != 1 or ast.unparse(seps[0].value) != "',' if self.comma_sep else self.SEP":
        raise TranslateError('Output.as_keyvalue: `sep = "," if self.comma_sep else self.SEP` / single return not found')
    sep_const = None
    for n in ocls.body:
        if isinstance(n, (ast.Assign, ast.AnnAssign)):
            tg = n.targets[0] if isinstance(n, ast.Assign) else n.target
            if ast.unparse(tg) == 'SEP' and n.value is not None:
                v = n.value
                if isinstance(v, ast.Name):
                    alias = v.id
                    for m in vtree.body:
                        if isinstance(m, (ast.Assign, ast.AnnAssign)):
                            tg2 = m.targets[0] if isinstance(m, ast.Assign) else m.target
                            if ast.unparse(tg2) == alias and m.value is not None:
                                v = m.value
                if isinstance(v, ast.Call) and ast.unparse(v.func) == 'chr' and isinstance(v.args[0], ast.Constant):
                    sep_const = v.args[0].value
                elif isinstance(v, ast.Constant) and isinstance(v.value, str) and len(v.value) == 1:
                    sep_const = ord(v.value)
    if sep_const is None:
        raise TranslateError('Output.SEP: separator constant not found')
    t = _template(ret[0].value, 'Output.as_keyvalue')
    # expected: '"' name '" "' target sep input sep params sep delay sep times '"\n'
    shape = ['"', 'F', '" "', 'F', 'S', 'F', 'S', 'F', 'S', 'F', 'S', 'F', '"\n']
    got = []
    fields = []
    for part in t:
        if isinstance(part, str):
            got.append(part)
        elif ast.unparse(part[1]) == 'sep':
            got.append('S')
        else:
            got.append('F')
            fields.append(part)
    if got != shape:
        raise TranslateError(f'Output.as_keyvalue: line shape not recognised: {got}')
    modes = []
    for _, e, spec in fields:
        modes.append('Raw' if spec else _mode(e, 'Output.as_keyvalue'))
    return {'key_mode': km, 'value_mode': vm, 'out_name_mode': modes[0], 'out_field_modes': modes[1:], 'output_sep': sep_const}


def vis_deferred_usage(tree: ast.Module) -> tuple[bool, str]:
    """_lmp_write_visibility: `W = DeferredWrites(buf)`; every `W.defer(key, fmt, ...)` reserves its slot (third argument / `write=`
    is the literal True) with the loop variable of `range(count)` as key (one key per cluster: no key twice); `W.write()` is
    called after the last `W.set_data(...)`, and the function returns afterwards."""
    fn = _fn(tree, '_lmp_write_visibility')
    ws = [n.targets[0].id for n in ast.walk(fn) if isinstance(n, ast.Assign) and len(n.targets) == 1 and isinstance(n.targets[0], ast.Name)
          and isinstance(n.value, ast.Call) and ast.unparse(n.value.func) == 'DeferredWrites']
    if len(ws) != 1:
        raise TranslateError('_lmp_write_visibility: expected exactly one DeferredWrites object')
    w = ws[0]
    defers, sets, finals = [], [], []
    for n in ast.walk(fn):
        if isinstance(n, ast.Call) and isinstance(n.func, ast.Attribute) and isinstance(n.func.value, ast.Name) and n.func.value.id == w:
            {'defer': defers, 'set_data': sets, 'write': finals}.get(n.func.attr, []).append(n)
            if n.func.attr not in ('defer', 'set_data', 'write', 'pos_of'):
                raise TranslateError(f'_lmp_write_visibility: line {n.lineno}: use of the DeferredWrites object not recognised: .{n.func.attr}')
    if not defers or not sets:
        raise TranslateError('_lmp_write_visibility: no defer / set_data call on the DeferredWrites object')
    reserved = True
    for d in defers:
        flag = d.args[2] if len(d.args) >= 3 else next((k.value for k in d.keywords if k.arg == 'write'), None)
        reserved = reserved and isinstance(flag, ast.Constant) and flag.value is True
        # the key is the variable of an enclosing `for <key> in range(...)`
        key = d.args[0] if d.args else None
        loops = [lp for lp in ast.walk(fn) if isinstance(lp, ast.For) and any(x is d for x in ast.walk(lp))]
        if not (isinstance(key, ast.Name) and any(isinstance(lp.target, ast.Name) and lp.target.id == key.id and isinstance(lp.iter, ast.Call)
                                                  and ast.unparse(lp.iter.func) == 'range' and len(lp.iter.args) == 1 for lp in loops)):
            raise TranslateError(f'_lmp_write_visibility: line {d.lineno}: the key of a deferred slot is not the variable of a `for k in range(n)` loop')
    last_set = max((s_.lineno, s_.col_offset) for s_ in sets)
    filled = len(finals) == 1 and not finals[0].args and (finals[0].lineno, finals[0].col_offset) > last_set and \
        not any(isinstance(lp, (ast.For, ast.While, ast.If)) and any(x is finals[0] for x in ast.walk(lp)) for lp in ast.walk(fn)) and \
        all((r.lineno, r.col_offset) > (finals[0].lineno, finals[0].col_offset) for r in ast.walk(fn)
            if isinstance(r, ast.Return) and r.value is not None and not (isinstance(r.value, ast.Constant)))
    return reserved and filled, f'reserved={reserved} filled={filled} ({len(defers)} defer, {len(sets)} set_data, {len(finals)} write)'


def nl(xs: list[int]) -> str:
    return '[' + '; '.join(str(x) for x in xs) + ']%N'


def translate() -> tuple[str, dict]:
    from translate import c11_dedup, c11_helpers, c11_norm, c11_records
    tree = c11_norm.module(src_text('bsp.py'))
    # the statement-shape matchers of this module read a normalised copy (constants, aliases, single-use locals, early continue)
    gtree = c11_norm.functions(tree, NORMALISED)
    r_expr, r_passes, r_src = vis_reader(gtree)
    w_expr, w_guard, w_src = vis_writer(gtree)
    tx = textures(gtree)
    vo_w, vo_r = vis_offset_order(gtree)
    vd_ok, vd_src = vis_deferred_usage(gtree)
    rec_text, rec_side = c11_records.generate(tree)
    et = ent_text(gtree)
    dd_text, dd_side = c11_dedup.generate(tree)
    hp_text, hp_side = c11_helpers.generate(tree)
    from translate import c11_overlayrec
    ov_text, ov_side = c11_overlayrec.generate(tree)
    # loops over index tables and the rebuild order are read from the tree as written (the normalisation drops `list(...)` around
    # a loop's iterable where that is harmless; whether it is harmless is exactly the question here)
    from translate import c11_worklist
    wl_text, wl_side = c11_worklist.generate(ast.parse(src_text('bsp.py')))
    from translate import c11_phys, c11_spritedict
    sd_text, sd_side = c11_spritedict.generate(tree)
    ph_text, ph_side = c11_phys.generate(c11_norm.functions(tree, {'_lmp_write_bmodels', '_lmp_read_bmodels'}))
    # which static-prop format reader and writer settle on: tabulated by executing the source as written
    from translate import c11_propver
    pv_text, pv_side = c11_propver.generate(ast.parse(src_text('bsp.py')))
    # in which order save() takes a view out of the cache, runs its writer and stores the bytes
    from translate import c11_savecommit
    sc_text, sc_side = c11_savecommit.generate(ast.parse(src_text('bsp.py')))
    L = ['(* GENERATED by translate/c11_glue.py + c11_records.py + c11_dedup.py + c11_helpers.py + c11_overlayrec.py + c11_worklist.py + c11_phys.py + c11_spritedict.py + c11_propver.py + c11_savecommit.py from src/srctools/bsp.py, binformat.py, vmf.py. Do not edit. *)',
         'From Coq Require Import List String NArith ZArith.',
         'From SV Require Import Fmt.BspVisRow Fmt.BspTexStrings Fmt.BspRecords Fmt.BspEntLump Fmt.BspDedup Fmt.BspFlagSplit Fmt.BspOverlayRec Fmt.BspWorklist Fmt.BspPhys Bin.BspDeferred Fmt.BspSpriteDict Fmt.BspPropVersion Fmt.BspSaveCommit.',
         'Import ListNotations.', 'Open Scope string_scope.',
         f'(* runlength_decode: {r_src} *)',
         f'Definition vis_row_reader : rexp := {r_expr}.',
         f'Definition vis_reader_passes_cluster_count : bool := {"true" if r_passes else "false"}.',
         f'(* _lmp_write_visibility: {w_src} *)',
         f'Definition vis_row_writer : rexp := {w_expr}.',
         f'Definition vis_writer_checks_row_length : bool := {"true" if w_guard else "false"}.',
         '(* which row set the two offsets of a header entry point at: writer (set_data arguments), reader (unpack targets) *)',
         'Definition vis_offset_order : list string * list string := ([' + '; '.join(f'"{x}"' for x in vo_w) + '], [' + '; '.join(f'"{x}"' for x in vo_r) + ']).',
         f'(* DeferredWrites in _lmp_write_visibility: {vd_src} *)',
         f'Definition vis_deferred_usage_ok : bool := {"true" if vd_ok else "false"}.',
         f'Definition tex_cfg : texcfg := ({nl(tx["search_suffix"])}, {nl(tx["append_suffix"])}, {tx["maxlen"]}%nat, {tx["window"]}%nat).',
         f'Definition tex_codec_same : bool := {"true" if tx["codec_same"] else "false"}.',
         f'Definition ent_cfg : entcfg := ({et["key_mode"]}, {et["value_mode"]}, {et["out_name_mode"]}, [{"; ".join(et["out_field_modes"])}]).',
         f'Definition ent_output_sep : N := {et["output_sep"]}%N.',
         rec_text, dd_text, hp_text, ov_text, wl_text, ph_text, sd_text, pv_text, sc_text, '']
    side = {'vis_row_reader': r_src, 'vis_row_writer': w_src, 'vis_reader_passes_cluster_count': r_passes,
            'vis_writer_checks_row_length': w_guard, 'textures': tx}
    side['ent_text'] = et
    side['vis_offset_order'] = [vo_w, vo_r]
    side['vis_deferred_usage'] = vd_src
    side.update(rec_side)
    side.update(dd_side)
    side.update(hp_side)
    side.update(ov_side)
    side.update(wl_side)
    side.update(ph_side)
    side.update(sd_side)
    side.update(pv_side)
    side.update(sc_side)
    return '\n'.join(L), side


GEN = {'BspGlue_gen': translate}
