"""C03 translator: ``Tokenizer._next_char`` as a table -> Gen/NextChar_gen.v.

``_next_char`` is the only place where the tokenizer touches its chunk source.  It is read here as

* the fast path: ``self._char_index += 1`` and ``return self._cur_chunk[self._char_index]`` guarded by ``IndexError``
  (emitted as ``nc_fast_path``: 1 = exactly that);
* the refill part, *executed on abstract values* once for every thing the chunk iterator can do next:
  0 yields a ``bytes`` object, 1 yields another non-``str`` object, 2 yields the empty string, 3 yields a non-empty string,
  4 is exhausted, 5 raises ``UnicodeDecodeError``, 6 raises any other exception; the outcome is one of
  0 skip (ask the iterator again), 1 take (``_cur_chunk = chunk``, ``_char_index = 0``, return its first character),
  2 raise ``ValueError``, 3 return ``None`` (state untouched), 4 raise ``self.error('Could not decode file!')`` with the decode
  error as cause, 5 the iterator's exception propagates, 8 ``self.error`` with another text / without cause, 9 anything else.

Whether the rows are the ones of the model (Text/NextChar.v ``nc_spec``) is the instance obligation
``next_char_rows_are_the_model``; under it ``NextChar.xnext`` on a source of ``str`` chunks IS ``Prog.cnext``, the reader all
chunk-independence theorems are about.  Fail-closed on any statement outside this small language."""
from __future__ import annotations

import ast

from harness.common import TranslateError, src_text

K_BYTES, K_NONSTR, K_EMPTY, K_STR, K_EXHAUSTED, K_DECODE, K_OTHER_EXC = range(7)
A_SKIP, A_TAKE, A_VALUEERROR, A_NONE, A_ERROR, A_PROPAGATE, A_ERROR_OTHER, A_BAD = 0, 1, 2, 3, 4, 5, 8, 9
DECODE_MESSAGE = 'Could not decode file!'


class _Done(Exception):
    def __init__(self, action: int) -> None:
        self.action = action


class _Exc(Exception):
    """A Python exception raised in the abstract run: name of its class (and, for a decode error, that it is one)."""
    def __init__(self, name: str) -> None:
        self.name = name


class _Next(Exception):
    pass


def _fail(n: ast.AST | None, why: str) -> TranslateError:
    return TranslateError(f'tokenizer.py:{getattr(n, "lineno", "?")}: _next_char: {why}' + (f': `{ast.unparse(n)[:100]}`' if n is not None else ''))


_BASES = {'UnicodeDecodeError': {'UnicodeDecodeError', 'UnicodeError', 'ValueError', 'Exception', 'BaseException'},
          'RuntimeError': {'RuntimeError', 'Exception', 'BaseException'},
          'ValueError': {'ValueError', 'Exception', 'BaseException'},
          'IndexError': {'IndexError', 'LookupError', 'Exception', 'BaseException'}}


class _Run:
    def __init__(self, k: int) -> None:
        self.k = k
        self.set_cur = False
        self.set_idx = False
        self.loopvar: str | None = None
        self.excvar: dict[str, str] = {}

    def is_chunk(self, n: ast.expr) -> bool:
        return isinstance(n, ast.Name) and n.id == self.loopvar

    def test(self, n: ast.expr) -> bool:
        if isinstance(n, ast.UnaryOp) and isinstance(n.op, ast.Not):
            return not self.test(n.operand)
        if isinstance(n, ast.BoolOp):
            vals = [self.test(v) for v in n.values]       # no side effects in this language
            return all(vals) if isinstance(n.op, ast.And) else any(vals)
        if isinstance(n, ast.Call) and isinstance(n.func, ast.Name) and n.func.id == 'isinstance' and len(n.args) == 2 and not n.keywords \
                and self.is_chunk(n.args[0]):
            ts = n.args[1].elts if isinstance(n.args[1], ast.Tuple) else [n.args[1]]
            names = set()
            for t in ts:
                if not (isinstance(t, ast.Name) and t.id in ('bytes', 'str', 'bytearray', 'memoryview')):
                    raise _fail(n, 'isinstance against a type outside the class partition')
                names.add(t.id)
            if self.k == K_BYTES:
                return 'bytes' in names
            if self.k == K_NONSTR:
                if names & {'bytearray', 'memoryview'}:
                    raise _fail(n, 'the class "other non-str object" is split by this test')
                return False
            return 'str' in names
        if self.is_chunk(n):
            if self.k in (K_EMPTY, K_STR):
                return self.k == K_STR
            raise _fail(n, 'truth value of a chunk that is not known to be a str')
        raise _fail(n, 'test not modelled')

    def run(self, stmts: list[ast.stmt]) -> None:
        for st in stmts:
            self.stmt(st)

    def stmt(self, st: ast.stmt) -> None:
        if isinstance(st, ast.Expr) and isinstance(st.value, ast.Constant):
            return
        if isinstance(st, ast.Pass):
            return
        if isinstance(st, ast.If):
            self.run(st.body if self.test(st.test) else st.orelse)
        elif isinstance(st, ast.Continue):
            raise _Next()
        elif isinstance(st, ast.Assign) and len(st.targets) == 1:
            t = ast.unparse(st.targets[0])
            if t == 'self._cur_chunk' and self.is_chunk(st.value) and self.k == K_STR:
                self.set_cur = True
            elif t == 'self._char_index' and isinstance(st.value, ast.Constant) and st.value.value == 0 and type(st.value.value) is int:
                self.set_idx = True
            else:
                raise _fail(st, 'assignment not modelled')
        elif isinstance(st, ast.Return):
            v = st.value
            if v is None or (isinstance(v, ast.Constant) and v.value is None):
                raise _Done(A_NONE if not (self.set_cur or self.set_idx) else A_BAD)
            first = isinstance(v, ast.Subscript) and isinstance(v.slice, ast.Constant) and v.slice.value == 0 and \
                (self.is_chunk(v.value) or (ast.unparse(v.value) == 'self._cur_chunk' and self.set_cur))
            if first and self.k == K_STR:
                raise _Done(A_TAKE if (self.set_cur and self.set_idx) else A_BAD)
            raise _fail(st, 'return value not modelled')
        elif isinstance(st, ast.Raise):
            e = st.exc
            if isinstance(e, ast.Call) and isinstance(e.func, ast.Name) and e.func.id in ('ValueError', 'TypeError', 'RuntimeError'):
                raise _Exc(e.func.id)
            if isinstance(e, ast.Call) and ast.unparse(e.func) == 'self.error' and len(e.args) == 1 and not e.keywords \
                    and isinstance(e.args[0], ast.Constant) and isinstance(e.args[0].value, str):
                caused = isinstance(st.cause, ast.Name) and self.excvar.get(st.cause.id) == 'UnicodeDecodeError'
                raise _Done(A_ERROR if (e.args[0].value == DECODE_MESSAGE and caused) else A_ERROR_OTHER)
            if e is None:
                raise _Exc('reraise')
            raise _fail(st, 'raise not modelled')
        elif isinstance(st, ast.For):
            if ast.unparse(st.iter) != 'self._chunk_iter' or not isinstance(st.target, ast.Name) or self.loopvar is not None:
                raise _fail(st, 'loop not modelled')
            self.loopvar = st.target.id
            if self.k in (K_DECODE, K_OTHER_EXC):
                raise _Exc('UnicodeDecodeError' if self.k == K_DECODE else 'RuntimeError')
            if self.k != K_EXHAUSTED:
                try:
                    self.run(st.body)
                except _Next:
                    pass
                if self.set_cur or self.set_idx:
                    raise _Done(A_BAD)
                raise _Done(A_SKIP)        # the loop asks the iterator again
            self.loopvar = None
            self.run(st.orelse)
        elif isinstance(st, ast.Try):
            if st.finalbody:
                raise _fail(st, 'try/finally not modelled')
            try:
                self.run(st.body)
            except _Exc as x:
                for h in st.handlers:
                    names = [h.type] if not isinstance(h.type, ast.Tuple) else list(h.type.elts)
                    ok = h.type is None or any(isinstance(t, ast.Name) and t.id in _BASES.get(x.name, {x.name}) for t in names)
                    if ok:
                        if h.name:
                            self.excvar[h.name] = x.name
                        try:
                            self.run(h.body)
                        except _Exc as y:
                            if y.name == 'reraise':
                                raise _Exc(x.name) from None
                            raise
                        return
                raise
            else:
                self.run(st.orelse)
        else:
            raise _fail(st, 'statement not modelled')


def rows_of_source(text: str) -> tuple[int, list[tuple[int, int]]]:
    mod = ast.parse(text)
    cls = next((n for n in mod.body if isinstance(n, ast.ClassDef) and n.name == 'Tokenizer'), None)
    f = next((m for m in (cls.body if cls else []) if isinstance(m, ast.FunctionDef) and m.name == '_next_char'), None)
    if f is None:
        raise TranslateError('Tokenizer._next_char not found')
    body = list(f.body)
    if body and isinstance(body[0], ast.Expr) and isinstance(body[0].value, ast.Constant):
        body = body[1:]
    fast = 0
    refill: list[ast.stmt] | None = None
    if len(body) == 2 and isinstance(body[0], ast.AugAssign) and ast.unparse(body[0]) == 'self._char_index += 1' and isinstance(body[1], ast.Try):
        t = body[1]
        if len(t.body) == 1 and isinstance(t.body[0], ast.Return) and t.body[0].value is not None \
                and ast.unparse(t.body[0].value) == 'self._cur_chunk[self._char_index]' and len(t.handlers) == 1 and not t.orelse and not t.finalbody \
                and isinstance(t.handlers[0].type, ast.Name) and t.handlers[0].type.id == 'IndexError' and not t.handlers[0].name:
            fast, refill = 1, t.handlers[0].body
    if refill is None:
        raise _fail(f, 'the fast path is not `self._char_index += 1; try: return self._cur_chunk[self._char_index] except IndexError: <refill>`')
    rows = []
    for k in range(7):
        r = _Run(k)
        try:
            r.run(refill)
            act = A_BAD               # fell off the end: returns None implicitly ...
            if not (r.set_cur or r.set_idx):
                act = A_NONE
        except _Done as d:
            act = d.action
        except _Exc as x:
            act = A_VALUEERROR if x.name == 'ValueError' and k in (K_BYTES, K_NONSTR) else A_PROPAGATE if k in (K_DECODE, K_OTHER_EXC) and x.name != 'ValueError' else A_BAD
            if k == K_DECODE and x.name == 'UnicodeDecodeError':
                act = A_PROPAGATE
        except _Next:
            act = A_BAD
        rows.append((k, act))
    return fast, rows


def translate() -> tuple[str, dict]:
    fast, rows = rows_of_source(src_text('tokenizer.py'))
    lines = [
        '(* GENERATED by translate/c03_nextchar.py from /repo/src/srctools/tokenizer.py (Tokenizer._next_char). Do not edit. *)',
        'From Coq Require Import NArith List.', 'Import ListNotations.', 'Open Scope N_scope.',
        '(* what the chunk iterator does next: 0 yields bytes, 1 yields another non-str object, 2 yields the empty string, 3 yields a non-empty',
        '   string, 4 is exhausted, 5 raises UnicodeDecodeError, 6 raises another exception  ->  0 ask again, 1 take the chunk and return its first',
        '   character, 2 ValueError, 3 return None, 4 self.error(Could not decode file!) from the decode error, 5 the exception propagates *)',
        f'Definition nc_fast_path : N := {fast}.',
        'Definition nc_rows : list (N * N) := [' + '; '.join(f'({k}, {a})' for k, a in rows) + '].',
        '',
    ]
    names = ['bytes', 'non-str', 'empty str', 'non-empty str', 'exhausted', 'UnicodeDecodeError', 'other exception']
    acts = {0: 'ask again', 1: 'take', 2: 'ValueError', 3: 'return None', 4: 'self.error(decode)', 5: 'propagates', 8: 'self.error(other text / no cause)', 9: 'not modelled'}
    return '\n'.join(lines), {'fast_path': fast, 'rows': {names[k]: acts.get(a, a) for k, a in rows}}


EMPTY_GEN = ('(* GENERATED by translate/c03_nextchar.py: the translator FAILED CLOSED. *)\nFrom Coq Require Import NArith List.\nImport ListNotations.\n'
             'Open Scope N_scope.\nDefinition nc_fast_path : N := 0.\nDefinition nc_rows : list (N * N) := [].\n')

GEN = {'NextChar_gen': translate}
