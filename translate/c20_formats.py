"""C20 translators (fail-closed, Python ast):

* `CmdSeqFmt_gen`  from cmdseq.py: the header bytes, both struct format strings (as field lists), the widths used
  by pad_string / file.read, the float version tag (as float32 bit pattern) and the reader's threshold comparison, the
  order in which `write` passes fields to ST_COMMAND.pack and `Command.parse` receives them, the SpecialCommand table.
  Result: `gen_cfg : cfg` (the record the theorems of Fmt/CmdSeqProofs.v quantify over) plus side tables that the
  instance obligations compare.
* `SmdTpl_gen` from smd.py: every line `Mesh.export` can write, as a sequence of literal / conversion pieces, obtained by
  walking the statements of `export` (loops unrolled 0, 1 and 2 times, both arms of every `if`) and cutting at newlines.
"""
from __future__ import annotations

import ast
import re
import struct

from harness.common import TranslateError, src_text, ast_digest


# ================================================================================================ cmdseq

def _const_bytes(node: ast.AST, what: str) -> bytes:
    if isinstance(node, ast.Constant) and isinstance(node.value, bytes):
        return node.value
    raise TranslateError(f'cmdseq.py: {what}: expected a bytes literal, got `{ast.unparse(node)}`')


def _struct_fields(fmt: str, what: str) -> tuple[bool, list[tuple[str, int]]]:
    """Parse a struct format of the dialect used in cmdseq.py: optional byte-order prefix, then B / i / I / <n>s."""
    native = True
    if fmt and fmt[0] in '<>=!@':
        if fmt[0] != '@':
            native = False
        fmt = fmt[1:]
    out = []
    pos = 0
    for m in re.finditer(r'(\d*)([A-Za-z?])', fmt):
        if m.start() != pos:
            raise TranslateError(f'cmdseq.py: {what}: cannot parse struct format {fmt!r}')
        pos = m.end()
        cnt, code = m.group(1), m.group(2)
        if code == 's':
            out.append(('s', int(cnt or '1')))
        elif code in ('B', 'i', 'I'):
            for _ in range(int(cnt or '1')):
                out.append((code, 1))
        else:
            raise TranslateError(f'cmdseq.py: {what}: struct code {code!r} is not modelled')
    if pos != len(fmt):
        raise TranslateError(f'cmdseq.py: {what}: cannot parse struct format {fmt!r}')
    return native, out


def _coq_fld(f: tuple[str, int]) -> str:
    code, n = f
    return {'B': 'FB', 'i': 'FI', 'I': 'FI'}.get(code) or f'FS {n}'


def _coq_bytes(b: bytes) -> str:
    return '[' + ';'.join(str(x) for x in b) + ']%N'


def _is_file_write(node: ast.AST, fname: str = 'file') -> ast.AST | None:
    """`file.write(X)` as an expression statement -> X."""
    if isinstance(node, ast.Expr) and isinstance(node.value, ast.Call):
        c = node.value
        if isinstance(c.func, ast.Attribute) and c.func.attr == 'write' and isinstance(c.func.value, ast.Name) \
                and c.func.value.id == fname and len(c.args) == 1 and not c.keywords:
            return c.args[0]
    return None


def _pack_call(node: ast.AST) -> tuple[str, ast.AST] | None:
    """pack('<fmt>', value) -> (fmt, value)"""
    if isinstance(node, ast.Call) and isinstance(node.func, ast.Name) and node.func.id == 'pack' and len(node.args) == 2 \
            and isinstance(node.args[0], ast.Constant) and isinstance(node.args[0].value, str):
        return node.args[0].value, node.args[1]
    return None


def _pad_call(node: ast.AST) -> tuple[str, int] | None:
    """pad_string(expr, N) -> (source of expr, N)"""
    if isinstance(node, ast.Call) and isinstance(node.func, ast.Name) and node.func.id == 'pad_string' and len(node.args) == 2 \
            and isinstance(node.args[1], ast.Constant) and isinstance(node.args[1].value, int):
        return ast.unparse(node.args[0]), node.args[1].value
    return None


def translate_cmdseq() -> tuple[str, dict]:
    tree = ast.parse(src_text('cmdseq.py'))
    side: dict = {}
    structs: dict[str, str] = {}
    header = None
    special_vals: dict[str, int] = {}
    special_names: dict[str, str] = {}
    funcs: dict[str, ast.FunctionDef] = {}
    cmd_parse = None
    for n in tree.body:
        if isinstance(n, ast.Assign) and len(n.targets) == 1 and isinstance(n.targets[0], ast.Name):
            nm = n.targets[0].id
            v = n.value
            if isinstance(v, ast.Call) and isinstance(v.func, ast.Name) and v.func.id == 'Struct' and len(v.args) == 1 \
                    and isinstance(v.args[0], ast.Constant) and isinstance(v.args[0].value, str):
                structs[nm] = v.args[0].value
            elif nm == 'SEQ_HEADER':
                header = _const_bytes(v, 'SEQ_HEADER')
            elif nm == 'SPECIAL_NAMES':
                if not isinstance(v, ast.Dict):
                    raise TranslateError('cmdseq.py: SPECIAL_NAMES is not a dict literal')
                for k, val in zip(v.keys, v.values):
                    if not (isinstance(k, ast.Attribute) and isinstance(k.value, ast.Name) and k.value.id == 'SpecialCommand'
                            and isinstance(val, ast.Constant) and isinstance(val.value, str)):
                        raise TranslateError(f'cmdseq.py: SPECIAL_NAMES entry `{ast.unparse(k)}` not recognised')
                    special_names[k.attr] = val.value
        elif isinstance(n, ast.ClassDef) and n.name == 'SpecialCommand':
            for st in n.body:
                if isinstance(st, ast.Assign) and isinstance(st.targets[0], ast.Name) and isinstance(st.value, ast.Constant) \
                        and isinstance(st.value.value, int):
                    special_vals[st.targets[0].id] = st.value.value
                elif isinstance(st, ast.Expr) and isinstance(st.value, ast.Constant):
                    pass
                else:
                    raise TranslateError(f'cmdseq.py: SpecialCommand member `{ast.unparse(st)}` not recognised')
        elif isinstance(n, ast.ClassDef) and n.name == 'Command':
            for st in n.body:
                if isinstance(st, ast.FunctionDef) and st.name == 'parse':
                    cmd_parse = st
        elif isinstance(n, ast.FunctionDef):
            funcs[n.name] = n
    for need in ('ST_COMMAND', 'ST_COMMAND_PRE_V2'):
        if need not in structs:
            raise TranslateError(f'cmdseq.py: {need} = Struct(...) not found')
    if header is None or cmd_parse is None or not special_vals:
        raise TranslateError('cmdseq.py: SEQ_HEADER / Command.parse / SpecialCommand not found')
    if set(special_vals) != set(special_names):
        raise TranslateError('cmdseq.py: SPECIAL_NAMES does not cover SpecialCommand exactly')
    for need in ('parse', 'write', 'pad_string', 'strip_cstring'):
        if need not in funcs:
            raise TranslateError(f'cmdseq.py: function {need} not found')
    nat2, f2 = _struct_fields(structs['ST_COMMAND'], 'ST_COMMAND')
    nat1, f1 = _struct_fields(structs['ST_COMMAND_PRE_V2'], 'ST_COMMAND_PRE_V2')
    if not (nat1 and nat2):
        raise TranslateError('cmdseq.py: command structs are no longer native-aligned; the layout model does not apply')

    # ---- write(): sequence of file.write calls
    w = funcs['write']
    version_bits = None
    version_src = None
    name_w = None
    count_fmts: list[str] = []
    pack_struct = None
    pack_args: list[str] = []
    pad_widths: dict[str, int] = {}
    ensure_blank = None
    writes_seen = 0
    for node in ast.walk(w):
        if isinstance(node, ast.Call) and isinstance(node.func, ast.Attribute) and node.func.attr == 'write':
            writes_seen += 1
            arg = node.args[0]
            pk = _pack_call(arg)
            pd = _pad_call(arg)
            if isinstance(arg, ast.Name) and arg.id == 'SEQ_HEADER':
                continue
            if pk is not None:
                fmt, val = pk
                if fmt.lstrip('<@=') == 'f':
                    if not (isinstance(val, ast.Constant) and isinstance(val.value, float)):
                        raise TranslateError('cmdseq.py: write(): version tag is not a float literal')
                    version_src = val.value
                    version_bits = struct.unpack('<I', struct.pack('<f', val.value))[0]
                elif fmt.lstrip('<@=') == 'I':
                    count_fmts.append(ast.unparse(val))
                else:
                    raise TranslateError(f'cmdseq.py: write(): pack format {fmt!r} not recognised')
                continue
            if pd is not None:
                if pd[0] != 'name':
                    raise TranslateError(f'cmdseq.py: write(): unexpected pad_string({pd[0]}, ...) written directly')
                name_w = pd[1]
                continue
            if isinstance(arg, ast.Call) and isinstance(arg.func, ast.Attribute) and arg.func.attr == 'pack' \
                    and isinstance(arg.func.value, ast.Name) and arg.func.value.id in structs:
                if pack_struct is not None:
                    raise TranslateError('cmdseq.py: write(): more than one struct pack call')
                pack_struct = arg.func.value.id
                for a in arg.args:
                    p = _pad_call(a)
                    if p is not None:
                        pad_widths[p[0]] = p[1]
                        pack_args.append('pad:' + p[0])
                    else:
                        pack_args.append(ast.unparse(a))
                continue
            raise TranslateError(f'cmdseq.py: write(): unrecognised write `{ast.unparse(arg)}` (line {node.lineno})')
        if isinstance(node, ast.Assign) and ast.unparse(node.targets[0]) == 'ensure_file':
            p = _pad_call(node.value)
            if p is not None:
                pad_widths['ensure:' + p[0]] = p[1]
            elif isinstance(node.value, ast.Call) and isinstance(node.value.func, ast.Name) and node.value.func.id == 'bytes' \
                    and len(node.value.args) == 1 and isinstance(node.value.args[0], ast.Constant):
                ensure_blank = node.value.args[0].value
            else:
                raise TranslateError(f'cmdseq.py: write(): ensure_file = `{ast.unparse(node.value)}` not recognised')
    if version_bits is None or name_w is None or pack_struct is None or ensure_blank is None:
        raise TranslateError('cmdseq.py: write(): version tag / name padding / struct pack / blank ensure_file not found')
    WMAP = {'cmd.enabled': 'KEnabled', 'special': 'KSpecial', 'pad:exe': 'KExe', 'pad:cmd.args': 'KArgs', 'True': 'KLong',
            'has_ensure_file': 'KEnsureCheck', 'ensure_file': 'KEnsureFile', 'cmd.use_proc_win': 'KProcWin', 'cmd.no_wait': 'KNoWait'}
    try:
        write_order = [WMAP[a] for a in pack_args]
    except KeyError as e:
        raise TranslateError(f'cmdseq.py: write(): struct pack argument {e} not recognised') from None
    if count_fmts != ['len(sequences)', 'len(commands)']:
        raise TranslateError(f'cmdseq.py: write(): count fields {count_fmts} not recognised')

    # ---- Command.parse parameter order
    PMAP = {'is_enabled': 'KEnabled', 'is_special': 'KSpecial', 'executable': 'KExe', 'args': 'KArgs', 'is_long_filename': 'KLong',
            'ensure_check': 'KEnsureCheck', 'ensure_file': 'KEnsureFile', 'use_proc_win': 'KProcWin', 'no_wait': 'KNoWait'}
    params = [a.arg for a in cmd_parse.args.args][1:]
    try:
        parse_order = [PMAP[p] for p in params]
    except KeyError as e:
        raise TranslateError(f'cmdseq.py: Command.parse parameter {e} not recognised') from None

    # ---- parse(): widths, threshold, struct choice
    p = funcs['parse']
    thr = None
    lt_struct = ge_struct = None
    read_name_w = None
    read_counts = 0
    for node in ast.walk(p):
        if isinstance(node, ast.If) and isinstance(node.test, ast.Compare) and ast.unparse(node.test.left) == 'version':
            if len(node.test.ops) != 1 or not isinstance(node.test.comparators[0], ast.Constant):
                raise TranslateError('cmdseq.py: parse(): version test not recognised')
            op = type(node.test.ops[0]).__name__
            thr = (op, float(node.test.comparators[0].value))

            def tgt(body):
                if len(body) == 1 and isinstance(body[0], ast.Assign) and ast.unparse(body[0].targets[0]) == 'cmd_struct' \
                        and isinstance(body[0].value, ast.Name):
                    return body[0].value.id
                raise TranslateError('cmdseq.py: parse(): struct selection not recognised')
            lt_struct, ge_struct = tgt(node.body), tgt(node.orelse)
        if isinstance(node, ast.Call) and ast.unparse(node.func) == 'strip_cstring' and len(node.args) == 1:
            a = node.args[0]
            if isinstance(a, ast.Call) and ast.unparse(a.func) == 'file.read' and isinstance(a.args[0], ast.Constant):
                read_name_w = a.args[0].value
        if isinstance(node, ast.Call) and isinstance(node.func, ast.Name) and node.func.id == 'unpack' \
                and isinstance(node.args[0], ast.Constant) and node.args[0].value.lstrip('<@=') == 'I':
            read_counts += 1
    if thr is None or read_name_w is None or read_counts != 2:
        raise TranslateError('cmdseq.py: parse(): version test / name width / count reads not recognised')
    if thr[0] not in ('Lt', 'LtE'):
        raise TranslateError(f'cmdseq.py: parse(): version comparison {thr[0]} not modelled')
    num, den = thr[1].as_integer_ratio()
    if den & (den - 1) or num <= 0:
        raise TranslateError('cmdseq.py: parse(): threshold is not a positive dyadic rational')
    sp = sorted(special_vals.items(), key=lambda kv: kv[1])
    lines = [
        '(* GENERATED by translate/c20_formats.py from /repo/src/srctools/cmdseq.py. Do not edit. *)',
        'From Coq Require Import NArith ZArith List Bool.', 'Import ListNotations.',
        'From SV Require Import Fmt.CmdSeq.',
        f'Definition cs_fmt_v2 : list fld := [{"; ".join(_coq_fld(f) for f in f2)}].   (* {structs["ST_COMMAND"]} *)',
        f'Definition cs_fmt_v1 : list fld := [{"; ".join(_coq_fld(f) for f in f1)}].   (* {structs["ST_COMMAND_PRE_V2"]} *)',
        f'Definition cs_write_struct_is_v2 : bool := {"true" if pack_struct == "ST_COMMAND" else "false"}.',
        f'Definition cs_read_ge_struct_is_v2 : bool := {"true" if ge_struct == "ST_COMMAND" else "false"}.',
        f'Definition cs_read_lt_struct_is_v1 : bool := {"true" if lt_struct == "ST_COMMAND_PRE_V2" else "false"}.',
        f'Definition cs_name_width_write : nat := {name_w}.',
        f'Definition cs_name_width_read : nat := {read_name_w}.',
        f'Definition cs_pad_exe : nat := {pad_widths.get("exe", 0)}.',
        f'Definition cs_pad_args : nat := {pad_widths.get("cmd.args", 0)}.',
        f'Definition cs_pad_ensure : nat := {pad_widths.get("ensure:cmd.ensure_file", 0)}.',
        f'Definition cs_blank_ensure : nat := {ensure_blank}.',
        'Inductive fkey := KEnabled | KSpecial | KExe | KArgs | KLong | KEnsureCheck | KEnsureFile | KProcWin | KNoWait.',
        f'Definition cs_write_order : list fkey := [{"; ".join(write_order)}].',
        f'Definition cs_parse_order : list fkey := [{"; ".join(parse_order)}].',
        f'Definition cs_threshold_is_strict : bool := {"true" if thr[0] == "Lt" else "false"}.',
        'Definition fkey_eqb (a b : fkey) : bool := match a, b with KEnabled, KEnabled | KSpecial, KSpecial | KExe, KExe | KArgs, KArgs '
        '| KLong, KLong | KEnsureCheck, KEnsureCheck | KEnsureFile, KEnsureFile | KProcWin, KProcWin | KNoWait, KNoWait => true | _, _ => false end.',
        'Fixpoint fkeys_eqb (a b : list fkey) : bool := match a, b with [], [] => true | x :: a\', y :: b\' => fkey_eqb x y && fkeys_eqb a\' b\' | _, _ => false end.',
        '(* the order in which the model fills the record *)',
        'Definition cs_model_order : list fkey := [KEnabled; KSpecial; KExe; KArgs; KLong; KEnsureCheck; KEnsureFile; KProcWin; KNoWait].',
        'Definition gen_cfg : cfg := {|',
        f'  c_header := {_coq_bytes(header)};',
        f'  c_version_bits := {version_bits}%N;   (* struct.pack("<f", {version_src!r}) *)',
        f'  c_thr_num := {num}%Z; c_thr_log2den := {den.bit_length() - 1}%Z; c_thr_strict := cs_threshold_is_strict;   (* {thr[1]!r} as an exact rational *)',
        '  c_name_w := cs_name_width_read;',
        '  c_fmt_v2 := cs_fmt_v2; c_fmt_v1 := cs_fmt_v1;',
        '  c_exe_w := cs_pad_exe; c_args_w := cs_pad_args; c_ens_w := cs_pad_ensure;',
        '  c_specials := [' + '; '.join(f'({v}%N, {_coq_bytes(special_names[k].encode("ascii"))})' for k, v in sp) + ']',
        '|}.',
        '',
    ]
    side.update(structs=structs, header=list(header), version_literal=version_src, version_bits=version_bits, threshold=thr,
                name_width=[name_w, read_name_w], pad_widths=pad_widths, write_order=write_order, parse_order=parse_order,
                specials={k: [v, special_names[k]] for k, v in sp}, writes_seen=writes_seen,
                digests={'write': ast_digest(w), 'parse': ast_digest(p), 'Command.parse': ast_digest(cmd_parse),
                         'pad_string': ast_digest(funcs['pad_string']), 'strip_cstring': ast_digest(funcs['strip_cstring'])})
    return '\n'.join(lines), side


# ================================================================================================ smd templates

_CONV = re.compile(rb'%(?:(%)|(\.(\d+))?([idfs]))')


def _printf_pieces(tpl: bytes, where: str) -> list[tuple]:
    out: list[tuple] = []
    pos = 0
    for m in _CONV.finditer(tpl):
        if b'%' in tpl[pos:m.start()]:
            raise TranslateError(f'smd.py: {where}: printf template {tpl!r} has a conversion that is not modelled')
        if m.start() > pos:
            out.append(('Lit', tpl[pos:m.start()]))
        pos = m.end()
        if m.group(1):
            out.append(('Lit', b'%'))
        elif m.group(4) in (b'i', b'd'):
            if m.group(2):
                raise TranslateError(f'smd.py: {where}: precision on an integer conversion')
            out.append(('ConvInt',))
        elif m.group(4) == b'f':
            out.append(('ConvFloat', int(m.group(3)) if m.group(3) else 6))
        else:
            out.append(('ConvStr',))
    if b'%' in tpl[pos:]:
        raise TranslateError(f'smd.py: {where}: printf template {tpl!r} has a conversion that is not modelled')
    if pos < len(tpl):
        out.append(('Lit', tpl[pos:]))
    return out


def _write_pieces(arg: ast.AST, where: str) -> list[tuple]:
    if isinstance(arg, ast.Constant) and isinstance(arg.value, bytes):
        return [('Lit', arg.value)] if arg.value else []
    if isinstance(arg, ast.BinOp) and isinstance(arg.op, ast.Mod) and isinstance(arg.left, ast.Constant) and isinstance(arg.left.value, bytes):
        pcs = _printf_pieces(arg.left.value, where)
        nconv = sum(1 for p in pcs if p[0] != 'Lit')
        nargs = len(arg.right.elts) if isinstance(arg.right, ast.Tuple) else 1
        if nconv != nargs:
            raise TranslateError(f'smd.py: {where}: {nconv} conversions but {nargs} arguments')
        return pcs
    if isinstance(arg, ast.BinOp) and isinstance(arg.op, ast.Add):
        left, right = arg.left, arg.right
        if isinstance(left, ast.Call) and isinstance(left.func, ast.Attribute) and left.func.attr == 'encode':
            return [('ConvStr',)] + _write_pieces(right, where)
    raise TranslateError(f'smd.py: {where}: unrecognised write argument `{ast.unparse(arg)}`')


def _mentions_file(node: ast.AST) -> bool:
    return any(isinstance(n, ast.Name) and n.id == 'file' for n in ast.walk(node))


class _Lines:
    """Enumerate the lines a statement list can write: state = set of partial lines (tuples of pieces)."""

    def __init__(self) -> None:
        self.done: set[tuple] = set()
        self.census: list[dict] = []

    def emit(self, partials: set[tuple], pieces: list[tuple]) -> set[tuple]:
        out = set()
        for part in partials:
            cur = list(part)
            for pc in pieces:
                if pc[0] == 'Lit' and b'\n' in pc[1]:
                    segs = pc[1].split(b'\n')
                    for i, seg in enumerate(segs):
                        if seg:
                            cur.append(('Lit', seg))
                        if i < len(segs) - 1:
                            self.done.add(tuple(cur))
                            cur = []
                else:
                    cur.append(pc)
            if len(cur) > 64:
                raise TranslateError('smd.py: export(): a line grows without bound')
            out.add(tuple(cur))
        return out

    def block(self, stmts: list[ast.stmt], partials: set[tuple]) -> set[tuple]:
        for st in stmts:
            partials = self.stmt(st, partials)
        return partials

    def stmt(self, st: ast.stmt, partials: set[tuple]) -> set[tuple]:
        arg = _is_file_write(st)
        if arg is not None:
            pcs = _write_pieces(arg, f'line {st.lineno}')
            self.census.append({'line': st.lineno, 'pieces': [[p[0]] + [x.decode('latin1') if isinstance(x, bytes) else x for x in p[1:]] for p in pcs]})
            return self.emit(partials, pcs)
        if isinstance(st, ast.If):
            if _mentions_file(st.test):
                raise TranslateError(f'smd.py: line {st.lineno}: `file` used in a condition')
            return self.block(st.body, set(partials)) | self.block(st.orelse, set(partials))
        if isinstance(st, (ast.For, ast.While)):
            head = st.iter if isinstance(st, ast.For) else st.test
            if _mentions_file(head):
                raise TranslateError(f'smd.py: line {st.lineno}: `file` used in a loop header')
            if st.orelse:
                raise TranslateError(f'smd.py: line {st.lineno}: loop else-clause not modelled')
            p0 = set(partials)
            p1 = self.block(st.body, set(p0))
            p2 = self.block(st.body, set(p1))
            p3 = self.block(st.body, set(p2))     # a third turn must not create line shapes beyond bounded growth
            return p0 | p1 | p2 | p3
        if isinstance(st, (ast.Assign, ast.AnnAssign, ast.AugAssign, ast.Assert, ast.Pass, ast.Expr, ast.Delete)):
            if _mentions_file(st):
                raise TranslateError(f'smd.py: line {st.lineno}: `file` used outside a plain file.write(...) statement')
            return partials
        if isinstance(st, ast.Raise):
            return set()
        raise TranslateError(f'smd.py: line {st.lineno}: statement {type(st).__name__} not modelled in export()')


def _coq_piece(p: tuple) -> str:
    if p[0] == 'Lit':
        return f'Lit {_coq_bytes(p[1])}'
    if p[0] == 'ConvFloat':
        return f'ConvFloat {p[1]}'
    return p[0]


def translate_smd() -> tuple[str, dict]:
    tree = ast.parse(src_text('smd.py'))
    exp = None
    for n in tree.body:
        if isinstance(n, ast.ClassDef) and n.name == 'Mesh':
            for f in n.body:
                if isinstance(f, ast.FunctionDef) and f.name == 'export':
                    exp = f
    if exp is None:
        raise TranslateError('smd.py: Mesh.export not found')
    if [a.arg for a in exp.args.args] != ['self', 'file']:
        raise TranslateError('smd.py: Mesh.export signature changed')
    body = exp.body
    if body and isinstance(body[0], ast.Expr) and isinstance(body[0].value, ast.Constant) and isinstance(body[0].value.value, str):
        body = body[1:]
    L = _Lines()
    rest = L.block(body, {()})
    dangling = [p for p in rest if p]
    lines = sorted(L.done, key=lambda t: repr(t))
    out = [
        '(* GENERATED by translate/c20_formats.py from /repo/src/srctools/smd.py (Mesh.export). Do not edit. *)',
        'From Coq Require Import NArith List.', 'Import ListNotations.',
        'From SV Require Import Fmt.SmdTpl.',
        'Definition smd_lines : list line := [',
        ';\n'.join('  [' + '; '.join(_coq_piece(p) for p in ln) + ']' for ln in lines),
        '].',
        f'Definition smd_unterminated_lines : nat := {len(dangling)}.',
        '',
    ]
    side = {'n_lines': len(lines), 'write_sites': L.census, 'unterminated': len(dangling), 'export_digest': ast_digest(exp),
            'lines': [' '.join((p[1].decode('latin1') if p[0] == 'Lit' else '<' + p[0] + '>') for p in ln) for ln in lines]}
    return '\n'.join(out), side


GEN = {'CmdSeqFmt_gen': translate_cmdseq, 'SmdTpl_gen': translate_smd}
