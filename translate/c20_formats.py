"""C20 translators (fail-closed, Python ast):

* `CmdSeqFmt_gen`  from cmdseq.py: the header bytes, both struct format strings (as field lists), the widths used
  by pad_string / file.read, the float version tag (as float32 bit pattern) and the reader's threshold comparison, the
  order in which `write` passes fields to ST_COMMAND.pack and `Command.parse` receives them, the SpecialCommand table.
  Result: `gen_cfg : cfg` (the record the theorems of Fmt/CmdSeqProofs.v quantify over) plus side tables that the
  instance obligations compare.
* `SmdTpl_gen` from smd.py: every line `Mesh.export` can write, as a sequence of literal / conversion pieces, obtained by
  walking the statements of `export` (loops unrolled 0, 1 and 2 times, both arms of every `if`) and cutting at newlines.
"""
from __future__ import annotations

import ast
import re
import struct

from harness.common import TranslateError, src_text, ast_digest


# ================================================================================================ cmdseq

def _const_bytes(node: ast.AST, what: str) -> bytes:
    if isinstance(node, ast.Constant) and isinstance(node.value, bytes):
        return node.value
    raise TranslateError(f'cmdseq.py: {what}: expected a bytes literal, got `{ast.unparse(node)}`')


def _struct_fields(fmt: str, what: str) -> tuple[bool, list[tuple[str, int]]]:
    """Parse a struct format of the dialect used in cmdseq.py: optional byte-order prefix, then B / i / I / <n>s."""
    native = True
    if fmt and fmt[0] in '<>=!@':
        if fmt[0] != '@':
            native = False
        fmt = fmt[1:]
    out = []
    pos = 0
    for m in re.finditer(r'(\d*)([A-Za-z?])', fmt):
        if m.start() != pos:
            raise TranslateError(f'cmdseq.py: {what}: cannot parse struct format {fmt!r}')
        pos = m.end()
        cnt, code = m.group(1), m.group(2)
        if code == 's':
            out.append(('s', int(cnt or '1')))
        elif code in ('B', 'i', 'I'):
            for _ in range(int(cnt or '1')):
                out.append((code, 1))
        else:
            raise TranslateError(f'cmdseq.py: {what}: struct code {code!r} is not modelled')
    if pos != len(fmt):
        raise TranslateError(f'cmdseq.py: {what}: cannot parse struct format {fmt!r}')
    return native, out


def _coq_fld(f: tuple[str, int]) -> str:
    code, n = f
    return {'B': 'FB', 'i': 'FI', 'I': 'FI'}.get(code) or f'FS {n}'


def _coq_bytes(b: bytes) -> str:
    return '[' + ';'.join(str(x) for x in b) + ']%N'


def _is_file_write(node: ast.AST, fname: str = 'file') -> ast.AST | None:
    """`file.write(X)` as an expression statement -> X."""
    if isinstance(node, ast.Expr) and isinstance(node.value, ast.Call):
        c = node.value
        if isinstance(c.func, ast.Attribute) and c.func.attr == 'write' and isinstance(c.func.value, ast.Name) \
                and c.func.value.id == fname and len(c.args) == 1 and not c.keywords:
            return c.args[0]
    return None


def _struct_call(node: ast.AST, structs: dict[str, str]) -> tuple[str, str, list[ast.AST], str | None] | None:
    """Every spelling of a struct conversion -> (method, format, remaining arguments, name of the Struct constant or None):
    pack('<fmt>', v...) / struct.pack(...) / unpack(...) / struct.unpack(...)          module functions
    NAME.pack(v...) / NAME.unpack(b)   with NAME = Struct('<fmt>') at module level         precompiled constants
    Struct('<fmt>').pack(v...) / struct.Struct('<fmt>').unpack(b)                            inline objects"""
    if not isinstance(node, ast.Call) or node.keywords:
        return None
    f = node.func
    meth = f.id if isinstance(f, ast.Name) else f.attr if isinstance(f, ast.Attribute) else None
    if meth not in ('pack', 'unpack'):
        return None
    if isinstance(f, ast.Name) or (isinstance(f, ast.Attribute) and isinstance(f.value, ast.Name) and f.value.id == 'struct'):
        if node.args and isinstance(node.args[0], ast.Constant) and isinstance(node.args[0].value, str):
            return meth, node.args[0].value, list(node.args[1:]), None
        return None
    base = f.value
    if isinstance(base, ast.Name) and base.id in structs:
        return meth, structs[base.id], list(node.args), base.id
    if isinstance(base, ast.Call) and ast.unparse(base.func) in ('Struct', 'struct.Struct') and len(base.args) == 1 and not base.keywords \
            and isinstance(base.args[0], ast.Constant) and isinstance(base.args[0].value, str):
        return meth, base.args[0].value, list(node.args), None
    return None


def _module_structs(tree: ast.Module) -> dict[str, str]:
    """NAME = Struct('<fmt>') / struct.Struct('<fmt>') at module level (also annotated) -> {NAME: fmt}."""
    out: dict[str, str] = {}
    for n in tree.body:
        tgt = n.targets[0] if isinstance(n, ast.Assign) and len(n.targets) == 1 else n.target if isinstance(n, ast.AnnAssign) else None
        v = getattr(n, 'value', None)
        if isinstance(tgt, ast.Name) and isinstance(v, ast.Call) and ast.unparse(v.func) in ('Struct', 'struct.Struct') and len(v.args) == 1 \
                and not v.keywords and isinstance(v.args[0], ast.Constant) and isinstance(v.args[0].value, str):
            out[tgt.id] = v.args[0].value
    return out


def _fmt_arg(node: ast.AST, structs: dict[str, str]) -> str | None:
    """A struct format given as a string literal, a module-level Struct constant, or an inline Struct('<fmt>')."""
    if isinstance(node, ast.Constant) and isinstance(node.value, str):
        return node.value
    if isinstance(node, ast.Name) and node.id in structs:
        return structs[node.id]
    if isinstance(node, ast.Call) and ast.unparse(node.func) in ('Struct', 'struct.Struct') and len(node.args) == 1 and not node.keywords \
            and isinstance(node.args[0], ast.Constant) and isinstance(node.args[0].value, str):
        return node.args[0].value
    return None


def _pad_call(node: ast.AST) -> tuple[str, int] | None:
    """pad_string(expr, N) -> (source of expr, N)"""
    if isinstance(node, ast.Call) and isinstance(node.func, ast.Name) and node.func.id == 'pad_string' and len(node.args) == 2 \
            and isinstance(node.args[1], ast.Constant) and isinstance(node.args[1].value, int):
        return ast.unparse(node.args[0]), node.args[1].value
    return None


def translate_cmdseq() -> tuple[str, dict]:
    tree = ast.parse(src_text('cmdseq.py'))
    side: dict = {}
    structs: dict[str, str] = {}
    header = None
    special_vals: dict[str, int] = {}
    special_names: dict[str, str] = {}
    funcs: dict[str, ast.FunctionDef] = {}
    cmd_parse = None
    for n in tree.body:
        if isinstance(n, ast.Assign) and len(n.targets) == 1 and isinstance(n.targets[0], ast.Name):
            nm = n.targets[0].id
            v = n.value
            if isinstance(v, ast.Call) and ast.unparse(v.func) in ('Struct', 'struct.Struct') and len(v.args) == 1 and not v.keywords \
                    and isinstance(v.args[0], ast.Constant) and isinstance(v.args[0].value, str):
                structs[nm] = v.args[0].value
            elif nm == 'SEQ_HEADER':
                header = _const_bytes(v, 'SEQ_HEADER')
            elif nm == 'SPECIAL_NAMES':
                if not isinstance(v, ast.Dict):
                    raise TranslateError('cmdseq.py: SPECIAL_NAMES is not a dict literal')
                for k, val in zip(v.keys, v.values):
                    if not (isinstance(k, ast.Attribute) and isinstance(k.value, ast.Name) and k.value.id == 'SpecialCommand'
                            and isinstance(val, ast.Constant) and isinstance(val.value, str)):
                        raise TranslateError(f'cmdseq.py: SPECIAL_NAMES entry `{ast.unparse(k)}` not recognised')
                    special_names[k.attr] = val.value
        elif isinstance(n, ast.ClassDef) and n.name == 'SpecialCommand':
            for st in n.body:
                if isinstance(st, ast.Assign) and isinstance(st.targets[0], ast.Name) and isinstance(st.value, ast.Constant) \
                        and isinstance(st.value.value, int):
                    special_vals[st.targets[0].id] = st.value.value
                elif isinstance(st, ast.Expr) and isinstance(st.value, ast.Constant):
                    pass
                else:
                    raise TranslateError(f'cmdseq.py: SpecialCommand member `{ast.unparse(st)}` not recognised')
        elif isinstance(n, ast.ClassDef) and n.name == 'Command':
            for st in n.body:
                if isinstance(st, ast.FunctionDef) and st.name == 'parse':
                    cmd_parse = st
        elif isinstance(n, ast.FunctionDef):
            funcs[n.name] = n
    for need in ('ST_COMMAND', 'ST_COMMAND_PRE_V2'):
        if need not in structs:
            raise TranslateError(f'cmdseq.py: {need} = Struct(...) not found')
    if header is None or cmd_parse is None or not special_vals:
        raise TranslateError('cmdseq.py: SEQ_HEADER / Command.parse / SpecialCommand not found')
    if set(special_vals) != set(special_names):
        raise TranslateError('cmdseq.py: SPECIAL_NAMES does not cover SpecialCommand exactly')
    for need in ('parse', 'write', 'pad_string', 'strip_cstring'):
        if need not in funcs:
            raise TranslateError(f'cmdseq.py: function {need} not found')
    nat2, f2 = _struct_fields(structs['ST_COMMAND'], 'ST_COMMAND')
    nat1, f1 = _struct_fields(structs['ST_COMMAND_PRE_V2'], 'ST_COMMAND_PRE_V2')
    if not (nat1 and nat2):
        raise TranslateError('cmdseq.py: command structs are no longer native-aligned; the layout model does not apply')

    # ---- write(): sequence of file.write calls
    w = funcs['write']
    version_bits = None
    version_src = None
    name_w = None
    count_fmts: list[str] = []
    pack_struct = None
    pack_args: list[str] = []
    pad_widths: dict[str, int] = {}
    ensure_blank = None
    writes_seen = 0
    # locals of write() assigned exactly once, from a len(...) call: read through them
    assigned: dict[str, list[ast.AST]] = {}
    for node in ast.walk(w):
        for t in (node.targets if isinstance(node, ast.Assign) else [node.target] if isinstance(node, (ast.AugAssign, ast.AnnAssign, ast.For)) else []):
            for nm in ast.walk(t):
                if isinstance(nm, ast.Name):
                    assigned.setdefault(nm.id, []).append(node.value if isinstance(node, ast.Assign) and isinstance(t, ast.Name) else None)
    once = {k: v[0] for k, v in assigned.items() if len(v) == 1 and isinstance(v[0], ast.Call) and ast.unparse(v[0].func) == 'len'}
    for node in ast.walk(w):
        if isinstance(node, ast.Call) and isinstance(node.func, ast.Attribute) and node.func.attr == 'write':
            writes_seen += 1
            arg = node.args[0]
            sc = _struct_call(arg, structs)
            pk = (sc[1], sc[2][0]) if sc is not None and sc[0] == 'pack' and len(sc[2]) == 1 else None
            pd = _pad_call(arg)
            if isinstance(arg, ast.Name) and arg.id == 'SEQ_HEADER':
                continue
            if pk is not None:
                fmt, val = pk
                if fmt.lstrip('<@=') == 'f':
                    if not (isinstance(val, ast.Constant) and isinstance(val.value, float)):
                        raise TranslateError('cmdseq.py: write(): version tag is not a float literal')
                    version_src = val.value
                    version_bits = struct.unpack('<I', struct.pack('<f', val.value))[0]
                elif fmt.lstrip('<@=') == 'I':
                    if isinstance(val, ast.Name) and val.id in once:
                        val = once[val.id]           # n = len(xs); pack('I', n)
                    count_fmts.append(ast.unparse(val))
                else:
                    raise TranslateError(f'cmdseq.py: write(): pack format {fmt!r} not recognised')
                continue
            if pd is not None:
                if pd[0] != 'name':
                    raise TranslateError(f'cmdseq.py: write(): unexpected pad_string({pd[0]}, ...) written directly')
                name_w = pd[1]
                continue
            if sc is not None and sc[0] == 'pack' and sc[3] is not None:
                if pack_struct is not None:
                    raise TranslateError('cmdseq.py: write(): more than one struct pack call')
                pack_struct = sc[3]
                for a in sc[2]:
                    p = _pad_call(a)
                    if p is not None:
                        pad_widths[p[0]] = p[1]
                        pack_args.append('pad:' + p[0])
                    else:
                        pack_args.append(ast.unparse(a))
                continue
            raise TranslateError(f'cmdseq.py: write(): unrecognised write `{ast.unparse(arg)}` (line {node.lineno})')
        if isinstance(node, ast.Assign) and ast.unparse(node.targets[0]) == 'ensure_file':
            # both arms of `X if c else Y` are values the field can take, like the two branches of the statement form
            arms = [node.value]
            while any(isinstance(a, ast.IfExp) for a in arms):
                arms = [b for a in arms for b in ([a.body, a.orelse] if isinstance(a, ast.IfExp) else [a])]
            for arm in arms:
                p = _pad_call(arm)
                if p is not None:
                    pad_widths['ensure:' + p[0]] = p[1]
                elif isinstance(arm, ast.Call) and isinstance(arm.func, ast.Name) and arm.func.id == 'bytes' \
                        and len(arm.args) == 1 and isinstance(arm.args[0], ast.Constant):
                    ensure_blank = arm.args[0].value
                else:
                    raise TranslateError(f'cmdseq.py: write(): ensure_file = `{ast.unparse(node.value)}` not recognised')
    if version_bits is None or name_w is None or pack_struct is None or ensure_blank is None:
        raise TranslateError('cmdseq.py: write(): version tag / name padding / struct pack / blank ensure_file not found')
    WMAP = {'cmd.enabled': 'KEnabled', 'special': 'KSpecial', 'pad:exe': 'KExe', 'pad:cmd.args': 'KArgs', 'True': 'KLong',
            'has_ensure_file': 'KEnsureCheck', 'ensure_file': 'KEnsureFile', 'cmd.use_proc_win': 'KProcWin', 'cmd.no_wait': 'KNoWait'}
    try:
        write_order = [WMAP[a] for a in pack_args]
    except KeyError as e:
        raise TranslateError(f'cmdseq.py: write(): struct pack argument {e} not recognised') from None
    if count_fmts != ['len(sequences)', 'len(commands)']:
        raise TranslateError(f'cmdseq.py: write(): count fields {count_fmts} not recognised')

    # ---- Command.parse parameter order
    PMAP = {'is_enabled': 'KEnabled', 'is_special': 'KSpecial', 'executable': 'KExe', 'args': 'KArgs', 'is_long_filename': 'KLong',
            'ensure_check': 'KEnsureCheck', 'ensure_file': 'KEnsureFile', 'use_proc_win': 'KProcWin', 'no_wait': 'KNoWait'}
    params = [a.arg for a in cmd_parse.args.args][1:]
    try:
        parse_order = [PMAP[p] for p in params]
    except KeyError as e:
        raise TranslateError(f'cmdseq.py: Command.parse parameter {e} not recognised') from None

    # ---- parse(): widths, threshold, struct choice
    p = funcs['parse']
    thr = None
    lt_struct = ge_struct = None
    read_name_w = None
    read_counts = 0
    read_versions = 0
    for node in ast.walk(p):
        if isinstance(node, ast.If) and isinstance(node.test, ast.Compare) and ast.unparse(node.test.left) == 'version':
            if len(node.test.ops) != 1 or not isinstance(node.test.comparators[0], ast.Constant):
                raise TranslateError('cmdseq.py: parse(): version test not recognised')
            op = type(node.test.ops[0]).__name__
            thr = (op, float(node.test.comparators[0].value))

            def tgt(body):
                if len(body) == 1 and isinstance(body[0], ast.Assign) and ast.unparse(body[0].targets[0]) == 'cmd_struct' \
                        and isinstance(body[0].value, ast.Name):
                    return body[0].value.id
                raise TranslateError('cmdseq.py: parse(): struct selection not recognised')
            lt_struct, ge_struct = tgt(node.body), tgt(node.orelse)
        if isinstance(node, ast.Call) and ast.unparse(node.func) == 'strip_cstring' and len(node.args) == 1:
            a = node.args[0]
            if isinstance(a, ast.Call) and ast.unparse(a.func) == 'file.read' and isinstance(a.args[0], ast.Constant):
                read_name_w = a.args[0].value
        sc = _struct_call(node, structs)
        if sc is not None and sc[0] == 'unpack' and sc[1].lstrip('<@=') == 'I':
            read_counts += 1
        if sc is not None and sc[0] == 'unpack' and sc[1].lstrip('<@=') == 'f':
            read_versions += 1
    if thr is None or read_name_w is None or read_counts != 2 or read_versions != 1:
        raise TranslateError('cmdseq.py: parse(): version test / name width / count reads not recognised')
    if thr[0] not in ('Lt', 'LtE'):
        raise TranslateError(f'cmdseq.py: parse(): version comparison {thr[0]} not modelled')
    num, den = thr[1].as_integer_ratio()
    if den & (den - 1) or num <= 0:
        raise TranslateError('cmdseq.py: parse(): threshold is not a positive dyadic rational')
    sp = sorted(special_vals.items(), key=lambda kv: kv[1])
    lines = [
        '(* GENERATED by translate/c20_formats.py from /repo/src/srctools/cmdseq.py. Do not edit. *)',
        'From Coq Require Import NArith ZArith List Bool.', 'Import ListNotations.',
        'From SV Require Import Fmt.CmdSeq.',
        f'Definition cs_fmt_v2 : list fld := [{"; ".join(_coq_fld(f) for f in f2)}].   (* {structs["ST_COMMAND"]} *)',
        f'Definition cs_fmt_v1 : list fld := [{"; ".join(_coq_fld(f) for f in f1)}].   (* {structs["ST_COMMAND_PRE_V2"]} *)',
        f'Definition cs_write_struct_is_v2 : bool := {"true" if pack_struct == "ST_COMMAND" else "false"}.',
        f'Definition cs_read_ge_struct_is_v2 : bool := {"true" if ge_struct == "ST_COMMAND" else "false"}.',
        f'Definition cs_read_lt_struct_is_v1 : bool := {"true" if lt_struct == "ST_COMMAND_PRE_V2" else "false"}.',
        f'Definition cs_name_width_write : nat := {name_w}.',
        f'Definition cs_name_width_read : nat := {read_name_w}.',
        f'Definition cs_pad_exe : nat := {pad_widths.get("exe", 0)}.',
        f'Definition cs_pad_args : nat := {pad_widths.get("cmd.args", 0)}.',
        f'Definition cs_pad_ensure : nat := {pad_widths.get("ensure:cmd.ensure_file", 0)}.',
        f'Definition cs_blank_ensure : nat := {ensure_blank}.',
        'Inductive fkey := KEnabled | KSpecial | KExe | KArgs | KLong | KEnsureCheck | KEnsureFile | KProcWin | KNoWait.',
        f'Definition cs_write_order : list fkey := [{"; ".join(write_order)}].',
        f'Definition cs_parse_order : list fkey := [{"; ".join(parse_order)}].',
        f'Definition cs_threshold_is_strict : bool := {"true" if thr[0] == "Lt" else "false"}.',
        'Definition fkey_eqb (a b : fkey) : bool := match a, b with KEnabled, KEnabled | KSpecial, KSpecial | KExe, KExe | KArgs, KArgs '
        '| KLong, KLong | KEnsureCheck, KEnsureCheck | KEnsureFile, KEnsureFile | KProcWin, KProcWin | KNoWait, KNoWait => true | _, _ => false end.',
        'Fixpoint fkeys_eqb (a b : list fkey) : bool := match a, b with [], [] => true | x :: a\', y :: b\' => fkey_eqb x y && fkeys_eqb a\' b\' | _, _ => false end.',
        '(* the order in which the model fills the record *)',
        'Definition cs_model_order : list fkey := [KEnabled; KSpecial; KExe; KArgs; KLong; KEnsureCheck; KEnsureFile; KProcWin; KNoWait].',
        'Definition gen_cfg : cfg := {|',
        f'  c_header := {_coq_bytes(header)};',
        f'  c_version_bits := {version_bits}%N;   (* struct.pack("<f", {version_src!r}) *)',
        f'  c_thr_num := {num}%Z; c_thr_log2den := {den.bit_length() - 1}%Z; c_thr_strict := cs_threshold_is_strict;   (* {thr[1]!r} as an exact rational *)',
        '  c_name_w := cs_name_width_read;',
        '  c_fmt_v2 := cs_fmt_v2; c_fmt_v1 := cs_fmt_v1;',
        '  c_exe_w := cs_pad_exe; c_args_w := cs_pad_args; c_ens_w := cs_pad_ensure;',
        '  c_specials := [' + '; '.join(f'({v}%N, {_coq_bytes(special_names[k].encode("ascii"))})' for k, v in sp) + ']',
        '|}.',
        '',
    ]
    side.update(structs=structs, header=list(header), version_literal=version_src, version_bits=version_bits, threshold=thr,
                name_width=[name_w, read_name_w], pad_widths=pad_widths, write_order=write_order, parse_order=parse_order,
                specials={k: [v, special_names[k]] for k, v in sp}, writes_seen=writes_seen,
                digests={'write': ast_digest(w), 'parse': ast_digest(p), 'Command.parse': ast_digest(cmd_parse),
                         'pad_string': ast_digest(funcs['pad_string']), 'strip_cstring': ast_digest(funcs['strip_cstring'])})
    return '\n'.join(lines), side


# ================================================================================================ smd templates

_CONV = re.compile(rb'%(?:(%)|(\.(\d+))?([idfs]))')


def _printf_pieces(tpl: bytes, where: str) -> list[tuple]:
    out: list[tuple] = []
    pos = 0
    for m in _CONV.finditer(tpl):
        if b'%' in tpl[pos:m.start()]:
            raise TranslateError(f'smd.py: {where}: printf template {tpl!r} has a conversion that is not modelled')
        if m.start() > pos:
            out.append(('Lit', tpl[pos:m.start()]))
        pos = m.end()
        if m.group(1):
            out.append(('Lit', b'%'))
        elif m.group(4) in (b'i', b'd'):
            if m.group(2):
                raise TranslateError(f'smd.py: {where}: precision on an integer conversion')
            out.append(('ConvInt',))
        elif m.group(4) == b'f':
            out.append(('ConvFloat', int(m.group(3)) if m.group(3) else 6))
        else:
            out.append(('ConvStr',))
    if b'%' in tpl[pos:]:
        raise TranslateError(f'smd.py: {where}: printf template {tpl!r} has a conversion that is not modelled')
    if pos < len(tpl):
        out.append(('Lit', tpl[pos:]))
    return out


def _write_pieces(arg: ast.AST, where: str, consts: dict[str, bytes] | None = None) -> list[tuple]:
    consts = consts or {}
    if isinstance(arg, ast.Name) and arg.id in consts:
        arg = ast.copy_location(ast.Constant(value=consts[arg.id]), arg)
    if isinstance(arg, ast.BinOp) and isinstance(arg.left, ast.Name) and arg.left.id in consts:
        arg = ast.copy_location(ast.BinOp(left=ast.Constant(value=consts[arg.left.id]), op=arg.op, right=arg.right), arg)
    if isinstance(arg, ast.Constant) and isinstance(arg.value, bytes):
        return [('Lit', arg.value)] if arg.value else []
    if isinstance(arg, ast.BinOp) and isinstance(arg.op, ast.Mod) and isinstance(arg.left, ast.Constant) and isinstance(arg.left.value, bytes):
        pcs = _printf_pieces(arg.left.value, where)
        nconv = sum(1 for p in pcs if p[0] != 'Lit')
        nargs = len(arg.right.elts) if isinstance(arg.right, ast.Tuple) else 1
        if nconv != nargs:
            raise TranslateError(f'smd.py: {where}: {nconv} conversions but {nargs} arguments')
        return pcs
    if isinstance(arg, ast.BinOp) and isinstance(arg.op, ast.Add):
        left, right = arg.left, arg.right
        if isinstance(left, ast.Call) and isinstance(left.func, ast.Attribute) and left.func.attr == 'encode':
            return [('ConvStr',)] + _write_pieces(right, where, consts)
    raise TranslateError(f'smd.py: {where}: unrecognised write argument `{ast.unparse(arg)}`')


def _mentions_file(node: ast.AST) -> bool:
    return any(isinstance(n, ast.Name) and n.id == 'file' for n in ast.walk(node))


class _Lines:
    """Enumerate the lines a statement list can write: state = set of partial lines (tuples of pieces)."""

    def __init__(self, consts: dict[str, bytes] | None = None) -> None:
        self.done: set[tuple] = set()
        self.census: list[dict] = []
        self.consts: dict[str, bytes] = dict(consts or {})      # names bound to one bytes literal (module level or local)
        self.dead: set[str] = set()

    def emit(self, partials: set[tuple], pieces: list[tuple]) -> set[tuple]:
        out = set()
        for part in partials:
            cur = list(part)
            for pc in pieces:
                if pc[0] == 'Lit' and b'\n' in pc[1]:
                    segs = pc[1].split(b'\n')
                    for i, seg in enumerate(segs):
                        if seg:
                            cur.append(('Lit', seg))
                        if i < len(segs) - 1:
                            self.done.add(tuple(cur))
                            cur = []
                else:
                    cur.append(pc)
            if len(cur) > 64:
                raise TranslateError('smd.py: export(): a line grows without bound')
            out.add(tuple(cur))
        return out

    def block(self, stmts: list[ast.stmt], partials: set[tuple]) -> set[tuple]:
        for st in stmts:
            partials = self.stmt(st, partials)
        return partials

    def stmt(self, st: ast.stmt, partials: set[tuple]) -> set[tuple]:
        arg = _is_file_write(st)
        if arg is not None:
            pcs = _write_pieces(arg, f'line {st.lineno}', {k: v for k, v in self.consts.items() if k not in self.dead})
            self.census.append({'line': st.lineno, 'pieces': [[p[0]] + [x.decode('latin1') if isinstance(x, bytes) else x for x in p[1:]] for p in pcs]})
            return self.emit(partials, pcs)
        if isinstance(st, ast.If):
            if _mentions_file(st.test):
                raise TranslateError(f'smd.py: line {st.lineno}: `file` used in a condition')
            return self.block(st.body, set(partials)) | self.block(st.orelse, set(partials))
        if isinstance(st, (ast.For, ast.While)):
            head = st.iter if isinstance(st, ast.For) else st.test
            if _mentions_file(head):
                raise TranslateError(f'smd.py: line {st.lineno}: `file` used in a loop header')
            if st.orelse:
                raise TranslateError(f'smd.py: line {st.lineno}: loop else-clause not modelled')
            p0 = set(partials)
            p1 = self.block(st.body, set(p0))
            p2 = self.block(st.body, set(p1))
            p3 = self.block(st.body, set(p2))     # a third turn must not create line shapes beyond bounded growth
            return p0 | p1 | p2 | p3
        if isinstance(st, (ast.Assign, ast.AnnAssign, ast.AugAssign, ast.Assert, ast.Pass, ast.Expr, ast.Delete)):
            if _mentions_file(st):
                raise TranslateError(f'smd.py: line {st.lineno}: `file` used outside a plain file.write(...) statement')
            tgts = st.targets if isinstance(st, ast.Assign) else [st.target] if isinstance(st, (ast.AnnAssign, ast.AugAssign)) else []
            for t in tgts:
                for x in ast.walk(t):
                    if isinstance(x, ast.Name):
                        v = getattr(st, 'value', None)
                        if isinstance(st, ast.Assign) and len(tgts) == 1 and isinstance(t, ast.Name) and isinstance(v, ast.Constant) \
                                and isinstance(v.value, bytes) and x.id not in self.consts and x.id not in self.dead:
                            self.consts[x.id] = v.value
                        elif not (x.id in self.consts and isinstance(v, ast.Constant) and v.value == self.consts[x.id]):
                            self.dead.add(x.id)          # rebound to something else: no longer a known template
            return partials
        if isinstance(st, ast.Raise):
            return set()
        raise TranslateError(f'smd.py: line {st.lineno}: statement {type(st).__name__} not modelled in export()')


def _coq_piece(p: tuple) -> str:
    if p[0] == 'Lit':
        return f'Lit {_coq_bytes(p[1])}'
    if p[0] == 'ConvFloat':
        return f'ConvFloat {p[1]}'
    return p[0]


def translate_smd() -> tuple[str, dict]:
    tree = ast.parse(src_text('smd.py'))
    exp = None
    for n in tree.body:
        if isinstance(n, ast.ClassDef) and n.name == 'Mesh':
            for f in n.body:
                if isinstance(f, ast.FunctionDef) and f.name == 'export':
                    exp = f
    if exp is None:
        raise TranslateError('smd.py: Mesh.export not found')
    if [a.arg for a in exp.args.args] != ['self', 'file']:
        raise TranslateError('smd.py: Mesh.export signature changed')
    body = exp.body
    if body and isinstance(body[0], ast.Expr) and isinstance(body[0].value, ast.Constant) and isinstance(body[0].value.value, str):
        body = body[1:]
    # the regular expression Mesh._parse_smd_bones matches a nodes line with
    regex = None
    for n in tree.body:
        if isinstance(n, ast.ClassDef) and n.name == 'Mesh':
            for f in n.body:
                if isinstance(f, ast.FunctionDef) and f.name == '_parse_smd_bones':
                    for c in ast.walk(f):
                        if isinstance(c, ast.Call) and ast.unparse(c.func) in ('re.fullmatch', 're.match') and len(c.args) == 2 \
                                and isinstance(c.args[0], ast.Constant) and isinstance(c.args[0].value, bytes):
                            if regex is not None or ast.unparse(c.func) != 're.fullmatch':
                                raise TranslateError('smd.py: _parse_smd_bones: more than one pattern, or not a full match')
                            regex = c.args[0].value
    if regex is None:
        raise TranslateError('smd.py: Mesh._parse_smd_bones: re.fullmatch(<bytes pattern>, line) not found')
    mconsts = {n.targets[0].id: n.value.value for n in tree.body
               if isinstance(n, ast.Assign) and len(n.targets) == 1 and isinstance(n.targets[0], ast.Name)
               and isinstance(n.value, ast.Constant) and isinstance(n.value.value, bytes)}
    L = _Lines(mconsts)
    rest = L.block(body, {()})
    dangling = [p for p in rest if p]
    lines = sorted(L.done, key=lambda t: repr(t))
    out = [
        '(* GENERATED by translate/c20_formats.py from /repo/src/srctools/smd.py (Mesh.export). Do not edit. *)',
        'From Coq Require Import NArith List.', 'Import ListNotations.',
        'From SV Require Import Fmt.SmdTpl.',
        'Definition smd_lines : list line := [',
        ';\n'.join('  [' + '; '.join(_coq_piece(p) for p in ln) + ']' for ln in lines),
        '].',
        f'Definition smd_unterminated_lines : nat := {len(dangling)}.',
        f'Definition smd_nodes_regex : list N := {_coq_bytes(regex)}.   (* pattern of Mesh._parse_smd_bones *)',
        '',
    ]
    side = {'n_lines': len(lines), 'nodes_regex': regex.decode('latin1'), 'write_sites': L.census, 'unterminated': len(dangling), 'export_digest': ast_digest(exp),
            'lines': [' '.join((p[1].decode('latin1') if p[0] == 'Lit' else '<' + p[0] + '>') for p in ln) for ln in lines]}
    return '\n'.join(out), side


# ================================================================================================ scenes.image

def _le_fields(fmt: str, what: str) -> list[str]:
    """A little-endian struct format of the dialect used by the scenes.image code: '<' then <n>s / i / I with counts."""
    if not fmt.startswith('<'):
        raise TranslateError(f'choreo.py: {what}: struct format {fmt!r} is not explicit little-endian')
    out: list[str] = []
    pos = 1
    for m in re.finditer(r'(\d*)([A-Za-z?])', fmt[1:]):
        if m.start() + 1 != pos:
            raise TranslateError(f'choreo.py: {what}: cannot parse struct format {fmt!r}')
        pos = m.end() + 1
        cnt, code = m.group(1), m.group(2)
        if code == 's':
            out.append(f'SS {int(cnt or "1")}%nat')
        elif code in ('i', 'I'):
            out.extend(['SI' if code == 'i' else 'SU'] * int(cnt or '1'))
        else:
            raise TranslateError(f'choreo.py: {what}: struct code {code!r} is not modelled')
    if pos != len(fmt):
        raise TranslateError(f'choreo.py: {what}: cannot parse struct format {fmt!r}')
    return out


def _const_str(node: ast.AST, what: str) -> str:
    if isinstance(node, ast.Constant) and isinstance(node.value, str):
        return node.value
    raise TranslateError(f'choreo.py: {what}: expected a string literal, got `{ast.unparse(node)}`')


def _counted_fmt(node: ast.AST, what: str) -> tuple[str, str]:
    """f'<{count}i' -> (count expression, field code)."""
    if isinstance(node, ast.JoinedStr) and len(node.values) == 3 and isinstance(node.values[0], ast.Constant) \
            and node.values[0].value == '<' and isinstance(node.values[1], ast.FormattedValue) \
            and node.values[1].format_spec is None and node.values[1].conversion == -1 \
            and isinstance(node.values[2], ast.Constant) and node.values[2].value in ('i', 'I', 's'):
        return ast.unparse(node.values[1].value), node.values[2].value
    raise TranslateError(f'choreo.py: {what}: counted struct format `{ast.unparse(node)}` not recognised')


def _body_as_expr(stmts: list[ast.stmt], boolean: bool = False) -> ast.AST | None:
    """A function body made of returns, `if` with early returns and the `for x in xs: if P: return True` loop, as ONE expression:
    `if c: return A` + rest == `A if c else <rest>`; in a boolean context (only the truth value of the result is used)
    `if c: return True` + rest == `c or <rest>` and the loop + rest == `any(P for x in xs) or <rest>`.  None: not of that shape."""
    stmts = [b for b in stmts if not (isinstance(b, ast.Expr) and isinstance(b.value, ast.Constant)) and not isinstance(b, ast.Pass)]
    if not stmts:
        return None
    st, rest = stmts[0], stmts[1:]

    def const(e: ast.AST | None, val: bool) -> bool:
        return isinstance(e, ast.Constant) and e.value is val
    if isinstance(st, ast.Return):
        return st.value
    if isinstance(st, ast.If):
        a = _body_as_expr(st.body + rest, boolean)
        b = _body_as_expr(st.orelse + rest, boolean)
        if a is None or b is None:
            return None
        if boolean and const(a, True):
            return ast.BoolOp(op=ast.Or(), values=[st.test, b])
        if boolean and const(b, False):
            return ast.BoolOp(op=ast.And(), values=[st.test, a])
        return ast.IfExp(test=st.test, body=a, orelse=b)
    if boolean and isinstance(st, ast.For) and not st.orelse and isinstance(st.target, ast.Name) and len(st.body) == 1 \
            and isinstance(st.body[0], ast.If) and not st.body[0].orelse and len(st.body[0].body) == 1 \
            and isinstance(st.body[0].body[0], ast.Return) and const(st.body[0].body[0].value, True):
        r = _body_as_expr(rest, boolean)
        if r is None:
            return None
        found = ast.Call(func=ast.Name(id='any', ctx=ast.Load()), keywords=[], args=[ast.GeneratorExp(
            elt=st.body[0].test, generators=[ast.comprehension(target=st.target, iter=st.iter, ifs=[], is_async=0)])])
        return found if const(r, False) else ast.BoolOp(op=ast.Or(), values=[found, r])
    return None


def _or_terms(e: ast.AST) -> list[ast.AST]:
    if isinstance(e, ast.BoolOp) and isinstance(e.op, ast.Or):
        return [t for v in e.values for t in _or_terms(v)]
    return [e]


_MODULE_FUNCS: dict[str, ast.FunctionDef] = {}     # module-level functions of choreo.py (set by translate_scenes_image)


def _lambda_attr(node: ast.AST, what: str) -> str:
    """lambda e: e.ATTR -> ATTR"""
    if isinstance(node, ast.Lambda) and len(node.args.args) == 1 and not node.args.defaults and isinstance(node.body, ast.Attribute) \
            and isinstance(node.body.value, ast.Name) and node.body.value.id == node.args.args[0].arg:
        return node.body.attr
    if isinstance(node, ast.Call) and ast.unparse(node.func) in ('operator.attrgetter', 'attrgetter') and len(node.args) == 1 \
            and isinstance(node.args[0], ast.Constant) and isinstance(node.args[0].value, str) and '.' not in node.args[0].value:
        return node.args[0].value
    if isinstance(node, ast.Name) and node.id in _MODULE_FUNCS:
        # key=helper with `def helper(e): return e.ATTR` at module level
        fn = _MODULE_FUNCS[node.id]
        body = _body_as_expr(fn.body)
        if len(fn.args.args) == 1 and not fn.args.defaults and not fn.args.vararg and not fn.args.kwarg and not fn.args.kwonlyargs \
                and not fn.decorator_list and body is not None:
            return _lambda_attr(ast.Lambda(args=fn.args, body=body), what)
    raise TranslateError(f'choreo.py: {what}: sort key `{ast.unparse(node)}` is not an attribute of the entry')


_EATTR = {'checksum': 'ACrc', 'duration_ms': 'ADur', 'last_speak_ms': 'ALast'}


def _eattr(name: str) -> str:
    return _EATTR.get(name, 'AOther')


def _sort_call_key(call: ast.Call, what: str) -> str:
    """Keywords of list.sort / sorted -> Coq sortkey for a sort over Entry objects."""
    key = None
    for kw in call.keywords:
        if kw.arg == 'key':
            key = kw.value
        elif kw.arg == 'reverse' and isinstance(kw.value, ast.Constant) and kw.value.value is False:
            pass
        else:
            raise TranslateError(f'choreo.py: {what}: sort option `{ast.unparse(kw)}` is not modelled')
    if key is None:
        raise TranslateError(f'choreo.py: {what}: sort of entries without a key function')
    return f'SKAttr {_eattr(_lambda_attr(key, what))}'


def _input_form(expr: ast.AST, src: str, what: str) -> tuple[str, str]:
    """Classify `scene_list = <expr>` for one input form: returns (which entries: 'values'|'iter', Coq sortkey).
    `src` is the parameter name (scenes)."""
    def plain(e: ast.AST) -> str | None:
        if isinstance(e, ast.Name) and e.id == src:
            return 'iter'
        if isinstance(e, ast.Call) and not e.args and not e.keywords and isinstance(e.func, ast.Attribute) and e.func.attr == 'values' \
                and isinstance(e.func.value, ast.Name) and e.func.value.id == src:
            return 'values'
        return None
    if isinstance(expr, ast.Call) and isinstance(expr.func, ast.Name) and expr.func.id == 'list' and len(expr.args) == 1 and not expr.keywords:
        p = plain(expr.args[0])
        if p is not None:
            return p, 'SKNone'
        inner = expr.args[0]
        if isinstance(inner, ast.Call) and isinstance(inner.func, ast.Name) and inner.func.id == 'sorted':
            return _input_form(inner, src, what)
    if isinstance(expr, ast.Call) and isinstance(expr.func, ast.Name) and expr.func.id == 'sorted' and len(expr.args) == 1:
        p = plain(expr.args[0])
        if p is not None:
            return p, _sort_call_key(expr, what)
    # [entry for key, entry in sorted(scenes.items())]  -- ordered by the mapping key
    if isinstance(expr, ast.ListComp) and len(expr.generators) == 1 and not expr.generators[0].ifs:
        g = expr.generators[0]
        it = g.iter
        if isinstance(g.target, ast.Tuple) and len(g.target.elts) == 2 and all(isinstance(t, ast.Name) for t in g.target.elts) \
                and isinstance(expr.elt, ast.Name) and expr.elt.id == g.target.elts[1].id:
            def items(e: ast.AST) -> bool:
                return isinstance(e, ast.Call) and not e.args and not e.keywords and isinstance(e.func, ast.Attribute) \
                    and e.func.attr == 'items' and isinstance(e.func.value, ast.Name) and e.func.value.id == src
            if items(it):
                return 'values', 'SKNone'
            if isinstance(it, ast.Call) and isinstance(it.func, ast.Name) and it.func.id == 'sorted' and len(it.args) == 1 and items(it.args[0]):
                if not it.keywords:
                    return 'values', 'SKDictKey'
                kf = [kw.value for kw in it.keywords if kw.arg == 'key']
                if len(kf) == 1 and len(it.keywords) == 1 and isinstance(kf[0], ast.Lambda) and len(kf[0].args.args) == 1:
                    a = kf[0].args.args[0].arg
                    b = kf[0].body
                    if isinstance(b, ast.Subscript) and isinstance(b.value, ast.Name) and b.value.id == a and isinstance(b.slice, ast.Constant):
                        if b.slice.value == 0:
                            return 'values', 'SKDictKey'
                    if isinstance(b, ast.Attribute) and isinstance(b.value, ast.Subscript) and isinstance(b.value.value, ast.Name) \
                            and b.value.value.id == a and isinstance(b.value.slice, ast.Constant) and b.value.slice.value == 1:
                        return 'values', f'SKAttr {_eattr(b.attr)}'
        # [scenes[k] for k in sorted(scenes)]  -- looked up by key, in key order (keys() or the mapping itself)
        if isinstance(g.target, ast.Name) and isinstance(expr.elt, ast.Subscript) and isinstance(expr.elt.value, ast.Name) \
                and expr.elt.value.id == src and isinstance(expr.elt.slice, ast.Name) and expr.elt.slice.id == g.target.id:
            def keys(e: ast.AST) -> bool:
                return (isinstance(e, ast.Name) and e.id == src) or (
                    isinstance(e, ast.Call) and not e.args and not e.keywords and isinstance(e.func, ast.Attribute)
                    and e.func.attr == 'keys' and isinstance(e.func.value, ast.Name) and e.func.value.id == src)
            if keys(it):
                return 'values', 'SKNone'
            if isinstance(it, ast.Call) and isinstance(it.func, ast.Name) and it.func.id == 'sorted' and len(it.args) == 1 and not it.keywords \
                    and keys(it.args[0]):
                return 'values', 'SKDictKey'
    raise TranslateError(f'choreo.py: {what}: `{ast.unparse(expr)}` is not a recognised way to list the entries')


def _names_in(node: ast.AST) -> set[str]:
    return {n.id for n in ast.walk(node) if isinstance(n, ast.Name)}


def _attr_call(node: ast.AST, obj: str, meth: str) -> ast.Call | None:
    if isinstance(node, ast.Call) and isinstance(node.func, ast.Attribute) and node.func.attr == meth \
            and isinstance(node.func.value, ast.Name) and node.func.value.id == obj:
        return node
    return None


def _struct_pack(node: ast.AST, structs: dict[str, str] | None = None) -> tuple[str, list[ast.AST]] | None:
    sc = _struct_call(node, structs or {})
    if sc is not None and sc[0] == 'pack':
        return sc[1], sc[2]
    return None


def _coq_pairs(flds: list[str], srcs: list[str], what: str) -> str:
    if len(flds) != len(srcs):
        raise TranslateError(f'choreo.py: {what}: {len(flds)} struct fields but {len(srcs)} values')
    return '[' + '; '.join(f'({f}, {s})' for f, s in zip(flds, srcs)) + ']'


def translate_scenes_image() -> tuple[str, dict]:
    tree = ast.parse(src_text('choreo.py'))
    mstructs = _module_structs(tree)
    funcs = {n.name: n for n in tree.body if isinstance(n, ast.FunctionDef)}
    _MODULE_FUNCS.clear()
    _MODULE_FUNCS.update(funcs)
    classes = {n.name: n for n in tree.body if isinstance(n, ast.ClassDef)}
    for need in ('save_scenes_image_sync', 'parse_scenes_image'):
        if need not in funcs:
            raise TranslateError(f'choreo.py: function {need} not found')
    if 'Entry' not in classes:
        raise TranslateError('choreo.py: class Entry not found')
    side: dict = {}

    # ---------------------------------------------------------------- Entry: constructor order (attrs fields in class-body order)
    entry_fields: list[str] = []
    for st in classes['Entry'].body:
        if isinstance(st, ast.AnnAssign) and isinstance(st.target, ast.Name):
            nm = st.target.id
            if isinstance(st.value, ast.Call) and ast.unparse(st.value.func) == 'attrs.field':
                for kw in st.value.keywords:
                    if kw.arg == 'alias':
                        nm = _const_str(kw.value, 'Entry field alias')
            entry_fields.append(st.target.id)
    if entry_fields[:5] != ['filename', 'checksum', 'duration_ms', 'last_speak_ms', 'sounds']:
        raise TranslateError(f'choreo.py: Entry fields {entry_fields} not recognised')

    # ================================================================ writer
    w = funcs['save_scenes_image_sync']
    params = [a.arg for a in w.args.args]
    if params[:2] != ['file', 'scenes']:
        raise TranslateError('choreo.py: save_scenes_image_sync signature changed')
    enc_default = None
    for a, d in zip(w.args.kwonlyargs, w.args.kw_defaults):
        if a.arg == 'encoding':
            enc_default = _const_str(d, 'encoding default')
    body = list(w.body)
    if body and isinstance(body[0], ast.Expr) and isinstance(body[0].value, ast.Constant) and isinstance(body[0].value.value, str):
        body = body[1:]

    LIST = None           # name of the list of entries
    forms: dict[str, tuple[str, str]] = {}
    pool_fn = None        # add_to_pool
    pool_name = None
    deferred = None
    sort_sites: list[tuple[int, str]] = []      # (index of top-level statement, sortkey)
    pool_loop_idx = None
    loops: list[tuple[int, ast.For]] = []
    events: list[dict] = []                     # top-level layout events in order

    for idx, st in enumerate(body):
        # --- the input normalisation
        if isinstance(st, ast.If) and isinstance(st.test, ast.Call) and ast.unparse(st.test.func) == 'isinstance' \
                and ast.unparse(st.test.args[0]) == 'scenes':
            if ast.unparse(st.test.args[1]) != 'dict':
                raise TranslateError('choreo.py: save_scenes_image_sync: input form test is not isinstance(scenes, dict)')
            for form, blk in (('dict', st.body), ('iter', st.orelse)):
                if len(blk) != 1 or not isinstance(blk[0], ast.Assign) or len(blk[0].targets) != 1 or not isinstance(blk[0].targets[0], ast.Name):
                    raise TranslateError('choreo.py: save_scenes_image_sync: input normalisation branch not recognised')
                nm = blk[0].targets[0].id
                if LIST not in (None, nm):
                    raise TranslateError('choreo.py: save_scenes_image_sync: the two input forms fill different lists')
                LIST = nm
                which, key = _input_form(blk[0].value, 'scenes', f'input form {form}')
                if (form, which) not in (('dict', 'values'), ('iter', 'iter')):
                    raise TranslateError(f'choreo.py: save_scenes_image_sync: input form {form} takes its entries from {which}')
                forms[form] = (which, key)
            continue
        if LIST is None:
            if 'scenes' in _names_in(st):
                raise TranslateError(f'choreo.py: save_scenes_image_sync: line {st.lineno}: `scenes` used before the input normalisation')
            continue
        # --- after normalisation: `scenes` must not be used any more (every later loop sees the normalised list)
        if 'scenes' in _names_in(st):
            raise TranslateError(f'choreo.py: save_scenes_image_sync: line {st.lineno}: the raw `scenes` argument is used after normalisation')
        # --- helper bindings
        if isinstance(st, ast.Assign) and len(st.targets) == 1 and isinstance(st.targets[0], ast.Name):
            t = st.targets[0].id
            v = st.value
            if isinstance(v, ast.Call) and ast.unparse(v.func) == 'binformat.find_or_insert':
                pool_fn, pool_name = t, ast.unparse(v.args[0])
                kf = v.args[1] if len(v.args) == 2 else next((k.value for k in v.keywords if k.arg == 'key_func'), None)
                # the key function, normalised: a lambda, or a module-level function whose body is one expression (early returns folded)
                kbody = kparam = None
                if isinstance(kf, ast.Lambda) and len(kf.args.args) == 1:
                    kbody, kparam = kf.body, kf.args.args[0].arg
                elif isinstance(kf, ast.Name) and kf.id in funcs and len(funcs[kf.id].args.args) == 1:
                    kbody, kparam = _body_as_expr([x for x in funcs[kf.id].body
                                                 if not (isinstance(x, ast.Expr) and isinstance(x.value, ast.Constant))]), funcs[kf.id].args.args[0].arg
                if not (isinstance(kbody, ast.Name) and kbody.id == kparam):
                    raise TranslateError('choreo.py: save_scenes_image_sync: string pool is not keyed by the string itself')
                continue
            if isinstance(v, ast.Call) and ast.unparse(v.func) == 'binformat.DeferredWrites':
                deferred = t
                continue
            if t == LIST:
                # re-assignment of the list, e.g. scene_list = sorted(scene_list, key=...)
                if isinstance(v, ast.Call) and isinstance(v.func, ast.Name) and v.func.id == 'sorted' and len(v.args) == 1 \
                        and isinstance(v.args[0], ast.Name) and v.args[0].id == LIST:
                    sort_sites.append((idx, _sort_call_key(v, f'line {st.lineno}')))
                    continue
                raise TranslateError(f'choreo.py: save_scenes_image_sync: line {st.lineno}: the entry list is rebuilt in an unrecognised way')
        # --- in-place sort
        if isinstance(st, ast.Expr):
            c = _attr_call(st.value, LIST, 'sort')
            if c is not None:
                if c.args:
                    raise TranslateError(f'choreo.py: line {st.lineno}: positional arguments to list.sort')
                sort_sites.append((idx, _sort_call_key(c, f'line {st.lineno}')))
                continue
            if isinstance(st.value, ast.Call) and isinstance(st.value.func, ast.Attribute) and isinstance(st.value.func.value, ast.Name) \
                    and st.value.func.value.id == LIST:
                raise TranslateError(f'choreo.py: line {st.lineno}: `{ast.unparse(st.value)}` changes the entry list in a way that is not modelled')
        if isinstance(st, ast.For):
            if isinstance(st.iter, ast.Name) and st.iter.id == LIST:
                loops.append((idx, st))
                if pool_loop_idx is None and pool_fn is not None and any(
                        isinstance(n, ast.Name) and n.id == pool_fn for n in ast.walk(st)) and not any(
                        _attr_call(n, 'file', 'write') is not None for n in ast.walk(st)):
                    pool_loop_idx = idx
            elif LIST in _names_in(st.iter):
                raise TranslateError(f'choreo.py: line {st.lineno}: loop over `{ast.unparse(st.iter)}` (a view of the entry list that is not modelled)')
        elif LIST in _names_in(st) and not isinstance(st, ast.Expr):
            # uses such as len(scene_list) inside writes are handled below; anything else that mentions the list is unknown
            if not (isinstance(st, ast.Assert)):
                raise TranslateError(f'choreo.py: line {st.lineno}: statement uses the entry list in a way that is not modelled')
    if LIST is None or set(forms) != {'dict', 'iter'}:
        raise TranslateError('choreo.py: save_scenes_image_sync: input normalisation (dict / iterable) not found')
    if pool_fn is None or deferred is None:
        raise TranslateError('choreo.py: save_scenes_image_sync: find_or_insert pool / DeferredWrites not found')
    if pool_loop_idx is None:
        raise TranslateError('choreo.py: save_scenes_image_sync: the loop that fills the string pool was not found')

    # the sort that is in effect for each form when the pool is filled, and when the table is written
    def effective(form: str, before_idx: int) -> str:
        key = forms[form][1]
        for i, k in sort_sites:
            if i < before_idx:
                key = k          # a later sort replaces the order (list.sort is total on the key; ties keep the earlier order)
        return key

    # ---------------------------------------------------------------- layout events of the writer
    def src_of(e: ast.AST, loopvar: str | None, inner: str | None) -> str:
        s = ast.unparse(e)
        if isinstance(e, ast.Constant) and isinstance(e.value, bytes):
            return 'magic:' + e.value.hex()
        if s == 'version':
            return 'HVersion'
        if s == f'len({LIST})':
            return 'HSceneCount'
        if s == f'len({pool_name})':
            return 'HPoolCount'
        if s == 'file.tell()':
            return 'tell'
        if s == 'len(data)':
            return 'EDataSize'
        if loopvar and isinstance(e, ast.Attribute) and isinstance(e.value, ast.Name) and e.value.id == loopvar:
            return 'attr:' + e.attr
        if loopvar and s == f'len({loopvar}.sounds)':
            return 'SSoundCount'
        if inner and s == f'{pool_fn}({inner})':
            return 'SoundIndex'
        raise TranslateError(f'choreo.py: save_scenes_image_sync: written value `{s}` not recognised')

    def key_of(e: ast.AST, loopvar: str | None) -> str:
        if isinstance(e, ast.Constant) and isinstance(e.value, str):
            return 'k:' + e.value
        if isinstance(e, ast.Tuple) and len(e.elts) == 2 and isinstance(e.elts[0], ast.Constant) and loopvar \
                and isinstance(e.elts[1], ast.Attribute) and isinstance(e.elts[1].value, ast.Name) and e.elts[1].value.id == loopvar:
            return f'k:{e.elts[0].value}:{e.elts[1].attr}'
        raise TranslateError(f'choreo.py: save_scenes_image_sync: deferred key `{ast.unparse(e)}` not recognised')

    def layout(stmts: list[ast.stmt], ctx: tuple, loopvar: str | None, inner: str | None) -> None:
        for st in stmts:
            if isinstance(st, ast.Expr) and isinstance(st.value, ast.Call):
                c = st.value
                wr = _attr_call(c, 'file', 'write')
                if wr is not None:
                    a = wr.args[0]
                    pk = _struct_pack(a, mstructs)
                    if pk is not None:
                        events.append({'k': 'pack', 'ctx': ctx, 'fmt': pk[0], 'src': [src_of(x, loopvar, inner) for x in pk[1]], 'line': st.lineno})
                    elif isinstance(a, ast.BinOp) and isinstance(a.op, ast.Add) and isinstance(a.right, ast.Constant) and a.right.value == b'\x00' \
                            and isinstance(a.left, ast.Call) and isinstance(a.left.func, ast.Attribute) and a.left.func.attr == 'encode':
                        events.append({'k': 'cstring', 'ctx': ctx, 'what': ast.unparse(a.left.func.value), 'enc': ast.unparse(a.left.args[0]) if a.left.args else '', 'line': st.lineno})
                    elif isinstance(a, ast.Name) and a.id == 'data':
                        events.append({'k': 'blob', 'ctx': ctx, 'line': st.lineno})
                    else:
                        raise TranslateError(f'choreo.py: save_scenes_image_sync: line {st.lineno}: file.write(`{ast.unparse(a)}`) not recognised')
                    continue
                d = _attr_call(c, deferred, 'defer')
                if d is not None:
                    kw = {k.arg: k.value for k in d.keywords}
                    if len(d.args) != 2 or set(kw) != {'write'} or not (isinstance(kw['write'], ast.Constant) and kw['write'].value is True):
                        raise TranslateError(f'choreo.py: line {st.lineno}: deferred.defer call shape not recognised (placeholder bytes must be written)')
                    if isinstance(d.args[1], ast.JoinedStr):
                        cnt, code = _counted_fmt(d.args[1], f'line {st.lineno}')
                        fmt = ('counted', cnt, code)
                    else:
                        fmt = _const_str(d.args[1], f'line {st.lineno}')
                    events.append({'k': 'defer', 'ctx': ctx, 'key': key_of(d.args[0], loopvar), 'fmt': fmt, 'line': st.lineno})
                    continue
                d = _attr_call(c, deferred, 'set_data')
                if d is not None:
                    vals = []
                    for x in d.args[1:]:
                        if isinstance(x, ast.Call) and ast.unparse(x.func) == 'binformat.write_array':
                            vals.append('array:' + _const_str(x.args[0], 'write_array format') + ':' + ast.unparse(x.args[1]))
                        else:
                            vals.append(src_of(x, loopvar, inner))
                    events.append({'k': 'set', 'ctx': ctx, 'key': key_of(d.args[0], loopvar), 'src': vals, 'line': st.lineno})
                    continue
                d = _attr_call(c, deferred, 'write')
                if d is not None:
                    events.append({'k': 'flush', 'ctx': ctx, 'line': st.lineno})
                    continue
                if _attr_call(c, 'offsets', 'append') is not None and ast.unparse(c.args[0]) == 'file.tell()':
                    events.append({'k': 'offset', 'ctx': ctx, 'line': st.lineno})
                    continue
                if 'file' in _names_in(st) or deferred in _names_in(st):
                    raise TranslateError(f'choreo.py: save_scenes_image_sync: line {st.lineno}: `{ast.unparse(st)}` uses the file in a way that is not modelled')
                continue
            if isinstance(st, ast.For):
                tv = ast.unparse(st.target)
                it = ast.unparse(st.iter)
                if st.orelse:
                    raise TranslateError(f'choreo.py: line {st.lineno}: loop else-clause not modelled')
                if it == LIST and loopvar is None:
                    layout(st.body, ctx + ('entries',), tv, None)
                elif loopvar and it == f'{loopvar}.sounds':
                    layout(st.body, ctx + ('sounds',), loopvar, tv)
                elif it == pool_name and loopvar is None:
                    layout(st.body, ctx + ('pool',), None, None)
                elif any(_attr_call(n, 'file', 'write') is not None or (isinstance(n, ast.Name) and n.id == deferred) for n in ast.walk(st)):
                    raise TranslateError(f'choreo.py: line {st.lineno}: writing loop over `{it}` not recognised')
                continue
            if isinstance(st, ast.If):
                has_io = any(_attr_call(n, 'file', 'write') is not None or (isinstance(n, ast.Name) and n.id == deferred) for n in ast.walk(st))
                if not has_io:
                    if any(isinstance(n, ast.Name) and n.id == 'file' for n in ast.walk(st)):
                        raise TranslateError(f'choreo.py: line {st.lineno}: `file` used in a conditional that does not write')
                    continue
                t = st.test
                if isinstance(t, ast.Compare) and ast.unparse(t.left) == 'version' and len(t.ops) == 1 and isinstance(t.ops[0], ast.Eq) \
                        and isinstance(t.comparators[0], ast.Constant) and isinstance(t.comparators[0].value, int):
                    layout(st.body, ctx + (('version==', t.comparators[0].value),), loopvar, inner)
                    layout(st.orelse, ctx + (('version!=', t.comparators[0].value),), loopvar, inner)
                    continue
                raise TranslateError(f'choreo.py: line {st.lineno}: conditional write on `{ast.unparse(t)}` not modelled')
            if isinstance(st, (ast.Assign, ast.AnnAssign, ast.AugAssign, ast.Assert, ast.Pass)):
                if any(_attr_call(n, 'file', 'write') is not None for n in ast.walk(st)) or deferred in _names_in(st) - {deferred if isinstance(st, ast.Assign) and ast.unparse(st.targets[0]) == deferred else ''}:
                    raise TranslateError(f'choreo.py: line {st.lineno}: write hidden in `{ast.unparse(st)[:60]}`')
                continue
            if isinstance(st, (ast.Expr,)):
                continue
            raise TranslateError(f'choreo.py: save_scenes_image_sync: line {st.lineno}: statement {type(st).__name__} not modelled')
    first_io = next((i for i, st in enumerate(body) if any(_attr_call(n, 'file', 'write') is not None for n in ast.walk(st))), None)
    if first_io is None:
        raise TranslateError('choreo.py: save_scenes_image_sync writes nothing')
    layout(body, (), None, None)

    # ---------------------------------------------------------------- match the layout against the container skeleton
    def take(pred, what: str) -> dict:
        for e in events:
            if not e.get('used') and pred(e):
                e['used'] = True
                return e
        raise TranslateError(f'choreo.py: save_scenes_image_sync: {what} not found in the writer')
    top_pack = take(lambda e: e['k'] == 'pack' and e['ctx'] == (), 'header struct.pack')
    d_soff = take(lambda e: e['k'] == 'defer' and e['ctx'] == () and e['key'] == 'k:scene_offset', 'deferred scene offset')
    d_pool = take(lambda e: e['k'] == 'defer' and e['ctx'] == () and e['key'] == 'k:pool_offsets', 'deferred pool offsets')
    ev_cstr = take(lambda e: e['k'] == 'cstring' and e['ctx'] == ('pool',), 'pool string write')
    ev_off = take(lambda e: e['k'] == 'offset' and e['ctx'] == ('pool',), 'pool offset bookkeeping')
    s_pool = take(lambda e: e['k'] == 'set' and e['ctx'] == () and e['key'] == 'k:pool_offsets', 'pool offsets data')
    s_soff = take(lambda e: e['k'] == 'set' and e['ctx'] == () and e['key'] == 'k:scene_offset', 'scene offset data')
    t_crc = take(lambda e: e['k'] == 'pack' and e['ctx'] == ('entries',), 'table record pack')
    t_data = take(lambda e: e['k'] == 'defer' and e['ctx'] == ('entries',) and e['key'].startswith('k:data:'), 'deferred data slot')
    t_sum = take(lambda e: e['k'] == 'defer' and e['ctx'] == ('entries',) and e['key'].startswith('k:summary:'), 'deferred summary slot')
    s_sum = take(lambda e: e['k'] == 'set' and e['ctx'] == ('entries',) and e['key'].startswith('k:summary:'), 'summary offset data')
    v_eq = [e for e in events if e['k'] == 'pack' and len(e['ctx']) == 2 and e['ctx'][0] == 'entries' and isinstance(e['ctx'][1], tuple)]
    if len(v_eq) != 2 or {e['ctx'][1][0] for e in v_eq} != {'version==', 'version!='} or len({e['ctx'][1][1] for e in v_eq}) != 1:
        raise TranslateError('choreo.py: save_scenes_image_sync: the two summary layouts (version test) were not recognised')
    for e in v_eq:
        e['used'] = True
    sum_eq = next(e for e in v_eq if e['ctx'][1][0] == 'version==')
    sum_ne = next(e for e in v_eq if e['ctx'][1][0] == 'version!=')
    v_test_w = sum_eq['ctx'][1][1]
    snd = take(lambda e: e['k'] == 'pack' and e['ctx'] == ('entries', 'sounds'), 'sound index pack')
    s_data = take(lambda e: e['k'] == 'set' and e['ctx'] == ('entries',) and e['key'].startswith('k:data:'), 'data slot data')
    blob = take(lambda e: e['k'] == 'blob' and e['ctx'] == ('entries',), 'blob write')
    flush = take(lambda e: e['k'] == 'flush' and e['ctx'] == (), 'deferred.write()')
    left = [e for e in events if not e.get('used')]
    if left:
        raise TranslateError(f'choreo.py: save_scenes_image_sync: line {left[0]["line"]}: write not part of the modelled layout')
    order = [e['line'] for e in (top_pack, d_soff, d_pool, ev_cstr, s_pool, s_soff, t_crc, t_data, t_sum, s_sum, sum_eq, snd, s_data, blob, flush)]
    # positions in the event list = order of execution for straight-line code; loops are entered in source order
    pos = {id(e): i for i, e in enumerate(events)}
    seq = [top_pack, d_soff, d_pool, ev_cstr, s_soff, t_crc, t_data, t_sum, s_sum, sum_eq, snd, s_data, blob]
    seq_ok = all(pos[id(a)] < pos[id(b)] or (a is sum_eq) for a, b in zip(seq, seq[1:])) and pos[id(s_soff)] < pos[id(t_crc)] \
        and pos[id(ev_off)] < pos[id(ev_cstr)] and pos[id(s_sum)] < min(pos[id(sum_eq)], pos[id(sum_ne)]) \
        and max(pos[id(sum_eq)], pos[id(sum_ne)]) < pos[id(snd)] and pos[id(s_data)] < pos[id(blob)]
    # table loop: the three table events are in one loop; summary loop and data loop are separate later loops
    loop_of = {}
    for li, (idx, lp) in enumerate(loops):
        for n in ast.walk(lp):
            if hasattr(n, 'lineno'):
                loop_of.setdefault(n.lineno, li)
    tl = {loop_of.get(e['line']) for e in (t_crc, t_data, t_sum)}
    sl = {loop_of.get(e['line']) for e in (s_sum, sum_eq, sum_ne, snd)}
    dl = {loop_of.get(e['line']) for e in (s_data, blob)}
    loops_ok = len(tl) == 1 and len(sl) == 1 and len(dl) == 1 and None not in (tl | sl | dl) and max(tl) < min(sl) and max(sl) < min(dl)
    table_loop_idx = loops[min(tl)][0] if loops_ok else len(body)

    def hsrc(s: str) -> str:
        if s.startswith('magic:'):
            return 'HMagic'
        if s in ('HVersion', 'HSceneCount', 'HPoolCount'):
            return s
        return 'HOther'
    magic_w = next((bytes.fromhex(s[6:]) for s in top_pack['src'] if s.startswith('magic:')), b'')
    hdr_w_f = _le_fields(top_pack['fmt'], 'header pack') + _le_fields(d_soff['fmt'], 'scene offset slot')
    hdr_w_s = [hsrc(s) for s in top_pack['src']] + ['HSceneOff' if s_soff['src'] == ['tell'] else 'HOther']

    def esrc(s: str) -> str:
        return f'EAttr {_eattr(s[5:])}' if s.startswith('attr:') else 'EOther'
    ent_w_f = _le_fields(t_crc['fmt'], 'table record') + _le_fields(t_data['fmt'], 'data slot') + _le_fields(t_sum['fmt'], 'summary slot')
    ent_w_s = [esrc(s) for s in t_crc['src']] + [{'tell': 'EDataOff', 'EDataSize': 'EDataSize'}.get(s, 'EOther') for s in s_data['src']] \
        + ['ESumOff' if s_sum['src'] == ['tell'] else 'EOther']
    if pos[id(t_data)] > pos[id(t_sum)]:
        # slots are laid out in the order of the defer calls
        ent_w_f = _le_fields(t_crc['fmt'], 'table record') + _le_fields(t_sum['fmt'], 'summary slot') + _le_fields(t_data['fmt'], 'data slot')
        ent_w_s = [ent_w_s[0], ent_w_s[-1]] + ent_w_s[1:-1]

    def ssrc(s: str) -> str:
        if s.startswith('attr:'):
            return f'SAttr {_eattr(s[5:])}'
        return 'SSoundCount' if s == 'SSoundCount' else 'SOther'
    table_attr = t_crc['src'][0][5:] if t_crc['src'] and t_crc['src'][0].startswith('attr:') else '?'
    defer_attrs = {e['key'].split(':')[2] for e in (t_data, t_sum, s_sum, s_data)}
    pool_slot = None
    if isinstance(d_pool['fmt'], tuple) and d_pool['fmt'][2] == 's':
        # pool_offset_size = len(pool) * binformat.SIZE_INT
        for st in body:
            if isinstance(st, ast.Assign) and ast.unparse(st.targets[0]) == d_pool['fmt'][1] and isinstance(st.value, ast.BinOp) \
                    and isinstance(st.value.op, ast.Mult):
                parts = {ast.unparse(st.value.left), ast.unparse(st.value.right)}
                if f'len({pool_name})' in parts:
                    other = (parts - {f'len({pool_name})'}).pop()
                    pool_slot = {'binformat.SIZE_INT': 4, '4': 4, 'binformat.SIZE_SHORT': 2, 'binformat.SIZE_LONG': 8}.get(other)
    if pool_slot is None:
        raise TranslateError('choreo.py: save_scenes_image_sync: size of the pool offset block not recognised')
    arr = s_pool['src'][0].split(':') if s_pool['src'] and s_pool['src'][0].startswith('array:') else None
    if arr is None or arr[2] != 'offsets':
        raise TranslateError('choreo.py: save_scenes_image_sync: pool offsets are not written with write_array(fmt, offsets)')
    pooloff_w = _le_fields(arr[1], 'pool offset array')
    if len(pooloff_w) != 1:
        raise TranslateError('choreo.py: pool offset array format is not a single integer code')
    enc_w = ev_cstr['enc']
    if enc_w == 'encoding':
        enc_w = repr(enc_default)

    # ================================================================ reader
    r = funcs['parse_scenes_image']
    rb = list(r.body)
    reads: list[dict] = []

    def struct_read_call(v: ast.AST) -> ast.Call | None:
        if isinstance(v, ast.Call) and ast.unparse(v.func) == 'binformat.struct_read' and len(v.args) == 2 and ast.unparse(v.args[1]) == 'file':
            return v
        return None
    magic_r = None
    versions_r: list[int] = []
    v_test_r = None
    pool_count_var = enc_r = pool_var = None
    seeks: list[tuple[int, str]] = []
    table_targets: list[str] = []
    table_fmt = None
    table_count = None
    ctor: dict[str, str] = {}
    sum_reads: dict[str, tuple[str, list[str]]] = {}
    last_default = None
    snd_fmt = None
    data_read = None
    for n in ast.walk(r):
        if isinstance(n, ast.Assign) and len(n.targets) == 1:
            c = struct_read_call(n.value)
            t = n.targets[0]
            if c is not None and isinstance(t, (ast.List, ast.Tuple)) and all(isinstance(x, ast.Name) for x in t.elts):
                rf = _fmt_arg(c.args[0], mstructs)
                if rf is None:
                    raise TranslateError(f'choreo.py: parse_scenes_image line {n.lineno}: struct_read format `{ast.unparse(c.args[0])}` not recognised')
                reads.append({'fmt': rf, 'targets': [x.id for x in t.elts], 'line': n.lineno})
            if isinstance(n.value, ast.Call) and ast.unparse(n.value.func) == 'binformat.read_offset_array':
                a = n.value.args
                pool_var = ast.unparse(t)
                pool_count_var = ast.unparse(a[1])
                enc_r = ast.unparse(a[2]) if len(a) > 2 else "'ascii'"
        if isinstance(n, ast.If) and isinstance(n.test, ast.Compare) and len(n.test.ops) == 1:
            l, op, rr = ast.unparse(n.test.left), n.test.ops[0], n.test.comparators[0]
            if l == 'magic' and isinstance(op, ast.NotEq) and isinstance(rr, ast.Constant) and isinstance(rr.value, bytes) \
                    and len(n.body) == 1 and isinstance(n.body[0], ast.Raise):
                magic_r = rr.value
            elif l == 'version' and isinstance(op, ast.NotIn) and isinstance(rr, (ast.Tuple, ast.List, ast.Set)) \
                    and all(isinstance(x, ast.Constant) and isinstance(x.value, int) for x in rr.elts) and isinstance(n.body[0], ast.Raise):
                versions_r = [x.value for x in rr.elts]
            elif l == 'version' and isinstance(op, ast.Eq) and isinstance(rr, ast.Constant):
                v_test_r = rr.value
                for arm, blk in (('eq', n.body), ('ne', n.orelse)):
                    for st in blk:
                        if isinstance(st, ast.Assign) and struct_read_call(st.value) is not None:
                            sum_reads[arm] = (_const_str(st.value.args[0], 'summary format'), [x.id for x in st.targets[0].elts])
                        elif isinstance(st, ast.Assign) and isinstance(st.value, ast.Name) and isinstance(st.targets[0], ast.Name):
                            last_default = (arm, st.targets[0].id, st.value.id)
                        else:
                            raise TranslateError(f'choreo.py: parse_scenes_image: line {st.lineno}: statement in the version test not recognised')
        if isinstance(n, ast.Call):
            if _attr_call(n, 'file', 'seek') is not None:
                seeks.append((n.lineno, ast.unparse(n.args[0])))
            if ast.unparse(n.func) == 'Entry':
                if n.keywords:
                    for kw in n.keywords:
                        ctor[kw.arg] = ast.unparse(kw.value)
                for nm, a in zip(entry_fields, n.args):
                    ctor[nm] = ast.unparse(a)
            if _attr_call(n, 'file', 'read') is not None:
                data_read = ast.unparse(n.args[0])
        if isinstance(n, ast.ListComp) and len(n.generators) == 1:
            g = n.generators[0]
            c = struct_read_call(n.elt)
            if c is not None and isinstance(g.iter, ast.Call) and ast.unparse(g.iter.func) == 'range' and len(g.iter.args) == 1:
                table_fmt = _const_str(c.args[0], 'table record format')
                table_count = ast.unparse(g.iter.args[0])
            c = struct_read_call(g.iter)
            if c is not None and isinstance(n.elt, ast.Subscript) and ast.unparse(n.elt.slice) == ast.unparse(g.target):
                cnt, code = _counted_fmt(c.args[0], 'sound index format')
                snd_fmt = (cnt, code, ast.unparse(n.elt.value))
        if isinstance(n, ast.For) and isinstance(n.target, ast.Tuple) and ast.unparse(n.iter) == 'scene_data':
            table_targets = [ast.unparse(x) for x in n.target.elts]
    hdr_reads = [x for x in reads if 'magic' in x['targets']]
    if len(hdr_reads) != 1 or magic_r is None or not versions_r or v_test_r is None or set(sum_reads) != {'eq', 'ne'} \
            or table_fmt is None or not table_targets or snd_fmt is None or pool_var is None or data_read is None or not ctor:
        raise TranslateError('choreo.py: parse_scenes_image: header / version tests / table / summary / sound reads not all recognised')
    hr = hdr_reads[0]
    data_off_var = sum_off_var = None
    # summary offset = the seek target that precedes the summary struct_read; data offset = the one that precedes file.read
    read_line = next(n.lineno for n in ast.walk(r) if isinstance(n, ast.Call) and _attr_call(n, 'file', 'read') is not None)
    sum_line = min(n.lineno for n in ast.walk(r) if isinstance(n, ast.If) and ast.unparse(n.test).startswith('version =='))
    tab_seeks = [(ln, s) for ln, s in seeks if s in table_targets]
    for ln, s in tab_seeks:
        if ln < sum_line:
            sum_off_var = s
        elif ln < read_line or ln == read_line:
            data_off_var = s
    scene_off_var = next((s for ln, s in seeks if s in hr['targets']), None)

    def h_r(t: str) -> str:
        if t == 'magic':
            return 'HMagic'
        if t == 'version':
            return 'HVersion'
        if t == table_count:
            return 'HSceneCount'
        if t == pool_count_var:
            return 'HPoolCount'
        if t == scene_off_var:
            return 'HSceneOff'
        return 'HOther'
    inv_ctor = {v: k for k, v in ctor.items()}

    def e_r(t: str) -> str:
        if t in inv_ctor and inv_ctor[t] in _EATTR:
            return f'EAttr {_EATTR[inv_ctor[t]]}'
        if t == data_off_var:
            return 'EDataOff'
        if t == data_read:
            return 'EDataSize'
        if t == sum_off_var:
            return 'ESumOff'
        return 'EOther'

    def s_r(t: str) -> str:
        if t in inv_ctor and inv_ctor[t] in _EATTR:
            return f'SAttr {_EATTR[inv_ctor[t]]}'
        if t == snd_fmt[0]:
            return 'SSoundCount'
        return 'SOther'
    eq_r, ne_r = sum_reads['eq'], sum_reads['ne']
    # reader's substitute for the missing field in the short summary
    ld_ok = last_default is not None and last_default[0] == 'ne' and inv_ctor.get(last_default[1]) == 'last_speak_ms' \
        and inv_ctor.get(last_default[2]) == 'duration_ms'
    sounds_from_pool = snd_fmt[2] == pool_var and inv_ctor.get('sounds') == 'sounds' or ctor.get('sounds') is not None and snd_fmt[2] == pool_var
    key_store = None
    for n in ast.walk(r):
        if isinstance(n, ast.Assign) and isinstance(n.targets[0], ast.Subscript) and isinstance(n.value, ast.Call) and ast.unparse(n.value.func) == 'Entry':
            key_store = ast.unparse(n.targets[0].slice)

    def b(x: bool) -> str:
        return 'true' if x else 'false'
    sk_pool = {f: effective(f, pool_loop_idx) for f in ('dict', 'iter')}
    sk_table = {f: effective(f, table_loop_idx) for f in ('dict', 'iter')}
    lines = [
        '(* GENERATED by translate/c20_formats.py from /repo/src/srctools/choreo.py (save_scenes_image_sync, parse_scenes_image). Do not edit. *)',
        'From Coq Require Import NArith List Bool.', 'Import ListNotations.',
        'From SV Require Import Fmt.ScenesImageCfg.',
        'Definition si_gen_cfg : icfg := {|',
        f'  ic_magic_w := {_coq_bytes(magic_w)}; ic_magic_r := {_coq_bytes(magic_r)};',
        f'  ic_hdr_w := {_coq_pairs(hdr_w_f, hdr_w_s, "header (writer)")};   (* {top_pack["fmt"]} + slot {d_soff["fmt"]} *)',
        f'  ic_hdr_r := {_coq_pairs(_le_fields(hr["fmt"], "header (reader)"), [h_r(t) for t in hr["targets"]], "header (reader)")};   (* {hr["fmt"]} *)',
        f'  ic_ent_w := {_coq_pairs(ent_w_f, ent_w_s, "table record (writer)")};',
        f'  ic_ent_r := {_coq_pairs(_le_fields(table_fmt, "table record (reader)"), [e_r(t) for t in table_targets], "table record (reader)")};   (* {table_fmt} *)',
        f'  ic_sumL_w := {_coq_pairs(_le_fields(sum_eq["fmt"], "summary"), [ssrc(s) for s in sum_eq["src"]], "long summary (writer)")};',
        f'  ic_sumL_r := {_coq_pairs(_le_fields(eq_r[0], "summary"), [s_r(t) for t in eq_r[1]], "long summary (reader)")};',
        f'  ic_sumS_w := {_coq_pairs(_le_fields(sum_ne["fmt"], "summary"), [ssrc(s) for s in sum_ne["src"]], "short summary (writer)")};',
        f'  ic_sumS_r := {_coq_pairs(_le_fields(ne_r[0], "summary"), [s_r(t) for t in ne_r[1]], "short summary (reader)")};',
        f'  ic_snd_w := {_coq_pairs(_le_fields(snd["fmt"], "sound index"), ["SoundIdx" if s == "SoundIndex" else "SoundOther" for s in snd["src"]], "sound index (writer)")};',
        f'  ic_snd_r := {"SI" if snd_fmt[1] == "i" else "SU"};',
        f'  ic_pooloff_w := {pooloff_w[0]}; ic_pool_slot := {pool_slot}%nat;',
        f'  ic_long_version_w := {v_test_w}%N; ic_long_version_r := {v_test_r}%N; ic_versions_r := [{"; ".join(str(v) for v in versions_r)}]%N;',
        f'  ic_sort_dict := {sk_table["dict"]}; ic_sort_iter := {sk_table["iter"]};',
        f'  ic_pool_sort_dict := {sk_pool["dict"]}; ic_pool_sort_iter := {sk_pool["iter"]};',
        f'  ic_defer_key := {_eattr(next(iter(defer_attrs))) if len(defer_attrs) == 1 else "AOther"};',
        f'  ic_layout_in_order := {b(seq_ok and loops_ok)};',
        f'  ic_short_summary_last_is_duration := {b(ld_ok)};',
        f'  ic_sounds_through_pool := {b(bool(sounds_from_pool))};',
        f'  ic_same_encoding := {b(enc_w == enc_r)};',
        f'  ic_reader_keys_by_crc := {b(key_store is not None and inv_ctor.get(key_store) == "checksum")}',
        '|}.',
        '',
    ]
    side.update(writer_events=[{k: (list(v) if isinstance(v, tuple) else v) for k, v in e.items() if k != 'used'} for e in events],
                forms=forms, sort_sites=sort_sites, pool_loop_stmt=pool_loop_idx, table_loop_stmt=table_loop_idx,
                sort_in_effect_for_pool=sk_pool, sort_in_effect_for_table=sk_table, table_attr=table_attr,
                reader=dict(header=hr, table=[table_fmt, table_targets], summaries=sum_reads, sound=snd_fmt, ctor=ctor, seeks=seeks),
                encodings=[enc_w, enc_r], digests={'save': ast_digest(w), 'parse': ast_digest(r)})
    return '\n'.join(lines), side


# ================================================================================================ text writers: field census

class _TextCensus:
    """Classify every value a text export function interpolates into what it writes.

    class : FEscQuoted  "...{escape_text(x)}..." between double quotes
            FEscBare    escape_text(x) not between quotes (the reader only un-escapes inside quotes)
            FRawQuoted  "{x}" between double quotes, written as it is
            FRawBare    {x} not between quotes
            FCondQuoted quoted when a _needs_quotes-style test says so (VMT)
    type  : TyStr (free text) / TyNum / TyWord (enum member, constant table entry, object with a fixed vocabulary) /
            TyPair (join_float: "a, b") / TyConst (a str parameter that every caller passes a literal for)
    """

    def __init__(self, rel: str, file_names: tuple[str, ...] = ('file', 'f')) -> None:
        self.rel = rel
        self.tree = ast.parse(src_text(rel))
        self.file_names = file_names
        self.ann: dict[str, set[str]] = {}
        self.const_tables: set[str] = set()
        self.funcs: dict[str, ast.FunctionDef] = {}
        self.sites: list[tuple[int, str, str, str]] = []   # (line, class, type, source)
        self.cond_lines: list[list] = []                   # written templates holding a quoted-on-demand field
        self.alias: dict[str, str] = {}                    # local name -> the attribute read it was last assigned (x = obj.attr)
        self.lines: list[tuple[str, list]] = []            # (function, written template) in walking order: ('lit', text) / ('fld', source)
        self.cur_fn = ''
        self._stack: list[str] = []
        for n in self.tree.body:
            if isinstance(n, ast.Assign) and len(n.targets) == 1 and isinstance(n.targets[0], ast.Name):
                self._maybe_table(n.targets[0].id, n.value)
            elif isinstance(n, ast.AnnAssign) and isinstance(n.target, ast.Name) and n.value is not None:
                self._maybe_table(n.target.id, n.value)
            elif isinstance(n, ast.FunctionDef):
                self.funcs[n.name] = n
            elif isinstance(n, ast.ClassDef):
                for st in ast.walk(n):
                    if isinstance(st, ast.AnnAssign):
                        nm = st.target.id if isinstance(st.target, ast.Name) else st.target.attr if isinstance(st.target, ast.Attribute) else None
                        if nm:
                            self.ann.setdefault(nm, set()).add(ast.unparse(st.annotation))
                    elif isinstance(st, ast.FunctionDef):
                        self.funcs[f'{n.name}.{st.name}'] = st
                        if st.name == '__init__':
                            for a in st.args.args + st.args.kwonlyargs:
                                if a.annotation is not None:
                                    self.ann.setdefault(a.arg, set()).add(ast.unparse(a.annotation))
                        if any(isinstance(d, ast.Name) and d.id == 'property' for d in st.decorator_list) and st.returns is not None:
                            self.ann.setdefault(st.name, set()).add(ast.unparse(st.returns))

    def _maybe_table(self, name: str, v: ast.AST) -> None:
        """Module-level dict whose keys and values are constants or enum members: a fixed vocabulary."""
        if isinstance(v, ast.Dict) and v.keys and all(isinstance(k, (ast.Constant, ast.Attribute)) for k in v.keys) \
                and all(isinstance(x, (ast.Constant, ast.Attribute)) for x in v.values):
            self.const_tables.add(name)
        if isinstance(v, ast.DictComp):
            self.const_tables.add(name)

    # ---- typing of an expression
    def type_of(self, e: ast.AST, env: dict[str, str], where: str) -> str:
        if isinstance(e, ast.Constant):
            return 'TyWord' if isinstance(e.value, str) else 'TyNum'
        if isinstance(e, ast.BoolOp) and isinstance(e.op, ast.Or) and len(e.values) == 2 and isinstance(e.values[1], ast.Constant):
            return self.type_of(e.values[0], env, where)
        if isinstance(e, ast.Name):
            if env.get(e.id, 'unknown') not in ('unknown', 'TyStrSeq'):
                return env[e.id]
            raise TranslateError(f'{self.rel}: {where}: written name `{e.id}` has no known type')
        if isinstance(e, ast.Subscript):
            if isinstance(e.value, ast.Name) and e.value.id in self.const_tables:
                return 'TyWord'
            if isinstance(e.value, ast.Name) and env.get(e.value.id) == 'TyStrSeq':
                return 'TyStr'                 # an element of a collection of strings
            return self.type_of(e.value, env, where)
        if isinstance(e, ast.Call):
            fn = ast.unparse(e.func)
            if fn == 'join_float':
                return 'TyPair'
            if isinstance(e.func, ast.Attribute) and e.func.attr in ('lower', 'upper', 'casefold') and not e.args:
                return self.type_of(e.func.value, env, where)
            if fn in ('len', 'int', 'round'):
                return 'TyNum'
            raise TranslateError(f'{self.rel}: {where}: written call `{ast.unparse(e)}` not recognised')
        if isinstance(e, ast.Attribute):
            if e.attr == 'name' and isinstance(e.value, ast.Attribute) and self._kind(e.value.attr) == 'TyWord':
                return 'TyWord'        # enum member name
            return self._kind(e.attr, where)
        raise TranslateError(f'{self.rel}: {where}: written expression `{ast.unparse(e)}` not recognised')

    def _kind(self, attr: str, where: str | None = None) -> str:
        anns = self.ann.get(attr)
        if not anns:
            if where is None:
                return '?'
            raise TranslateError(f'{self.rel}: {where}: attribute `{attr}` has no annotation in this module')
        if any(re.search(r'\bstr\b', a) for a in anns):
            return 'TyStr'
        if all(re.fullmatch(r'(Optional\[)?(int|float|bool)(\])?( \| None)?', a) for a in anns):
            return 'TyNum'
        return 'TyWord'

    # ---- pieces of a written string
    def pieces(self, e: ast.AST, env: dict[str, str], tpl: dict[str, list], where: str) -> list[list]:
        """-> list of alternatives; each alternative is a list of ('lit', text) / ('fld', esc: bool, type, source)."""
        if isinstance(e, ast.Constant) and isinstance(e.value, str):
            return [[('lit', e.value)]]
        if isinstance(e, ast.IfExp):
            return self.pieces(e.body, env, tpl, where) + self.pieces(e.orelse, env, tpl, where)
        if isinstance(e, ast.BinOp) and isinstance(e.op, ast.Add):
            return [a + b for a in self.pieces(e.left, env, tpl, where) for b in self.pieces(e.right, env, tpl, where)]
        if isinstance(e, ast.JoinedStr):
            alts: list[list] = [[]]
            for v in e.values:
                if isinstance(v, ast.Constant):
                    alts = [a + [('lit', v.value)] for a in alts]
                    continue
                if v.conversion != -1:
                    raise TranslateError(f'{self.rel}: {where}: !r / !s conversion in a written f-string')
                inner = v.value
                if v.format_spec is not None:
                    spec = ''.join(x.value for x in v.format_spec.values if isinstance(x, ast.Constant))
                    if not re.fullmatch(r'\.?\d*[dfg]?', spec):
                        raise TranslateError(f'{self.rel}: {where}: format spec {spec!r} not recognised')
                    alts = [a + [('fld', False, 'TyNum', ast.unparse(inner))] for a in alts]
                    continue
                if isinstance(inner, ast.Name) and inner.id in tpl:
                    alts = [a + b for a in alts for b in tpl[inner.id]]
                    continue
                if isinstance(inner, ast.Name) and env.get(inner.id) == 'layout':
                    alts = [a + [('lit', _IND)] for a in alts]        # the run-time indent: a marker character inside the literal
                    continue
                if isinstance(inner, ast.Call) and ast.unparse(inner.func) == 'escape_text' and len(inner.args) == 1:
                    ty = self.type_of(inner.args[0], env, where)
                    alts = [a + [('fld', True, ty, ast.unparse(inner.args[0]))] for a in alts]
                    continue
                ty = self.type_of(inner, env, where)
                alts = [a + [('fld', False, ty, ast.unparse(inner))] for a in alts]
            return alts
        if isinstance(e, ast.Name) and e.id in tpl:
            return tpl[e.id]
        if isinstance(e, (ast.Attribute, ast.Name, ast.Subscript, ast.Call)):
            return [[('fld', False, self.type_of(e, env, where), ast.unparse(e))]]
        raise TranslateError(f'{self.rel}: {where}: written expression `{ast.unparse(e)}` not recognised')

    def record(self, alts: list[list], line: int, cond: dict[str, str] | None = None) -> None:
        for alt in alts:
            flat: list = []
            for p in alt:       # merge literals
                if p[0] == 'lit' and flat and flat[-1][0] == 'lit':
                    flat[-1] = ('lit', flat[-1][1] + p[1])
                elif not (p[0] == 'lit' and p[1] == ''):
                    flat.append(p)
            self.lines.append((self.cur_fn, [('lit', p[1]) if p[0] == 'lit' else ('fld', self.alias.get(p[3], p[3]), bool(p[1])) for p in flat]))
            if cond and any(p[0] == 'fld' and p[3] in cond for p in flat):
                self.cond_lines.append([('lit', p[1]) if p[0] == 'lit' else ('fld', p[3] in cond, self.alias.get(p[3], p[3])) for p in flat])
            for i, p in enumerate(flat):
                if p[0] != 'fld':
                    continue
                before = flat[i - 1][1] if i > 0 and flat[i - 1][0] == 'lit' else ''
                after = flat[i + 1][1] if i + 1 < len(flat) and flat[i + 1][0] == 'lit' else ''
                quoted = before.endswith('"') and after.startswith('"')
                if cond and p[3] in cond:
                    klass = 'FCondQuoted'
                elif p[1]:
                    klass = 'FEscQuoted' if quoted else 'FEscBare'
                else:
                    klass = 'FRawQuoted' if quoted else 'FRawBare'
                site = (line, klass, p[2], p[3])
                if site not in self.sites:
                    self.sites.append(site)

    # ---- walking a function
    def walk(self, key: str, const_params: dict[str, str] | None = None) -> ast.FunctionDef:
        fn = self.funcs.get(key)
        if fn is None:
            raise TranslateError(f'{self.rel}: function {key} not found')
        env: dict[str, str] = {}
        for a in fn.args.args:
            ann = ast.unparse(a.annotation) if a.annotation is not None else ''
            if a.arg in ('indent', 'start_indent'):
                env[a.arg] = 'layout'
            elif a.arg in self.file_names or a.arg in ('self', 'cls'):
                continue
            elif ann == 'str':
                env[a.arg] = (const_params or {}).get(a.arg, 'TyStr')
            elif re.search(r'\bstr\b', ann):
                env[a.arg] = 'TyStrSeq'        # a collection of strings: its elements are free text
            elif ann in ('int', 'float', 'bool'):
                env[a.arg] = 'TyNum'
            else:
                env[a.arg] = 'TyWord'
        tpl: dict[str, list] = {}
        cond: dict[str, str] = {}
        outer = self.cur_fn
        if not self._stack:
            self.cur_fn = key                  # writes of a helper are writes of the function that calls it
        self._stack.append(key)
        try:
            self._block(fn.body, env, tpl, cond, key)
        finally:
            self._stack.pop()
            self.cur_fn = outer if self._stack else self.cur_fn
        return fn

    def _helper_call(self, st: ast.stmt, key: str) -> str | None:
        """`helper(file, ...)` / `self.helper(file, ...)` as a statement, the helper defined in this module (same class for a method) and
        given the file object: the key of the function to walk."""
        if not (isinstance(st, ast.Expr) and isinstance(st.value, ast.Call)):
            return None
        c = st.value
        if not any(isinstance(a, ast.Name) and a.id in self.file_names for a in list(c.args) + [k.value for k in c.keywords]):
            return None
        if isinstance(c.func, ast.Name) and c.func.id in self.funcs:
            return c.func.id
        if isinstance(c.func, ast.Attribute) and isinstance(c.func.value, ast.Name) and c.func.value.id in ('self', 'cls') and '.' in key:
            k2 = f"{key.split('.')[0]}.{c.func.attr}"
            if k2 in self.funcs:
                return k2
        return None

    def _is_write(self, st: ast.stmt) -> ast.AST | None:
        for nm in self.file_names:
            a = _is_file_write(st, nm)
            if a is not None:
                return a
        return None

    def _block(self, stmts: list[ast.stmt], env: dict[str, str], tpl: dict[str, list], cond: dict[str, str], key: str) -> None:
        for st in stmts:
            where = f'{key} line {st.lineno}'
            a = self._is_write(st)
            if a is not None:
                self.record(self.pieces(a, env, tpl, where), st.lineno, cond)
                continue
            if isinstance(st, ast.If):
                # VMT: if _needs_quotes(x): x = f'"{x}"'
                t = st.test
                if isinstance(t, ast.Call) and isinstance(t.func, ast.Name) and t.func.id.startswith('_needs_quotes') and len(t.args) == 1 \
                        and isinstance(t.args[0], ast.Name) and len(st.body) == 1 and not st.orelse and isinstance(st.body[0], ast.Assign) \
                        and ast.unparse(st.body[0].targets[0]) == t.args[0].id and ast.unparse(st.body[0].value) == f"""f'"{{{t.args[0].id}}}"'""":
                    cond[t.args[0].id] = t.func.id
                    continue
                self._block(st.body, env, tpl, cond, key)
                self._block(st.orelse, env, tpl, cond, key)
                continue
            if isinstance(st, ast.For):
                tgt, it = st.target, st.iter
                if isinstance(tgt, ast.Name):
                    ty = 'TyWord'
                    if isinstance(it, ast.Attribute):
                        anns = self.ann.get(it.attr, set())
                        if any(re.search(r'\bstr\b', x) for x in anns):
                            ty = 'TyStr'
                    elif isinstance(it, ast.Name) and env.get(it.id) == 'TyStrSeq':
                        ty = 'TyStr'
                    env[tgt.id] = ty
                elif isinstance(tgt, ast.Tuple) and isinstance(it, (ast.List, ast.Tuple)) and all(
                        isinstance(el, ast.Tuple) and len(el.elts) == len(tgt.elts) for el in it.elts):
                    # a literal table of rows: a column of string constants is a fixed vocabulary
                    for col, x in enumerate(tgt.elts):
                        cells = [el.elts[col] for el in it.elts]
                        if all(isinstance(c, ast.Constant) and isinstance(c.value, str) for c in cells):
                            env[x.id] = 'TyWord'
                        else:
                            kinds = {self.type_of(c, env, where) for c in cells}
                            env[x.id] = kinds.pop() if len(kinds) == 1 else 'TyWord'
                elif isinstance(tgt, ast.Tuple) and isinstance(it, ast.Call) and isinstance(it.func, ast.Attribute) and it.func.attr == 'items':
                    base = it.func.value
                    if isinstance(base, ast.Name) and base.id in self.const_tables:
                        for x in tgt.elts:
                            env[x.id] = 'TyWord'
                    else:
                        anns = self.ann.get(base.attr, set()) if isinstance(base, ast.Attribute) else set()
                        ty = 'TyStr' if any(re.search(r'\bstr\b', x) for x in anns) else 'TyWord'
                        for x in tgt.elts:
                            env[x.id] = ty
                self._block(st.body, env, tpl, cond, key)
                continue
            if isinstance(st, ast.Assign) and len(st.targets) == 1 and isinstance(st.targets[0], ast.Tuple) and isinstance(st.value, ast.Tuple) \
                    and len(st.targets[0].elts) == len(st.value.elts) and all(isinstance(x, ast.Name) for x in st.targets[0].elts) \
                    and not ({x.id for x in st.targets[0].elts} & {n.id for n in ast.walk(st.value) if isinstance(n, ast.Name)}):
                # a, b = X, Y  (no target read on the right)  ==  a = X; b = Y
                self._block([ast.copy_location(ast.Assign(targets=[x], value=y), st) for x, y in zip(st.targets[0].elts, st.value.elts)],
                            env, tpl, cond, key)
                continue
            if isinstance(st, ast.Assign) and len(st.targets) == 1 and isinstance(st.targets[0], ast.Name):
                nm = st.targets[0].id
                v = self._inline_helper(st.value)
                self.alias.pop(nm, None)
                if isinstance(v, ast.Attribute):
                    self.alias[nm] = ast.unparse(v)
                cq = self._cond_quoted(v)
                if cq is not None:
                    # x = f'"{E}"' if _needs_quotes(E) else E      (also through a helper: x = _quote_if_needed(E))
                    src = ast.unparse(cq)
                    cond[src] = 'needs_quotes'
                    tpl[nm] = [[('fld', False, self.type_of(cq, env, where), src)]]
                    continue
                if isinstance(v, ast.Call) and ast.unparse(v.func) == 'escape_text' and len(v.args) == 1 and not v.keywords:
                    tpl[nm] = [[('fld', True, self.type_of(v.args[0], env, where), ast.unparse(v.args[0]))]]
                    continue
                if isinstance(v, (ast.JoinedStr, ast.IfExp)) or (isinstance(v, ast.Constant) and isinstance(v.value, str)):
                    try:
                        alts = self.pieces(v, env, tpl, where)
                    except TranslateError:
                        alts = None
                    if alts is not None:
                        tpl[nm] = tpl.get(nm, []) + alts
                        continue
                if isinstance(v, ast.Attribute):
                    env[nm] = self._kind(v.attr) if self._kind(v.attr) != '?' else 'TyWord'
                elif isinstance(v, ast.Name) and v.id in env:
                    env[nm] = env[v.id]
                elif isinstance(v, ast.Name) and v.id.isupper():
                    env[nm] = 'TyWord'             # a module-level constant
                elif isinstance(v, ast.BinOp) and isinstance(v.op, ast.Add) and all(
                        (isinstance(x, ast.Name) and env.get(x.id) == 'layout') or (isinstance(x, ast.Constant) and isinstance(x.value, str) and not x.value.strip())
                        for x in (v.left, v.right)):
                    env[nm] = 'layout'
                else:
                    env[nm] = 'unknown'            # fails closed if it is ever written
                continue
            k2 = self._helper_call(st, key)
            if k2 is not None and k2 not in self._stack and len(self._stack) < 4:
                self.walk(k2)                  # its writes belong to the census of the caller
                continue
            if isinstance(st, (ast.Expr, ast.Return, ast.Pass, ast.Assert, ast.AnnAssign, ast.AugAssign, ast.Raise)):
                if any(isinstance(n, ast.Call) and isinstance(n.func, ast.Attribute) and n.func.attr == 'write'
                       and isinstance(n.func.value, ast.Name) and n.func.value.id in self.file_names for n in ast.walk(st)):
                    raise TranslateError(f'{self.rel}: {where}: write in a position that is not modelled')
                continue
            if isinstance(st, (ast.With, ast.Try, ast.While)):
                raise TranslateError(f'{self.rel}: {where}: statement {type(st).__name__} not modelled in a text writer')

    def _inline_helper(self, v: ast.AST, depth: int = 0) -> ast.AST:
        """`helper(a, b)` with `def helper(p, q): return EXPR` at module level (one return, positional or keyword arguments,
        every parameter used at most ... as often as it likes: the arguments here are attribute reads without effects) -> EXPR[p:=a, q:=b]."""
        if not (isinstance(v, ast.Call) and isinstance(v.func, ast.Name) and v.func.id in self.funcs) or depth > 3:
            return v
        fn = self.funcs[v.func.id]
        ret = _body_as_expr(fn.body)       # if c: return A / return B   ==   return A if c else B
        if ret is None:
            return v
        params = [a.arg for a in fn.args.args]
        if fn.args.vararg or fn.args.kwarg or fn.args.kwonlyargs or len(v.args) > len(params):
            return v
        bind = dict(zip(params, v.args))
        for kw in v.keywords:
            if kw.arg not in params or kw.arg in bind:
                return v
            bind[kw.arg] = kw.value
        if set(bind) != set(params):
            return v
        if not all(isinstance(a, (ast.Name, ast.Attribute, ast.Constant)) for a in bind.values()):
            return v                       # an argument with effects must not be duplicated

        class Sub(ast.NodeTransformer):
            def visit_Name(self, node: ast.Name) -> ast.AST:
                return bind[node.id] if node.id in bind else node
        import copy as _copy
        return self._inline_helper(ast.fix_missing_locations(Sub().visit(_copy.deepcopy(ret))), depth + 1)

    @staticmethod
    def _cond_quoted(v: ast.AST) -> ast.AST | None:
        """`f'"{E}"' if _needs_quotes(E) else E`  (or `E if not _needs_quotes(E) else f'"{E}"'`) -> E"""
        if not isinstance(v, ast.IfExp):
            return None
        t, a, b = v.test, v.body, v.orelse
        if isinstance(t, ast.UnaryOp) and isinstance(t.op, ast.Not):
            t, a, b = t.operand, b, a
        if isinstance(t, ast.Call) and isinstance(t.func, ast.Name) and t.func.id.startswith('_needs_quotes') and len(t.args) == 1 and not t.keywords:
            e = ast.unparse(t.args[0])
            if ast.unparse(b) == e and isinstance(a, ast.JoinedStr) and ast.unparse(a) == f"""f'"{{{e}}}"'""":
                return t.args[0]
        return None

    def const_callers(self, method: str, param_index: int) -> bool:
        """Every call `X.<method>(...)` in the module passes a string literal at the given position."""
        ok = False
        for n in ast.walk(self.tree):
            if isinstance(n, ast.Call) and isinstance(n.func, ast.Attribute) and n.func.attr == method and len(n.args) > param_index:
                if not (isinstance(n.args[param_index], ast.Constant) and isinstance(n.args[param_index].value, str)):
                    return False
                ok = True
        return ok


def _coq_sites(name: str, sites: list[tuple[int, str, str, str]]) -> str:
    body = ';\n'.join(f'  mkSite {ln} {k} {t}   (* {src} *)' if False else f'  mkSite {ln} {k} {t}' for ln, k, t, src in sites)
    return f'Definition {name} : list fsite := [\n{body}\n].'


def _self_attr(e: ast.AST) -> str | None:
    return e.attr if isinstance(e, ast.Attribute) and isinstance(e.value, ast.Name) and e.value.id == 'self' else None


def _strip_test(e: ast.AST) -> ast.AST:
    """The object a test looks at: `x`, `not x`, `bool(x)`, `len(x) > 0`, `x is not None`, `x is None` -> x."""
    while True:
        if isinstance(e, ast.UnaryOp) and isinstance(e.op, ast.Not):
            e = e.operand
        elif isinstance(e, ast.Call) and isinstance(e.func, ast.Name) and e.func.id in ('bool', 'len') and len(e.args) == 1 and not e.keywords:
            e = e.args[0]
        elif isinstance(e, ast.Compare) and len(e.ops) == 1:
            e = e.left
        else:
            return e


def _ends_in_return(body: list[ast.stmt]) -> bool:
    return bool(body) and isinstance(body[-1], ast.Return) and body[-1].value is None


def _early_return_to_else(stmts: list[ast.stmt]) -> list[ast.stmt]:
    """`if c: A; return` followed by B  ==  `if c: A  else: B` (recursively); statements after a bare `return` are dropped."""
    out: list[ast.stmt] = []
    for i, st in enumerate(stmts):
        if isinstance(st, ast.If) and not st.orelse and _ends_in_return(st.body):
            new = ast.If(test=st.test, body=_early_return_to_else(st.body[:-1]) or [ast.Pass()], orelse=_early_return_to_else(stmts[i + 1:]))
            ast.copy_location(new, st)
            out.append(new)
            return out
        if isinstance(st, ast.If):
            new = ast.If(test=st.test, body=_early_return_to_else(st.body), orelse=_early_return_to_else(st.orelse))
            ast.copy_location(new, st)
            out.append(new)
            continue
        out.append(st)
    return out


def _inline_self_aliases(cls: ast.ClassDef, fn: ast.FunctionDef) -> ast.FunctionDef:
    """Normalisation before the operator-stack census: `a, b = self.x, self.y` is split into single assignments, and a local that is
    assigned exactly once, from `self.<attr>`, is replaced by that attribute read everywhere (the assignment is dropped).  Moving the
    read is sound only if nothing can change the attribute in between: the function must not store to it, and -- lazy properties
    write their private field when read -- it must not read a field both directly and through a property that returns it.  Otherwise
    fail closed."""
    import copy
    fn = copy.deepcopy(fn)

    class Split(ast.NodeTransformer):
        def visit_Assign(self, n: ast.Assign):
            if len(n.targets) == 1 and isinstance(n.targets[0], ast.Tuple) and isinstance(n.value, ast.Tuple) \
                    and len(n.targets[0].elts) == len(n.value.elts) and all(isinstance(t, ast.Name) for t in n.targets[0].elts):
                names = {t.id for t in n.targets[0].elts}
                if not any(isinstance(x, ast.Name) and x.id in names for v in n.value.elts for x in ast.walk(v)):
                    return [ast.copy_location(ast.Assign(targets=[t], value=v), n) for t, v in zip(n.targets[0].elts, n.value.elts)]
            return n
    fn = ast.fix_missing_locations(Split().visit(fn))
    stores: dict[str, int] = {}
    for n in ast.walk(fn):
        if isinstance(n, ast.Name) and isinstance(n.ctx, (ast.Store, ast.Del)):
            stores[n.id] = stores.get(n.id, 0) + 1
    alias: dict[str, ast.Attribute] = {}
    for st in fn.body:
        if isinstance(st, ast.Assign) and len(st.targets) == 1 and isinstance(st.targets[0], ast.Name) and stores.get(st.targets[0].id) == 1 \
                and _self_attr(st.value) is not None:
            alias[st.targets[0].id] = st.value
    if not alias:
        return fn
    # which private field a property returns
    returns: dict[str, str] = {}
    for st in cls.body:
        if isinstance(st, ast.FunctionDef) and any(isinstance(d, ast.Name) and d.id == 'property' for d in st.decorator_list):
            for r in ast.walk(st):
                if isinstance(r, ast.Return) and r.value is not None and _self_attr(r.value):
                    returns[st.name] = _self_attr(r.value)
    aliased = {_self_attr(v) for v in alias.values()}
    read_attrs = {_self_attr(n) for n in ast.walk(fn) if isinstance(n, ast.Attribute) and isinstance(n.ctx, ast.Load) and _self_attr(n)}
    stored_attrs = {_self_attr(n) for n in ast.walk(fn) if isinstance(n, ast.Attribute) and isinstance(n.ctx, (ast.Store, ast.Del)) and _self_attr(n)}
    for a in aliased:
        if a in stored_attrs or returns.get(a) in stored_attrs:
            raise TranslateError(f'sndscript.py: Sound.{fn.name}: a local holds self.{a} while the function assigns that attribute')
        field = returns.get(a, a)
        twins = {field} | {p for p, f in returns.items() if f == field}
        if len((read_attrs | aliased) & twins) > 1:
            raise TranslateError(f'sndscript.py: Sound.{fn.name}: a local holds self.{a} while the same stack is also read as '
                                 f'{sorted(((read_attrs | aliased) & twins) - {a})} (a lazy property may create it in between)')

    class Subst(ast.NodeTransformer):
        def visit_Name(self, n: ast.Name):
            if isinstance(n.ctx, ast.Load) and n.id in alias:
                return ast.copy_location(copy.deepcopy(alias[n.id]), n)
            return n

        def visit_Assign(self, n: ast.Assign):
            if len(n.targets) == 1 and isinstance(n.targets[0], ast.Name) and n.targets[0].id in alias:
                return None
            return self.generic_visit(n)
    return ast.fix_missing_locations(Subst().visit(fn))


def _snd_stack_census(fn: ast.FunctionDef, parse_one: ast.FunctionDef, init: ast.FunctionDef) -> tuple[list, list, dict]:
    """Writer: (block name written, attribute guarding the block, attribute serialised into it).
    Reader: (block name looked up, attribute the result is stored in).
    Third result: the ASTs the executable model (Fmt/SndStacks.v) is generated from."""
    self_attr = _self_attr
    written: list[tuple[str, str, str]] = []
    blocks_ast: list[tuple[str, ast.AST, ast.AST, int, bool]] = []      # name, guard test, source, line, inside the v2 block
    v2_ifs: list[ast.If] = []
    v2_text: list[str] = []          # constant text written by export outside stack blocks

    def block_name(text: str) -> str | None:
        m = re.fullmatch(r'\s*([A-Za-z_]+)\s*\{\s*', text)
        return m.group(1) if m else None

    def has_serialise(n: ast.AST) -> bool:
        return any(isinstance(x, ast.Attribute) and x.attr == 'serialise' for x in ast.walk(n))

    def const_writes(stmts: list[ast.stmt]) -> list[str]:
        out = []
        for sub in stmts:
            a = _is_file_write(sub)
            if a is not None and isinstance(a, ast.Constant) and isinstance(a.value, str):
                out.append(a.value)
        return out

    def scan(stmts: list[ast.stmt], in_v2: bool) -> None:
        for st in stmts:
            if isinstance(st, ast.If):
                direct_loops = [sub for sub in st.body if isinstance(sub, ast.For) and any(
                    isinstance(x, ast.Expr) and isinstance(x.value, ast.Call) and isinstance(x.value.func, ast.Attribute)
                    and x.value.func.attr == 'serialise' for x in sub.body)]
                if direct_loops:
                    guard = self_attr(_strip_test(st.test))
                    names = [b for b in map(block_name, const_writes(st.body)) if b]
                    if guard is None or len(names) != 1 or len(direct_loops) != 1 or st.orelse:
                        raise TranslateError(f'sndscript.py: Sound.export line {st.lineno}: operator stack block not recognised')
                    src = direct_loops[0].iter
                    written.append((names[0], guard, self_attr(src) or ast.unparse(src)))
                    blocks_ast.append((names[0], st.test, src, st.lineno, in_v2))
                    continue
                texts = const_writes(st.body)
                is_v2 = any('operator_stacks' in t or 'soundentry_version' in t for t in texts)
                if not is_v2 and any('operator_stacks' in t or 'soundentry_version' in t for t in const_writes(st.orelse)):
                    if not (isinstance(st.test, ast.UnaryOp) and isinstance(st.test.op, ast.Not)):
                        raise TranslateError(f'sndscript.py: Sound.export line {st.lineno}: version-2 keys written when a test is false')
                    st = ast.copy_location(ast.If(test=st.test.operand, body=st.orelse, orelse=st.body), st)
                    texts = const_writes(st.body)
                    is_v2 = True
                if is_v2:
                    v2_ifs.append(st)
                    v2_text.extend(texts)
                    scan(st.body, True)
                    if has_serialise(ast.Module(body=st.orelse, type_ignores=[])):
                        raise TranslateError(f'sndscript.py: Sound.export line {st.lineno}: stack block in the else branch of the version-2 test')
                    continue
                scan(st.body, in_v2)
                scan(st.orelse, in_v2)
            elif isinstance(st, ast.For):
                # for name, stack in [('start_stack', self.stack_start), ...]: if not stack: continue; write name; serialise stack
                if isinstance(st.iter, (ast.List, ast.Tuple)) and isinstance(st.target, ast.Tuple) and len(st.target.elts) == 2 \
                        and has_serialise(st):
                    nm_var, st_var = (x.id for x in st.target.elts)
                    ser = [ast.unparse(n.iter) for n in ast.walk(st) if isinstance(n, ast.For) and n is not st]
                    guards = [ast.unparse(n.test) for n in ast.walk(st) if isinstance(n, ast.If)]
                    name_written = any(isinstance(n, ast.FormattedValue) and isinstance(n.value, ast.Name) and n.value.id == nm_var for n in ast.walk(st))
                    if ser != [st_var] or not name_written or len(guards) != 1 or not all(g in (f'not {st_var}', st_var) for g in guards):
                        raise TranslateError(f'sndscript.py: Sound.export line {st.lineno}: operator stack loop not recognised')
                    for el in st.iter.elts:
                        if not (isinstance(el, ast.Tuple) and len(el.elts) == 2 and isinstance(el.elts[0], ast.Constant) and self_attr(el.elts[1])):
                            raise TranslateError(f'sndscript.py: Sound.export line {st.lineno}: operator stack table entry not recognised')
                        written.append((el.elts[0].value, self_attr(el.elts[1]), self_attr(el.elts[1])))
                        blocks_ast.append((el.elts[0].value, el.elts[1], el.elts[1], st.lineno, in_v2))
                elif has_serialise(st):
                    raise TranslateError(f'sndscript.py: Sound.export line {st.lineno}: serialise loop outside a recognised stack block')
            else:
                a = _is_file_write(st)
                if a is not None and isinstance(a, ast.Constant) and isinstance(a.value, str) and not in_v2 \
                        and ('operator_stacks' in a.value or 'soundentry_version' in a.value):
                    raise TranslateError(f'sndscript.py: Sound.export line {st.lineno}: version-2 keys written outside a test')
    body = _early_return_to_else(fn.body)
    scan(body, False)
    # reader: a, b, c = (Keyvalues(stack_name, [... find_children('operator_stacks', stack_name)]) for stack_name in [names]) ; Sound(..., a, b, c, ...)
    read: list[tuple[str, str]] = []
    params = [a.arg for a in init.args.args][1:]
    ctor = None
    for n in ast.walk(parse_one):
        if isinstance(n, ast.Return) and isinstance(n.value, ast.Call) and ast.unparse(n.value.func) in ('Sound', 'cls'):
            ctor = n.value
    if ctor is None:
        raise TranslateError('sndscript.py: Sound.parse_one: constructor call not found')
    arg_of = {ast.unparse(a): p for p, a in zip(params, ctor.args)}
    arg_of.update({ast.unparse(k.value): k.arg for k in ctor.keywords})
    read_assign = None
    for n in ast.walk(parse_one):
        if isinstance(n, ast.Assign) and isinstance(n.targets[0], ast.Tuple) and isinstance(n.value, (ast.GeneratorExp, ast.ListComp)):
            g = n.value.generators[0]
            if isinstance(g.iter, (ast.List, ast.Tuple)) and all(isinstance(x, ast.Constant) for x in g.iter.elts) \
                    and 'find_children' in ast.unparse(n.value.elt) and len(g.iter.elts) == len(n.targets[0].elts):
                fc = [c for c in ast.walk(n.value.elt) if isinstance(c, ast.Call) and isinstance(c.func, ast.Attribute) and c.func.attr == 'find_children']
                if len(fc) != 1 or ast.unparse(fc[0].args[-1]) != ast.unparse(g.target):
                    raise TranslateError('sndscript.py: Sound.parse_one: stack lookup not recognised')
                read_assign = n
                for tgt, nm in zip(n.targets[0].elts, g.iter.elts):
                    p = arg_of.get(ast.unparse(tgt))
                    if p is None:
                        raise TranslateError(f'sndscript.py: Sound.parse_one: `{ast.unparse(tgt)}` is not passed to the constructor')
                    read.append((nm.value, p))
    if not read or not written:
        raise TranslateError('sndscript.py: operator stack blocks not found on both sides')
    # constructor parameter -> attribute
    attr_of: dict[str, str] = {}
    for n in ast.walk(init):
        if isinstance(n, ast.Assign) and self_attr(n.targets[0]) and isinstance(n.value, ast.Name):
            attr_of[n.value.id] = self_attr(n.targets[0])
    info = {'blocks_ast': blocks_ast, 'v2_ifs': v2_ifs, 'v2_text': v2_text, 'body': body, 'read_params': list(read), 'attr_of': attr_of,
            'ctor': ctor, 'params': params, 'read_assign': read_assign}
    # writer attributes are the public names (properties over the private fields the constructor fills)
    read = [(nm, attr_of.get(p, p).lstrip('_')) for nm, p in read]
    written = [(a, b.lstrip('_'), c.lstrip('_')) for a, b, c in written]
    return written, read, info


_STK = ['SStart', 'SUpdate', 'SStop']


def _snd_stack_model(cls: ast.ClassDef, fn: ast.FunctionDef, parse_one: ast.FunctionDef, info: dict) -> tuple[list[str], dict]:
    """The census Fmt/SndStacks.v runs on: the terms of the test that switches the version-2 keys on, and per stack block its
    guard term and source; a term is `GForce`, `GTruthy pub s` (truthiness) or `GPresent pub s` (`is not None`), pub = through a
    LAZY property (one that stores an empty block when the private field is None).  The three stacks are the private fields
    the reader fills from its first / second / third looked-up block."""
    read = info['read_params']
    attr_of = info['attr_of']
    if len(read) != 3:
        raise TranslateError(f'sndscript.py: Sound.parse_one reads {len(read)} operator stacks; the model has three')
    field_of_block = {nm: attr_of.get(p, p) for nm, p in read}          # block name -> attribute the constructor stores it in
    fields = [field_of_block[nm] for nm, _ in read]
    if len(set(fields)) != 3:
        raise TranslateError('sndscript.py: two operator stack blocks are stored in the same attribute')
    stk_of_field = {f: _STK[i] for i, f in enumerate(fields)}
    # ---- properties: public name -> (field, lazy)
    props: dict[str, tuple[str, bool]] = {}
    for st in cls.body:
        if isinstance(st, ast.FunctionDef) and any(isinstance(d, ast.Name) and d.id == 'property' for d in st.decorator_list):
            body = [b for b in st.body if not (isinstance(b, ast.Expr) and isinstance(b.value, ast.Constant))]
            if not body or not isinstance(body[-1], ast.Return):
                continue
            f = _self_attr(body[-1].value) if body[-1].value is not None else None
            if f not in stk_of_field:
                if any(_self_attr(n) in stk_of_field for n in ast.walk(st)):
                    raise TranslateError(f'sndscript.py: property Sound.{st.name} uses a stack field in a way that is not modelled')
                continue
            if len(body) == 1:
                props[st.name] = (f, False)
                continue
            ok = False
            if len(body) == 2 and isinstance(body[0], ast.If) and not body[0].orelse and len(body[0].body) == 1:
                t, a = body[0].test, body[0].body[0]
                is_none = isinstance(t, ast.Compare) and len(t.ops) == 1 and isinstance(t.ops[0], ast.Is) and _self_attr(t.left) == f \
                    and isinstance(t.comparators[0], ast.Constant) and t.comparators[0].value is None
                empty_kv = isinstance(a, ast.Assign) and len(a.targets) == 1 and _self_attr(a.targets[0]) == f and isinstance(a.value, ast.Call) \
                    and ast.unparse(a.value.func) == 'Keyvalues' and len(a.value.args) == 2 and isinstance(a.value.args[1], ast.List) \
                    and not a.value.args[1].elts
                ok = is_none and empty_kv
            if not ok:
                raise TranslateError(f'sndscript.py: property Sound.{st.name} is neither `return self.{f}` nor the lazy empty-block getter')
            props[st.name] = (f, True)

    def stack_of(e: ast.AST, where: str) -> tuple[str, str]:
        a = _self_attr(e)
        if a in stk_of_field:
            return 'false', stk_of_field[a]
        if a in props:
            return ('true' if props[a][1] else 'false'), stk_of_field[props[a][0]]
        raise TranslateError(f'sndscript.py: Sound.export {where}: `{ast.unparse(e)}` is not an operator stack of the sound')
    # ---- the force flag: the attribute the constructor stores the parameter in that the reader passes `version == 2` to
    ctor, params = info['ctor'], info['params']
    locals_r: dict[str, ast.AST] = {}
    for n in ast.walk(parse_one):
        if isinstance(n, ast.Assign) and len(n.targets) == 1 and isinstance(n.targets[0], ast.Name):
            locals_r[n.targets[0].id] = n.value if n.targets[0].id not in locals_r else None
    force_param = None
    reader_force_ok = False
    for p, a in list(zip(params, ctor.args)) + [(k.arg, k.value) for k in ctor.keywords]:
        if isinstance(a, ast.Compare) and len(a.ops) == 1 and isinstance(a.ops[0], ast.Eq) and isinstance(a.comparators[0], ast.Constant):
            left = a.left
            if isinstance(left, ast.Name) and locals_r.get(left.id) is not None:
                left = locals_r[left.id]
            if isinstance(left, ast.Call) and isinstance(left.func, ast.Attribute) and left.func.attr == 'int' and left.args \
                    and isinstance(left.args[0], ast.Constant) and left.args[0].value == 'soundentry_version':
                force_param = p
                default = left.args[1].value if len(left.args) > 1 and isinstance(left.args[1], ast.Constant) else 0
                reader_force_ok = a.comparators[0].value == 2 and default != 2
    if force_param is None:
        raise TranslateError('sndscript.py: Sound.parse_one: no constructor argument of the form `soundentry_version == N`')
    force_attr = attr_of.get(force_param, force_param)
    # ---- the reader builds the stacks only under `'operator_stacks' in sound_kv`, None otherwise
    reader_block_ok = False
    for n in ast.walk(parse_one):
        if isinstance(n, ast.If) and info['read_assign'] is not None and any(x is info['read_assign'] for x in ast.walk(ast.Module(body=n.body, type_ignores=[]))):
            t = n.test
            if isinstance(t, ast.Compare) and len(t.ops) == 1 and isinstance(t.ops[0], ast.In) and isinstance(t.left, ast.Constant) \
                    and t.left.value == 'operator_stacks':
                none_targets: set[str] = set()
                for o in n.orelse:
                    if isinstance(o, ast.Assign) and isinstance(o.value, ast.Constant) and o.value.value is None:
                        none_targets |= {x.id for x in o.targets if isinstance(x, ast.Name)}
                reader_block_ok = none_targets == {ast.unparse(x) for x in info['read_assign'].targets[0].elts}
    # ---- terms of a test, with locals of export inlined
    locals_w: dict[str, ast.AST | None] = {}
    for n in ast.walk(fn):
        if isinstance(n, (ast.Assign, ast.AnnAssign)) and isinstance(n.targets[0] if isinstance(n, ast.Assign) else n.target, ast.Name):
            nm = (n.targets[0] if isinstance(n, ast.Assign) else n.target).id
            locals_w[nm] = n.value if nm not in locals_w else None
        elif isinstance(n, (ast.For, ast.comprehension)):
            for x in ast.walk(n.target):
                if isinstance(x, ast.Name):
                    locals_w[x.id] = None

    def terms(e: ast.AST, where: str, depth: int = 0) -> list[str]:
        if depth > 8:
            raise TranslateError(f'sndscript.py: Sound.export {where}: test nested too deeply')
        if isinstance(e, ast.BoolOp) and isinstance(e.op, ast.Or):
            return [t for v in e.values for t in terms(v, where, depth + 1)]
        if isinstance(e, ast.Call) and isinstance(e.func, ast.Name) and e.func.id == 'any' and len(e.args) == 1 and not e.keywords \
                and isinstance(e.args[0], (ast.List, ast.Tuple)):
            return [t for v in e.args[0].elts for t in terms(v, where, depth + 1)]
        if isinstance(e, ast.Call) and isinstance(e.func, ast.Name) and e.func.id == 'bool' and len(e.args) == 1 and not e.keywords:
            return terms(e.args[0], where, depth + 1)
        if isinstance(e, ast.Name):
            if locals_w.get(e.id) is None:
                raise TranslateError(f'sndscript.py: Sound.export {where}: `{e.id}` is not a local assigned exactly once')
            return terms(locals_w[e.id], where, depth + 1)
        if _self_attr(e) == force_attr:
            return ['GForce']
        if isinstance(e, ast.Compare) and len(e.ops) == 1 and isinstance(e.comparators[0], ast.Constant):
            op, c = e.ops[0], e.comparators[0].value
            if isinstance(op, ast.IsNot) and c is None:
                pub, s = stack_of(e.left, where)
                return [f'GPresent {pub} {s}']
            if isinstance(e.left, ast.Call) and isinstance(e.left.func, ast.Name) and e.left.func.id == 'len' and len(e.left.args) == 1 \
                    and ((isinstance(op, (ast.Gt, ast.NotEq)) and c == 0) or (isinstance(op, ast.GtE) and c == 1)):
                pub, s = stack_of(e.left.args[0], where)
                if pub != 'true':
                    raise TranslateError(f'sndscript.py: Sound.export {where}: len() of a field that may be None')
                return [f'GTruthy {pub} {s}']
        if isinstance(e, ast.UnaryOp) and isinstance(e.op, ast.Not) and isinstance(e.operand, ast.Compare) and len(e.operand.ops) == 1 \
                and isinstance(e.operand.ops[0], ast.Is) and isinstance(e.operand.comparators[0], ast.Constant) and e.operand.comparators[0].value is None:
            pub, s = stack_of(e.operand.left, where)
            return [f'GPresent {pub} {s}']
        if _self_attr(e) is not None:
            pub, s = stack_of(e, where)
            return [f'GTruthy {pub} {s}']
        raise TranslateError(f'sndscript.py: Sound.export {where}: test `{ast.unparse(e)}` is not a disjunction of force flag / stack tests')
    if len(info['v2_ifs']) != 1:
        raise TranslateError(f'sndscript.py: Sound.export: {len(info["v2_ifs"])} tests guard the version-2 keys; expected one')
    v2 = info['v2_ifs'][0]
    test = v2.test
    if isinstance(test, ast.UnaryOp) and isinstance(test.op, ast.Not):
        raise TranslateError('sndscript.py: Sound.export: version-2 keys written when the test is false')
    guard = terms(test, f'line {v2.lineno}')
    all_text = ''.join(info['v2_text'])
    writes_both = bool(re.search(r'soundentry_version\s+2\s', all_text)) and 'operator_stacks' in all_text
    blocks = []
    for name, g, src, line, in_v2 in info['blocks_ast']:
        if not in_v2:
            raise TranslateError(f'sndscript.py: Sound.export line {line}: stack block outside the operator_stacks block')
        if name not in field_of_block:
            raise TranslateError(f'sndscript.py: Sound.export line {line}: block `{name}` is not one the reader looks up')
        gt = terms(g, f'line {line}')
        if len(gt) != 1:
            raise TranslateError(f'sndscript.py: Sound.export line {line}: stack block guarded by {len(gt)} tests')
        pub, s = stack_of(src, f'line {line}')
        blocks.append(f'mkW {stk_of_field[field_of_block[name]]} ({gt[0]}) {pub} {s}')
    lines = [
        f'Definition snd_v2_guard : list gterm := [{"; ".join(guard)}].   (* line {v2.lineno}: {ast.unparse(test)[:150]} *)',
        f'Definition snd_stack_blocks : list wblock := [{"; ".join(blocks)}].',
        f'Definition snd_v2_test_writes_version_2_and_the_stacks_block : bool := {str(writes_both).lower()}.',
        f'Definition snd_reader_force_is_version_eq_2 : bool := {str(reader_force_ok).lower()}.',
        f'Definition snd_reader_stacks_exist_iff_block_present : bool := {str(reader_block_ok).lower()}.',
    ]
    side = {'v2_guard': guard, 'stack_blocks': blocks, 'lazy_properties': {k: list(v) for k, v in props.items()}, 'force_attr': force_attr,
            'stack_fields': fields, 'ctor_param_of_field': {attr_of.get(p, p): p for _, p in read}}
    return lines, side


def _vmt_needs_quotes(vmt_tree: ast.Module) -> tuple[str, dict]:
    """vmt._needs_quotes as a decision table: `not text or text[0] in LEADING or any(c in DISALLOWED for c in text)`; the names are
    resolved to string / frozenset literals in vmt.py or, for names imported from the tokenizer, in tokenizer.py."""
    fn = next((n for n in vmt_tree.body if isinstance(n, ast.FunctionDef) and n.name == '_needs_quotes'), None)
    if fn is None or len(fn.args.args) != 1:
        raise TranslateError('vmt.py: _needs_quotes(text) not found')
    arg = fn.args.args[0].arg
    e = _body_as_expr(fn.body, boolean=True)
    if e is None:
        raise TranslateError('vmt.py: _needs_quotes is not a chain of returns / early returns / a search loop')
    tok_tree = ast.parse(src_text('tokenizer.py'))

    def chars(x: ast.AST, depth: int = 0) -> str:
        if isinstance(x, ast.Constant) and isinstance(x.value, str):
            return x.value
        if isinstance(x, ast.Call) and ast.unparse(x.func) in ('frozenset', 'set', 'tuple', 'list') and len(x.args) == 1 and not x.keywords:
            return chars(x.args[0], depth + 1)
        if isinstance(x, (ast.Tuple, ast.List, ast.Set)) and x.elts and all(
                isinstance(c, ast.Constant) and isinstance(c.value, str) and len(c.value) == 1 for c in x.elts):
            return ''.join(c.value for c in x.elts)      # membership of ONE character: the same test as `in '<those characters>'`
        if isinstance(x, ast.Name) and depth < 3:
            for tree in (vmt_tree, tok_tree):
                for n in tree.body:
                    tgt = n.targets[0] if isinstance(n, ast.Assign) and len(n.targets) == 1 else n.target if isinstance(n, ast.AnnAssign) else None
                    if isinstance(tgt, ast.Name) and tgt.id == x.id and getattr(n, 'value', None) is not None:
                        return chars(n.value, depth + 1)
        raise TranslateError(f'vmt.py: _needs_quotes: character set `{ast.unparse(x)}` not recognised')
    empty = False
    leading = ''
    disallowed = ''
    for t in _or_terms(e):
        if isinstance(t, ast.UnaryOp) and isinstance(t.op, ast.Not) and isinstance(t.operand, ast.Name) and t.operand.id == arg:
            empty = True
        elif isinstance(t, ast.UnaryOp) and isinstance(t.op, ast.Not) and ast.unparse(t.operand) == f'len({arg})':
            empty = True
        elif isinstance(t, ast.Compare) and len(t.ops) == 1 and ast.unparse(t.left) == f'len({arg})' and isinstance(t.comparators[0], ast.Constant) \
                and ((isinstance(t.ops[0], ast.Eq) and t.comparators[0].value == 0) or (isinstance(t.ops[0], ast.Lt) and t.comparators[0].value == 1)):
            empty = True
        elif isinstance(t, ast.Compare) and len(t.ops) == 1 and isinstance(t.ops[0], ast.Eq) and ast.unparse(t.left) == arg \
                and isinstance(t.comparators[0], ast.Constant) and t.comparators[0].value == '':
            empty = True
        elif isinstance(t, ast.Compare) and len(t.ops) == 1 and isinstance(t.ops[0], ast.In) and ast.unparse(t.left) in (f'{arg}[0]', f'{arg}[:1]'):
            if not empty:
                raise TranslateError('vmt.py: _needs_quotes: first character tested before the empty string is excluded')
            leading += chars(t.comparators[0])
        elif isinstance(t, ast.Call) and ast.unparse(t.func) == f'{arg}.startswith' and len(t.args) == 1 and isinstance(t.args[0], ast.Tuple) \
                and all(isinstance(x, ast.Constant) and isinstance(x.value, str) and len(x.value) == 1 for x in t.args[0].elts):
            leading += ''.join(x.value for x in t.args[0].elts)
        elif isinstance(t, ast.Call) and isinstance(t.func, ast.Name) and t.func.id == 'any' and len(t.args) == 1 \
                and isinstance(t.args[0], ast.GeneratorExp) and len(t.args[0].generators) == 1 and not t.args[0].generators[0].ifs \
                and ast.unparse(t.args[0].generators[0].iter) == arg and isinstance(t.args[0].generators[0].target, ast.Name) \
                and isinstance(t.args[0].elt, ast.Compare) and len(t.args[0].elt.ops) == 1 and isinstance(t.args[0].elt.ops[0], ast.In) \
                and ast.unparse(t.args[0].elt.left) == t.args[0].generators[0].target.id:
            disallowed += chars(t.args[0].elt.comparators[0])
        else:
            raise TranslateError(f'vmt.py: _needs_quotes: term `{ast.unparse(t)}` not recognised')

    def cl(x: str) -> str:
        return '[' + '; '.join(str(ord(c)) for c in sorted(set(x))) + ']%N'
    line = f'Definition vmt_nq : nqcfg := mkNq {str(empty).lower()} {cl(leading)} {cl(disallowed)}.   (* vmt._needs_quotes *)'
    return line, {'empty': empty, 'leading': sorted(set(leading)), 'disallowed': sorted(set(disallowed))}


_IND = '\x01'      # stands for `{indent}` (a layout parameter: whitespace chosen by the caller) inside a template literal
_BARE_DELIMS = set('"\'{};,=[]()\r\n\t ')


def _line_items(template: list[tuple]) -> list[str] | None:
    """One written template (('lit', text) / ('fld', source, escaped)) as Fmt/TextLines.v items, or None when it is not made of
    self-delimiting items (a quoted string mixing text and fields, a keyword or bare field not followed by space / tab / newline,
    an escaped field outside quotes, a carriage return ...)."""
    stream: list[tuple] = []
    for p in template:
        if p[0] == 'lit':
            stream += [('c', ch) for ch in p[1]]
        else:
            stream.append(('f', p[2]))
    items: list[str] = []
    shown: list[str] = []          # re-rendering, to compare with the template
    i = 0

    def ch(k: int) -> str | None:
        return stream[k][1] if k < len(stream) and stream[k][0] == 'c' else None

    def lit(t: str) -> str:
        return '[' + '; '.join(str(ord(c)) for c in t) + ']'
    while i < len(stream):
        kind, x = stream[i]
        if kind == 'c' and x in ' \t':
            j = i
            while ch(j) is not None and ch(j) in ' \t':
                j += 1
            run = ''.join(stream[k][1] for k in range(i, j))
            items.append(f'IWs {lit(run)}')
            shown.append(run)
            i = j
        elif kind == 'c' and x == _IND:
            items.append('IInd')
            shown.append(_IND)
            i += 1
        elif kind == 'c' and x == '\n':
            items.append('INl')
            shown.append('\n')
            i += 1
        elif kind == 'c' and x in '{}':
            items.append('IBO' if x == '{' else 'IBC')
            shown.append(x)
            i += 1
        elif kind == 'c' and x == '"':
            if i + 2 < len(stream) and stream[i + 1][0] == 'f' and ch(i + 2) == '"':
                items.append('IQEsc' if stream[i + 1][1] else 'IQRaw')
                shown.append('"\0"')
                i += 3
                continue
            j = i + 1
            while ch(j) is not None and ch(j) != '"':
                j += 1
            if ch(j) != '"':
                return None                     # a field inside a longer quoted string, or an unterminated quote
            text = ''.join(stream[k][1] for k in range(i + 1, j))
            if any(c in text for c in '\\\r\n') or any(ord(c) > 126 or ord(c) < 32 for c in text):
                return None
            items.append(f'IQLit {lit(text)}')
            shown.append('"' + text + '"')
            i = j + 1
        elif kind == 'f':
            d = ch(i + 1)
            if x or d is None or d not in ' \t\n':
                return None
            items.append(f'IBare {ord(d)}')
            shown.append('\0' + d)
            i += 2
        elif kind == 'c' and x not in _BARE_DELIMS and x not in '/#' and 32 < ord(x) < 127:
            j = i
            while ch(j) is not None and ch(j) not in _BARE_DELIMS and 32 < ord(ch(j)) < 127:
                j += 1
            d = ch(j)
            if d is None or d not in ' \t\n':
                return None
            word = ''.join(stream[k][1] for k in range(i, j))
            items.append(f'IWord {lit(word)} {ord(d)}')
            shown.append(word + d)
            i = j + 1
        else:
            return None
    want = ''.join(p[1] if p[0] == 'lit' else '\0' for p in template)
    if ''.join(shown) != want:
        raise TranslateError(f'text line items do not render back to the template {want!r}')
    return items


def _coq_lines(name: str, lines: list[list[tuple]]) -> tuple[str, int]:
    rows = []
    bad = 0
    seen: set[str] = set()
    for tpl in lines:
        it = _line_items(tpl)
        if it is None:
            bad += 1
            continue
        row = '[' + '; '.join(it) + ']%N'
        if row not in seen:
            seen.add(row)
            rows.append(row)
    rows.sort()            # the census is a set of templates: independent of the order of the statements
    body = ';\n  '.join(rows)
    return (f'Definition {name} : list (list titem) := [\n  {body}\n].\n'
            f'Definition {name}_unstructured : nat := {bad}.   (* written templates that are not made of self-delimiting items *)'), bad


def translate_text_writers() -> tuple[str, dict]:
    # ---- soundscripts
    snd = _TextCensus('sndscript.py')
    snd.ann.setdefault('sounds', set()).add('list[str]')
    fn_snd = snd.walk('Sound.export')
    snd_cls = next(n for n in snd.tree.body if isinstance(n, ast.ClassDef) and n.name == 'Sound')
    fn_stk = _inline_self_aliases(snd_cls, fn_snd)      # locals that merely hold self.<stack> are read as that attribute
    written, read, sinfo = _snd_stack_census(fn_stk, snd.funcs['Sound.parse_one'], snd.funcs['Sound.__init__'])
    model_lines, model_side = _snd_stack_model(snd_cls, fn_stk, snd.funcs['Sound.parse_one'], sinfo)
    # ---- VMT
    vmt = _TextCensus('vmt.py')
    vmt.ann.setdefault('real_name', set()).add('str')
    vmt.ann.setdefault('value', set()).add('str')
    vmt.ann.setdefault('name', set()).add('str')
    vmt.ann.setdefault('shader', set()).add('str')
    vmt.walk('Material.export')
    vmt.walk('_write_block')
    nq_line, nq_side = _vmt_needs_quotes(vmt.tree)
    line_ok = bool(vmt.cond_lines) and all([x[:2] for x in cl] == [('lit', '\t'), ('fld', True), ('lit', ' '), ('fld', True), ('lit', '\n')]
                                           for cl in vmt.cond_lines)
    # which attribute of the parameter object each of the two fields is: `<p>.name` then `<p>.value` of the same <p>
    order_ok = line_ok and all(re.fullmatch(r'(\w+)\.name', cl[1][2]) and re.fullmatch(r'(\w+)\.value', cl[3][2])
                               and cl[1][2].split('.')[0] == cl[3][2].split('.')[0] for cl in vmt.cond_lines)
    nq_line += f'\nDefinition vmt_param_line_is_tab_name_space_value_newline : bool := {str(line_ok).lower()}.'
    nq_line += f'\nDefinition vmt_param_line_writes_the_name_attribute_then_the_value_attribute : bool := {str(bool(order_ok)).lower()}.'
    # the frame of the file: Material.export writes `<shader>\n\t{\n` first, the parameter lines next, `\t}\n` last
    exp_lines = [l for fn_, l in vmt.lines if fn_ == 'Material.export']
    frame_ok = len(exp_lines) >= 3 and [x[:2] for x in exp_lines[0]] == [('fld', 'self.shader'), ('lit', '\n\t{\n')] and exp_lines[-1] == [('lit', '\t}\n')] \
        and [x[0] for x in exp_lines[1]] == ['lit', 'fld', 'lit', 'fld', 'lit'] and line_ok
    nq_line += f'\nDefinition vmt_file_is_shader_brace_parameter_lines_brace : bool := {str(bool(frame_ok)).lower()}.'
    nq_side['export_templates'] = [[list(x) for x in l] for l in exp_lines]
    nq_side['param_line_templates'] = [[list(x) for x in cl] for cl in vmt.cond_lines]
    snd_lines_coq, snd_bad = _coq_lines('snd_lines', [l for fn_, l in snd.lines if fn_ == 'Sound.export'])
    # ---- choreo text
    cho = _TextCensus('choreo.py')
    tags_const = cho.const_callers('export_text', 3)
    for key in ('Scene.export_text', 'Actor.export_text', 'Channel.export_text', 'Event.export_text', 'FlexAnimTrack.export_text'):
        cho.walk(key)
    # str parameters: Tag.export_text(file, indent, tags, block_name), Curve.export_text(file, indent, name)
    curve_const = all(isinstance(n.args[2], ast.Constant) for n in ast.walk(cho.tree)
                      if isinstance(n, ast.Call) and isinstance(n.func, ast.Attribute) and n.func.attr == 'export_text' and len(n.args) == 3
                      and isinstance(n.func.value, ast.Attribute) and n.func.value.attr == 'ramp')
    cho.walk('Tag.export_text', {'block_name': 'TyConst' if tags_const else 'TyStr'})
    cho.walk('Curve.export_text', {'name': 'TyConst' if curve_const else 'TyStr'})

    def cs(s: str) -> str:
        return _coq_bytes(s.encode('ascii'))
    cho_lines_coq, cho_bad = _coq_lines('cho_lines', [l for fn_, l in cho.lines])
    lines = [
        '(* GENERATED by translate/c20_formats.py from sndscript.py (Sound.export, Sound.parse_one), vmt.py (Material.export, _write_block),',
        '   choreo.py (the export_text methods). Do not edit. *)',
        'From Coq Require Import NArith List.', 'Import ListNotations.',
        'From SV Require Import Fmt.TextFields Fmt.SndStacks Fmt.VmtQuote Fmt.TextLines.',
        _coq_sites('snd_fields', snd.sites),
        _coq_sites('vmt_fields', vmt.sites),
        _coq_sites('cho_fields', cho.sites),
        'Definition snd_stacks_written : list (list N * list N * list N) := ['
        + '; '.join(f'({cs(a)}, {cs(b)}, {cs(c)})' for a, b, c in written) + '].   (* block name, guarding attribute, serialised attribute *)',
        'Definition snd_stacks_read : list (list N * list N) := ['
        + '; '.join(f'({cs(a)}, {cs(b)})' for a, b in read) + '].   (* block name, attribute it is read into *)',
        *model_lines,
        nq_line,
        snd_lines_coq,
        cho_lines_coq,
        '',
    ]
    side = {'sndscript': [list(s) for s in snd.sites], 'vmt': [list(s) for s in vmt.sites], 'choreo': [list(s) for s in cho.sites],
            'stacks_written': written, 'stacks_read': read, 'stack_model': model_side, 'vmt_needs_quotes': nq_side,
            'sndscript_lines': [[list(x) for x in l] for fn_, l in snd.lines if fn_ == 'Sound.export'], 'sndscript_lines_unstructured': snd_bad, 'choreo_text_lines': len(cho.lines), 'choreo_text_lines_unstructured': cho_bad,
            'digests': {'Sound.export': ast_digest(fn_snd)}}
    return '\n'.join(lines), side


# ================================================================================================ binary choreo: width paths

_BIN_CLASSES = ['Scene', 'Actor', 'Channel', 'Event', 'FlexAnimTrack', 'Curve', 'Tag', 'TimingTag', 'AbsoluteTag']


def _fmt_widths(fmt: str, what: str) -> list[int]:
    body = fmt[1:] if fmt[:1] in '<>=!@' else fmt
    if fmt[:1] not in '<>=!' and len(re.findall(r'[A-Za-z?]', body)) > 1:
        raise TranslateError(f'choreo.py: {what}: native-aligned multi-field struct format {fmt!r}')
    out: list[int] = []
    pos = 0
    for m in re.finditer(r'(\d*)([A-Za-z?])', body):
        if m.start() != pos:
            raise TranslateError(f'choreo.py: {what}: cannot parse struct format {fmt!r}')
        pos = m.end()
        cnt, code = m.group(1), m.group(2)
        if code == 's':
            out.append(int(cnt or '1'))
            continue
        w = {'b': 1, 'B': 1, '?': 1, 'c': 1, 'h': 2, 'H': 2, 'i': 4, 'I': 4, 'l': 4, 'L': 4, 'f': 4, 'q': 8, 'Q': 8, 'd': 8}.get(code)
        if w is None:
            raise TranslateError(f'choreo.py: {what}: struct code {code!r} not modelled')
        out.extend([w] * int(cnt or '1'))
    if pos != len(body):
        raise TranslateError(f'choreo.py: {what}: cannot parse struct format {fmt!r}')
    return out


class _BinPaths:
    """Enumerate, for a binary writer or reader method, every sequence of field widths / sub-record calls / loops it can
    emit or consume (both arms of every `if`, `return` ends a path; a loop is one token holding the paths of its body)."""

    def __init__(self, tree: ast.Module) -> None:
        self.mstructs = _module_structs(tree)
        self.classes = {n.name: n for n in tree.body if isinstance(n, ast.ClassDef)}
        self.ann: dict[tuple[str, str], str] = {}
        self.classvars: dict[str, dict[str, str]] = {}
        for c in self.classes.values():
            for st in c.body:
                if isinstance(st, ast.AnnAssign) and isinstance(st.target, ast.Name):
                    a = ast.unparse(st.annotation)
                    if st.value is not None and isinstance(st.value, ast.Call) and ast.unparse(st.value.func) == 'struct.Struct':
                        self.classvars.setdefault(st.target.id, {})[c.name] = st.value.args[0].value
                    else:
                        self.ann[(c.name, st.target.id)] = a

    def ann_of(self, cur: str, attr: str) -> str:
        c = self.classes.get(cur.split('.')[0].split(' ')[0])
        while c is not None:
            if (c.name, attr) in self.ann:
                return self.ann[(c.name, attr)]
            c = self.classes.get(c.bases[0].id) if c.bases and isinstance(c.bases[0], ast.Name) else None
        return ''

    def elem_class(self, e: ast.AST, env: dict[str, str], cur: str) -> str:
        """Class whose export_binary / parse_binary is called through expression e."""
        if isinstance(e, ast.Name):
            if e.id in ('cls',):
                return 'self'
            if e.id in self.classes:
                return e.id if e.id in _BIN_CLASSES else self._base(e.id)
            if e.id in env:
                return env[e.id]
        if isinstance(e, ast.Attribute) and isinstance(e.value, ast.Name) and e.value.id == 'self':
            a = self.ann_of(cur, e.attr)
            for nm in self.classes:
                if re.fullmatch(rf'{nm}', a):
                    return nm if nm in _BIN_CLASSES else self._base(nm)
        raise TranslateError(f'choreo.py: {cur}: cannot tell which class `{ast.unparse(e)}` is')

    def _base(self, nm: str) -> str:
        # subclasses share the methods of their base (TimingTag / AbsoluteTag -> Tag, GestureEvent ... -> Event)
        c = self.classes[nm]
        while c.bases and isinstance(c.bases[0], ast.Name) and c.bases[0].id in self.classes:
            c = self.classes[c.bases[0].id]
        return c.name

    def list_elem(self, e: ast.AST, cur: str) -> str | None:
        if isinstance(e, ast.Attribute) and isinstance(e.value, ast.Name) and e.value.id == 'self':
            m = re.fullmatch(r'list\[(\w+)\]( \| None)?', self.ann_of(cur, e.attr))
            if m and m.group(1) in self.classes:
                return m.group(1) if m.group(1) in _BIN_CLASSES else self._base(m.group(1))
        return None

    def io_tokens(self, node: ast.AST, env: dict[str, str], cur: str, side: str) -> list:
        """Tokens of the I/O calls inside one expression / simple statement, in source order."""
        found: list[tuple[int, int, list]] = []
        skip: set[int] = set()
        for n in ast.walk(node):
            if id(n) in skip or not isinstance(n, ast.Call):
                continue
            f = ast.unparse(n.func)
            where = f'{cur} line {n.lineno}'
            toks: list | None = None
            if side == 'w' and f == 'file.write' and len(n.args) == 1:
                a = n.args[0]
                for sub in ast.walk(a):
                    skip.add(id(sub))
                if _struct_pack(a, self.mstructs) is not None:
                    toks = _fmt_widths(_struct_pack(a, self.mstructs)[0], where)
                elif isinstance(a, ast.Call) and isinstance(a.func, ast.Attribute) and a.func.attr == 'pack' \
                        and isinstance(a.func.value, ast.Attribute) and a.func.value.attr in self.classvars:
                    toks = [('var', a.func.value.attr)]
                elif isinstance(a, ast.Constant) and isinstance(a.value, bytes):
                    toks = [len(a.value)]
                elif isinstance(a, ast.IfExp) and all(isinstance(x, ast.Constant) and isinstance(x.value, bytes) for x in (a.body, a.orelse)) \
                        and len(a.body.value) == len(a.orelse.value):
                    toks = [len(a.body.value)]
                else:
                    raise TranslateError(f'choreo.py: {where}: file.write(`{ast.unparse(a)[:60]}`) not recognised')
            elif side == 'r' and f == 'binformat.struct_read' and len(n.args) == 2:
                a = n.args[0]
                if _fmt_arg(a, self.mstructs) is not None:
                    toks = _fmt_widths(_fmt_arg(a, self.mstructs), where)
                elif isinstance(a, ast.Attribute) and a.attr in self.classvars:
                    toks = [('var', a.attr)]
                else:
                    raise TranslateError(f'choreo.py: {where}: struct_read format `{ast.unparse(a)}` not recognised')
            elif side == 'r' and f == 'file.read' and len(n.args) == 1:
                if not (isinstance(n.args[0], ast.Constant) and isinstance(n.args[0].value, int)):
                    raise TranslateError(f'choreo.py: {where}: file.read of a computed size')
                toks = [n.args[0].value]
            elif isinstance(n.func, ast.Attribute) and n.func.attr == ('export_binary' if side == 'w' else 'parse_binary') \
                    and n.args and ast.unparse(n.args[0]) == 'file':
                c = self.elem_class(n.func.value, env, where)
                toks = [('call', cur.split('.')[0] if c == 'self' else c)]
            elif any(isinstance(x, ast.Name) and x.id == 'file' for x in ast.walk(n)) and f not in ('BytesIO', 'file.getvalue') \
                    and not any(isinstance(x, ast.Call) and x is not n and any(isinstance(y, ast.Name) and y.id == 'file' for y in ast.walk(x)) for x in ast.walk(n)):
                raise TranslateError(f'choreo.py: {where}: `{ast.unparse(n)[:60]}` uses the file in a way that is not modelled')
            if toks is not None:
                found.append((n.lineno, n.col_offset, toks))
        found.sort(key=lambda t: (t[0], t[1]))
        return [t for _, _, ts in found for t in ts]

    def paths(self, stmts: list[ast.stmt], env: dict[str, str], cur: str, side: str) -> set[tuple]:
        """Set of (tokens..., done?) with done = path ended by return."""
        acc: set[tuple] = {()}
        done: set[tuple] = set()
        for st in stmts:
            if not acc:
                break
            if isinstance(st, ast.If):
                pre = tuple(self.io_tokens(st.test, env, cur, side))
                a = self._sub(st.body, env, cur, side)
                b = self._sub(st.orelse, env, cur, side)
                new: set[tuple] = set()
                for p in acc:
                    for q, fin in a | b:
                        (done if fin else new).add(p + pre + q)
                acc = new
            elif isinstance(st, (ast.For, ast.While)):
                if isinstance(st, ast.For):
                    el = self.list_elem(st.iter, cur)
                    if el and isinstance(st.target, ast.Name):
                        env = dict(env, **{st.target.id: el})
                body = self._sub(st.body, env, cur, side)
                if any(fin for _, fin in body):
                    raise TranslateError(f'choreo.py: {cur} line {st.lineno}: return inside a loop')
                bp = frozenset(q for q, _ in body)
                if bp != {()}:
                    acc = {p + (('loop', tuple(sorted(bp, key=repr))),) for p in acc}
            elif isinstance(st, ast.Return):
                toks = tuple(self.io_tokens(st, env, cur, side)) if st.value is not None else ()
                done |= {p + toks for p in acc}
                acc = set()
            elif isinstance(st, ast.Raise):
                acc = set()
            elif isinstance(st, (ast.Try, ast.With, ast.Match)):
                raise TranslateError(f'choreo.py: {cur} line {st.lineno}: statement {type(st).__name__} not modelled')
            else:
                # list comprehension over range(...) containing reads = a loop
                toks: list = []
                comps = [n for n in ast.walk(st) if isinstance(n, ast.ListComp)]
                inner_ids: set[int] = set()
                for lc in comps:
                    t = self.io_tokens(lc.elt, env, cur, side)
                    if t:
                        for sub in ast.walk(lc):
                            inner_ids.add(id(sub))
                        toks.append(('loop', (tuple(t),)))
                if comps and toks:
                    rest = [n for n in ast.walk(st) if isinstance(n, ast.Call) and id(n) not in inner_ids]
                    if any(self.io_tokens(n, env, cur, side) for n in rest if not any(isinstance(x, ast.ListComp) for x in ast.walk(n))):
                        raise TranslateError(f'choreo.py: {cur} line {st.lineno}: reads mixed with a comprehension')
                else:
                    toks = self.io_tokens(st, env, cur, side)
                acc = {p + tuple(toks) for p in acc}
        return {(p, False) for p in acc} | {(p, True) for p in done}

    def _sub(self, stmts, env, cur, side) -> set[tuple]:
        return self.paths(stmts, env, cur, side) if stmts else {((), False)}

    def var_fmt(self, cname: str, var: str) -> str:
        c = self.classes.get(cname)
        while c is not None:
            if c.name in self.classvars.get(var, {}):
                return self.classvars[var][c.name]
            c = self.classes.get(c.bases[0].id) if c.bases and isinstance(c.bases[0], ast.Name) else None
        raise TranslateError(f'choreo.py: class-level struct format {var} not found for {cname}')

    def method_paths(self, cname: str, mname: str, side: str) -> list[tuple]:
        c = self.classes[cname]
        fn = None
        while c is not None and fn is None:
            fn = next((f for f in c.body if isinstance(f, ast.FunctionDef) and f.name == mname), None)
            if fn is None:
                c = self.classes.get(c.bases[0].id) if c.bases and isinstance(c.bases[0], ast.Name) else None
        if fn is None:
            raise TranslateError(f'choreo.py: {cname}.{mname} not found')

        def resolve(p: tuple) -> tuple:
            out: list = []
            for t in p:
                if isinstance(t, tuple) and t[0] == 'var':
                    out.extend(_fmt_widths(self.var_fmt(cname, t[1]), f'{cname}.{t[1]}'))
                elif isinstance(t, tuple) and t[0] == 'loop':
                    out.append(('loop', tuple(sorted({resolve(q) for q in t[1]}, key=repr))))
                else:
                    out.append(t)
            return tuple(out)
        ps = {resolve(p) for p, _ in self.paths(fn.body, {}, f'{c.name}.{mname}', side)}
        return sorted(ps, key=repr)

    def kind_tests(self) -> tuple[list[int], list[int], dict[str, int]]:
        """Event kinds with extra fields: the writer tests the class (isinstance), the reader the type number."""
        enum_vals: dict[str, int] = {}
        for st in self.classes['EventType'].body:
            if isinstance(st, ast.Assign) and isinstance(st.value, ast.Constant) and isinstance(st.value.value, int):
                enum_vals[st.targets[0].id] = st.value.value
        ev = self.classes['Event']
        w_fn = next(f for f in ev.body if isinstance(f, ast.FunctionDef) and f.name == 'export_binary')
        r_fn = next(f for f in ev.body if isinstance(f, ast.FunctionDef) and f.name == 'parse_binary')
        names: dict[str, int] = {}
        w: list[int] = []
        for n in ast.walk(w_fn):
            if isinstance(n, ast.If) and isinstance(n.test, ast.Call) and ast.unparse(n.test.func) == 'isinstance' and ast.unparse(n.test.args[0]) == 'self':
                cls = self.classes.get(ast.unparse(n.test.args[1]))
                member = None
                for st in (cls.body if cls else []):
                    if isinstance(st, ast.AnnAssign) and isinstance(st.target, ast.Name) and st.target.id == 'type' and isinstance(st.value, ast.Call):
                        for kw in st.value.keywords:
                            if kw.arg == 'default' and isinstance(kw.value, ast.Attribute) and ast.unparse(kw.value.value) == 'EventType':
                                member = kw.value.attr
                if member is None or member not in enum_vals:
                    raise TranslateError(f'choreo.py: Event.export_binary line {n.lineno}: class test `{ast.unparse(n.test)}` has no EventType')
                w.append(enum_vals[member])
                names[member] = enum_vals[member]
        r: list[int] = []
        for n in ast.walk(r_fn):
            if isinstance(n, ast.If) and isinstance(n.test, ast.Compare) and ast.unparse(n.test.left) == 'event_type' and len(n.test.ops) == 1 \
                    and isinstance(n.test.ops[0], ast.Is) and isinstance(n.test.comparators[0], ast.Attribute) \
                    and ast.unparse(n.test.comparators[0].value) == 'EventType':
                m = n.test.comparators[0].attr
                if m not in enum_vals:
                    raise TranslateError(f'choreo.py: Event.parse_binary: unknown EventType.{m}')
                r.append(enum_vals[m])
                names[m] = enum_vals[m]
        return sorted(set(w)), sorted(set(r)), names


def translate_choreo_bin() -> tuple[str, dict]:
    tree = ast.parse(src_text('choreo.py'))
    bp = _BinPaths(tree)
    calls = {c: i for i, c in enumerate(_BIN_CLASSES)}

    def tok(t) -> str:
        if isinstance(t, int):
            return f'TW {t}'
        if t[0] == 'call':
            if t[1] not in calls:
                raise TranslateError(f'choreo.py: binary record of class {t[1]} is not in the census')
            return f'TCall {calls[t[1]]}'
        if t[0] == 'loop':
            return 'TLoop [' + '; '.join('[' + '; '.join(tok(x) for x in p) + ']' for p in t[1]) + ']'
        raise TranslateError(f'choreo.py: token {t!r}')
    per: dict[str, dict] = {}
    lines = [
        '(* GENERATED by translate/c20_formats.py from /repo/src/srctools/choreo.py (export_binary / parse_binary of the BVCD classes). Do not edit. *)',
        'From Coq Require Import NArith List.', 'Import ListNotations.',
        'From SV Require Import Fmt.ChoreoBin.',
    ]
    for c in _BIN_CLASSES:
        w = bp.method_paths(c, 'export_binary', 'w')
        r = bp.method_paths(c, 'parse_binary', 'r')
        per[c] = {'writer': [repr(p) for p in w], 'reader': [repr(p) for p in r]}
        lines.append(f'Definition cb_{c}_w : list (list btok) := [' + '; '.join('[' + '; '.join(tok(t) for t in p) + ']' for p in w) + '].')
        lines.append(f'Definition cb_{c}_r : list (list btok) := [' + '; '.join('[' + '; '.join(tok(t) for t in p) + ']' for p in r) + '].')
    lines.append('Definition cb_classes : list (list (list btok) * list (list btok)) := [' + '; '.join(f'(cb_{c}_w, cb_{c}_r)' for c in _BIN_CLASSES) + '].')
    kw, kr, names = bp.kind_tests()
    lines.append(f'Definition cb_kinds_w : list N := [{"; ".join(str(x) for x in kw)}]%N.   (* EventType of the classes Event.export_binary tests with isinstance *)')
    lines.append(f'Definition cb_kinds_r : list N := [{"; ".join(str(x) for x in kr)}]%N.   (* EventType members Event.parse_binary tests *)')
    for nm in ('Gesture', 'Loop', 'Speak'):
        lines.append(f'Definition cb_type_{nm.lower()} : N := {names.get(nm, 255)}%N.')
    lines.append('')
    return '\n'.join(lines), {'paths': per, 'class_formats': bp.classvars, 'kinds': names}


GEN = {'CmdSeqFmt_gen': translate_cmdseq, 'SmdTpl_gen': translate_smd, 'ScenesImg_gen': translate_scenes_image,
       'TextFields_gen': translate_text_writers, 'ChoreoBin_gen': translate_choreo_bin}
