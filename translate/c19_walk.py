"""C19 translator: name normalisation and folder matching of the filesystem backends -> Gen/FsWalk_gen.v.

Reads src/srctools/filesys.py with `ast` and emits, for VirtualFileSystem, ZipFileSystem and VPKFileSystem, a
`backend` record (rocq/SM/FsChain.v): the list of normalisation operations applied to stored names (dictionary
comprehension in __init__), to the query in _get_file / _file_exists / open_bin, to the folder argument of
walk_folder, and what walk_folder compares with `.startswith(folder)`.  For FileSystemChain it emits the insertion
index of priority members, the shape of the _get_file loop, the de-duplication key of walk_folder and how
walk_folder_repeat makes member paths relative.  RawFileSystem is only checked to delegate to os.path.isfile/os.walk.

Fail-closed: any expression outside the small language below raises TranslateError.
    X.replace('\\\\', '/') -> OSlash      X.casefold() -> OFold      os.path.normpath(X) -> ONorm
    X.rstrip('/') -> ORStrip              `if X == '.': X = ''` -> ODotEmpty
    X + '/' if X else '' -> OAddSlash     self._clean_path(X), module-level helper(X) -> their translated bodies
"""
from __future__ import annotations

import ast

from harness.common import TranslateError, src_text, ast_digest

DICTS = {'VirtualFileSystem': '_mapping', 'ZipFileSystem': '_name_to_info', 'VPKFileSystem': '_name_to_file'}
CONTAINERS = {'VPKFileSystem': 'vpk'}     # attribute holding a container that can be iterated directly
CFG = {'VirtualFileSystem': 'virtual_cfg', 'ZipFileSystem': 'zip_cfg', 'VPKFileSystem': 'vpk_cfg'}


def _is_const(n, v) -> bool:
    return isinstance(n, ast.Constant) and n.value == v


def _name(n) -> str | None:
    return n.id if isinstance(n, ast.Name) else None


def _dotted(n) -> str | None:
    if isinstance(n, ast.Name):
        return n.id
    if isinstance(n, ast.Attribute):
        b = _dotted(n.value)
        return None if b is None else f'{b}.{n.attr}'
    return None


class Tr:
    """Symbolic evaluation of string-normalising expressions to (base, [ops])."""

    def __init__(self, tree: ast.Module, where: str) -> None:
        self.tree = tree
        self.where = where
        self.funcs = {n.name: n for n in tree.body if isinstance(n, ast.FunctionDef)}
        self.classes = {n.name: n for n in tree.body if isinstance(n, ast.ClassDef)}
        self.cls: ast.ClassDef | None = None

    def err(self, node, msg):
        raise TranslateError(f'{self.where}:{getattr(node, "lineno", "?")}: {msg}')

    def method(self, cls: ast.ClassDef, name: str) -> ast.FunctionDef:
        for n in cls.body:
            if isinstance(n, ast.FunctionDef) and n.name == name:
                return n
        self.err(cls, f'{cls.name}.{name} not found')

    # -- helper functions: a function of one string parameter whose body is straight-line normalisation
    def helper_ops(self, fn: ast.FunctionDef, depth: int = 0) -> list[str]:
        if depth > 3:
            self.err(fn, 'helper recursion')
        params = [a.arg for a in fn.args.args if a.arg not in ('self', 'cls')]
        if len(params) != 1:
            self.err(fn, f'helper {fn.name} must take one argument')
        p = params[0]
        env = {p: (p, [])}
        for st in fn.body:
            if isinstance(st, ast.Expr) and isinstance(st.value, ast.Constant):
                continue   # docstring
            if isinstance(st, ast.If) and self._is_file_unwrap(st, p):
                continue   # `if isinstance(path, File): path = path.path`
            if self._stmt(st, env, depth):
                continue
            if isinstance(st, ast.Return) and st.value is not None:
                base, ops = self.expr(st.value, env, depth)
                if base != p:
                    self.err(st, f'helper {fn.name} returns something not derived from its argument')
                return ops
            self.err(st, f'unrecognised statement in helper {fn.name}')
        self.err(fn, f'helper {fn.name} has no return')

    @staticmethod
    def _is_file_unwrap(st: ast.If, p: str) -> bool:
        t = st.test
        return (isinstance(t, ast.Call) and _name(t.func) == 'isinstance' and len(t.args) == 2 and _name(t.args[0]) == p
                and _name(t.args[1]) == 'File' and not st.orelse and len(st.body) == 1
                and isinstance(st.body[0], ast.Assign) and _name(st.body[0].targets[0]) == p
                and _dotted(st.body[0].value) == f'{p}.path')

    def _stmt(self, st, env, depth=0) -> bool:
        """Straight-line statements that update the environment. Returns True if consumed."""
        if isinstance(st, ast.Assign) and len(st.targets) == 1 and isinstance(st.targets[0], ast.Name):
            tgt = st.targets[0].id
            try:
                env[tgt] = self.expr(st.value, env, depth)
            except TranslateError:
                env[tgt] = None      # not a normalised string (ZipInfo, FileInfo, ...): unusable as a key
            return True
        if isinstance(st, ast.AnnAssign) and isinstance(st.target, ast.Name) and st.value is not None:
            try:
                env[st.target.id] = self.expr(st.value, env, depth)
            except TranslateError:
                env[st.target.id] = None
            return True
        # if X == '.': X = ''
        if isinstance(st, ast.If) and isinstance(st.test, ast.Compare) and len(st.test.ops) == 1 \
                and isinstance(st.test.ops[0], ast.Eq) and _is_const(st.test.comparators[0], '.') \
                and _name(st.test.left) in env and not st.orelse and len(st.body) == 1 \
                and isinstance(st.body[0], ast.Assign) and _name(st.body[0].targets[0]) == _name(st.test.left) \
                and _is_const(st.body[0].value, ''):
            v = _name(st.test.left)
            if env[v] is None:
                self.err(st, 'dot test on unknown value')
            env[v] = (env[v][0], env[v][1] + ['ODotEmpty'])
            return True
        return False

    def expr(self, e, env, depth=0) -> tuple[str, list[str]]:
        # variable
        if isinstance(e, ast.Name):
            if e.id in env:
                if env[e.id] is None:
                    self.err(e, f'{e.id} is not a recognised normalised string')
                return env[e.id][0], list(env[e.id][1])
            return e.id, []
        if isinstance(e, ast.Attribute):
            d = _dotted(e)
            if d is None:
                self.err(e, 'unrecognised attribute expression')
            return d, []
        # X + '/' if X else ''
        if isinstance(e, ast.IfExp):
            if isinstance(e.body, ast.BinOp) and isinstance(e.body.op, ast.Add) and _is_const(e.body.right, '/') \
                    and _is_const(e.orelse, '') and ast.dump(e.test) == ast.dump(e.body.left):
                base, ops = self.expr(e.test, env, depth)
                return base, ops + ['OAddSlash']
            self.err(e, 'unrecognised conditional expression')
        if isinstance(e, ast.Call):
            f = e.func
            fd = _dotted(f)
            if fd in ('os.path.normpath', 'posixpath.normpath') and len(e.args) == 1 and not e.keywords:
                base, ops = self.expr(e.args[0], env, depth)
                return base, ops + ['ONorm']
            if fd in ('self._clean_path', 'cls._clean_path') and len(e.args) == 1 and not e.keywords:
                base, ops = self.expr(e.args[0], env, depth)
                return base, ops + self.helper_ops(self.method(self.cls, '_clean_path'), depth + 1)
            if isinstance(f, ast.Name) and f.id in self.funcs and len(e.args) == 1 and not e.keywords:
                base, ops = self.expr(e.args[0], env, depth)
                return base, ops + self.helper_ops(self.funcs[f.id], depth + 1)
            if isinstance(f, ast.Attribute) and not e.keywords:
                if f.attr == 'replace' and len(e.args) == 2 and _is_const(e.args[0], '\\') and _is_const(e.args[1], '/'):
                    base, ops = self.expr(f.value, env, depth)
                    return base, ops + ['OSlash']
                if f.attr == 'casefold' and not e.args:
                    base, ops = self.expr(f.value, env, depth)
                    return base, ops + ['OFold']
                if f.attr == 'rstrip' and len(e.args) == 1 and _is_const(e.args[0], '/'):
                    base, ops = self.expr(f.value, env, depth)
                    return base, ops + ['ORStrip']
            self.err(e, f'unrecognised call {ast.unparse(e)[:60]}')
        self.err(e, f'unrecognised expression {ast.unparse(e)[:60]}')


def _flat(stmts):
    """All statements in order, descending into if/try/with/for bodies (both branches)."""
    for st in stmts:
        yield st
        for fld in ('body', 'orelse', 'finalbody'):
            sub = getattr(st, fld, None)
            if isinstance(sub, list) and not isinstance(st, (ast.FunctionDef, ast.ClassDef)):
                yield from _flat(sub)
        if isinstance(st, ast.Try):
            for h in st.handlers:
                yield from _flat(h.body)


def _key_uses(tr: Tr, fn: ast.FunctionDef, dict_attr: str, param: str):
    """Ops applied to `param` wherever it is used as a key of self.<dict_attr> in fn (subscript or `in`)."""
    env = {param: (param, [])}
    found = []
    for st in _flat(fn.body):
        if isinstance(st, ast.If) and isinstance(st.test, ast.Compare):
            pass
        consumed = False
        if isinstance(st, (ast.Assign, ast.AnnAssign)):
            # look for key uses inside the value first (with the environment before the assignment)
            for node in ast.walk(st.value) if st.value is not None else ():
                _collect(tr, node, dict_attr, env, found)
            consumed = tr._stmt(st, env)
        if not consumed:
            # only the statement's own expressions, bodies are visited by _flat
            for fld, val in ast.iter_fields(st):
                if fld in ('body', 'orelse', 'finalbody', 'handlers'):
                    continue
                vals = val if isinstance(val, list) else [val]
                for v in vals:
                    if isinstance(v, ast.AST):
                        for node in ast.walk(v):
                            _collect(tr, node, dict_attr, env, found)
    if not found:
        tr.err(fn, f'{fn.name}: no use of self.{dict_attr} as a lookup')
    for base, ops in found:
        if base != param:
            tr.err(fn, f'{fn.name}: dictionary key derived from {base}, not from {param}')
    first = found[0][1]
    for _, ops in found[1:]:
        if ops != first:
            tr.err(fn, f'{fn.name}: different key normalisations in one function: {first} vs {ops}')
    return first


def _collect(tr, node, dict_attr, env, found):
    if isinstance(node, ast.Subscript) and _dotted(node.value) == f'self.{dict_attr}':
        found.append(tr.expr(node.slice, env))
    if isinstance(node, ast.Compare) and len(node.ops) == 1 and isinstance(node.ops[0], (ast.In, ast.NotIn)) \
            and _dotted(node.comparators[0]) == f'self.{dict_attr}':
        found.append(tr.expr(node.left, env))


def _store_ops(tr: Tr, cls: ast.ClassDef, dict_attr: str):
    init = tr.method(cls, '__init__')
    for st in _flat(init.body):
        tgt = None
        if isinstance(st, ast.Assign) and len(st.targets) == 1:
            tgt, val = st.targets[0], st.value
        elif isinstance(st, ast.AnnAssign):
            tgt, val = st.target, st.value
        if tgt is not None and _dotted(tgt) == f'self.{dict_attr}':
            if not isinstance(val, ast.DictComp) or len(val.generators) != 1:
                tr.err(st, f'self.{dict_attr} is not built by one dict comprehension')
            base, ops = tr.expr(val.key, {})
            # the stored name: Virtual `filename`, Zip `info.filename`, VPK `file.filename`
            if base.split('.')[-1] != 'filename':
                tr.err(st, f'dictionary key derived from {base}, expected the stored filename')
            return ops, base
    tr.err(init, f'no assignment to self.{dict_attr}')


def _walk(tr: Tr, cls: ast.ClassDef, dict_attr: str):
    fn = tr.method(cls, 'walk_folder')
    env = {'folder': ('folder', [])}
    loop = None
    for st in fn.body:
        if isinstance(st, ast.Expr) and isinstance(st.value, ast.Constant):
            continue
        if tr._stmt(st, env):
            continue
        if isinstance(st, ast.For) and loop is None:
            loop = st
            continue
        tr.err(st, f'{cls.name}.walk_folder: unrecognised statement')
    if loop is None:
        tr.err(fn, f'{cls.name}.walk_folder: no loop')
    it = loop.iter
    src = 'WDict'
    container = CONTAINERS.get(cls.name)
    if (isinstance(it, ast.Call) and isinstance(it.func, ast.Attribute) and it.func.attr in ('items', 'values')
            and _dotted(it.func.value) == f'self.{dict_attr}' and not it.args and not it.keywords):
        mode = it.func.attr
    elif container is not None and _dotted(it) == f'self.{container}':
        # `for file in self.vpk`: every file of the container, case-duplicates included
        src, mode = 'WCont None', 'values'
    elif (container is not None and isinstance(it, ast.Call) and _dotted(it.func) == f'self.{container}.fileinfos'
          and not it.args):
        # `for file in self.vpk.fileinfos(folder=<expr>)`: the container's own (exact-case) directory pre-filter
        pre = None
        for kw in it.keywords:
            if kw.arg == 'folder':
                pbase, pops = tr.expr(kw.value, env)
                if pbase != 'folder':
                    tr.err(it, 'fileinfos(folder=...) argument is not derived from the folder parameter')
                pre = pops
            elif kw.arg == 'ext' and _is_const(kw.value, None):
                pass
            else:
                tr.err(it, f'unrecognised argument {kw.arg} of fileinfos()')
        if pre is None:
            src = 'WCont None'
        else:
            _check_fileinfos_prefilter(tr)
            src = f'WCont (Some {_coq_ops(pre)})'
        mode = 'values'
    else:
        tr.err(loop, f'{cls.name}.walk_folder iterates {ast.unparse(it)[:60]}: neither self.{dict_attr}.items()/.values() '
                     f'nor a recognised container iteration')
    # classify loop variables
    kinds: dict[str, str] = {}     # dotted expression -> subject
    def value_target(t):
        if isinstance(t, ast.Name):            # ZipInfo / VPK FileInfo
            kinds[f'{t.id}.filename'] = 'SOrig'
            if cls.name == 'VPKFileSystem':
                kinds[f'{t.id}.dir'] = 'SDir'
        elif isinstance(t, ast.Tuple) and len(t.elts) == 2 and all(isinstance(x, ast.Name) for x in t.elts):
            kinds[t.elts[0].id] = 'SOrig'      # Virtual: (filename, data)
        else:
            tr.err(loop, 'unrecognised loop target')
    if mode == 'items':
        t = loop.target
        if not (isinstance(t, ast.Tuple) and len(t.elts) == 2 and isinstance(t.elts[0], ast.Name)):
            tr.err(loop, 'unrecognised items() loop target')
        kinds[t.elts[0].id] = 'SKey'
        value_target(t.elts[1])
    else:
        value_target(loop.target)
    if len(loop.body) != 1 or not isinstance(loop.body[0], ast.If) or loop.body[0].orelse:
        tr.err(loop, f'{cls.name}.walk_folder: loop body is not a single `if`')
    test = loop.body[0].test
    if not (isinstance(test, ast.Call) and isinstance(test.func, ast.Attribute) and test.func.attr == 'startswith'
            and len(test.args) == 1 and not test.keywords):
        tr.err(test, f'{cls.name}.walk_folder: folder test is not X.startswith(folder)')
    fbase, fops = tr.expr(test.args[0], env)
    if fbase != 'folder':
        tr.err(test, 'folder test argument is not derived from the folder parameter')
    sbase, sops = tr.expr(test.func.value, {})
    if sbase not in kinds:
        tr.err(test, f'folder test subject {sbase} is not a loop variable')
    body = loop.body[0].body
    if not (len(body) == 1 and isinstance(body[0], ast.Expr) and isinstance(body[0].value, ast.Yield)
            and isinstance(body[0].value.value, ast.Call) and _name(body[0].value.value.func) == 'File'
            and len(body[0].value.value.args) == 3):
        tr.err(loop, f'{cls.name}.walk_folder: does not yield File(self, path, data)')
    pbase, pops = tr.expr(body[0].value.value.args[1], {})
    if kinds.get(pbase) != 'SOrig' or pops:
        tr.err(loop, f'{cls.name}.walk_folder yields path {pbase}, expected the stored filename')
    return fops, kinds[sbase], sops, loop.lineno, src


def _check_fileinfos_prefilter(tr: Tr) -> None:
    """vpk.py VPK.fileinfos: the `folder` argument must be the test `subfolder.startswith(folder)` on the directory
    names as stored (the model's WCont (Some ...) means exactly that).  Anything else fails closed."""
    tree = ast.parse(src_text('vpk.py'))
    fn = None
    for n in tree.body:
        if isinstance(n, ast.ClassDef) and n.name == 'VPK':
            for m in n.body:
                if isinstance(m, ast.FunctionDef) and m.name == 'fileinfos':
                    fn = m
    if fn is None:
        tr.err(tree, 'vpk.py: VPK.fileinfos not found')
    body = [st for st in fn.body if not (isinstance(st, ast.Expr) and isinstance(st.value, ast.Constant))]
    ok = (len(body) == 1 and isinstance(body[0], ast.For)
          and ast.unparse(body[0].iter) == 'self._iter_folders(ext)' and len(body[0].body) == 1
          and isinstance(body[0].body[0], ast.For)
          and ast.unparse(body[0].body[0].target) == '(subfolder, files)'
          and ast.unparse(body[0].body[0].iter) == f'{ast.unparse(body[0].target)}.items()')
    if ok:
        inner = body[0].body[0].body
        ok = (len(inner) == 2 and isinstance(inner[0], ast.If) and not inner[0].orelse
              and ast.unparse(inner[0].test) == 'not subfolder.startswith(folder)'
              and len(inner[0].body) == 1 and isinstance(inner[0].body[0], ast.Continue)
              and ast.unparse(inner[1]) == 'yield from files.values()')
    if not ok:
        tr.err(fn, 'vpk.py: VPK.fileinfos is not `for folders in ...: for subfolder, files in folders.items(): '
                   'if not subfolder.startswith(folder): continue; yield from files.values()`')


def _coq_ops(ops) -> str:
    return '[' + '; '.join(ops) + ']'


def _chain(tr: Tr, side: dict) -> list[str]:
    cls = tr.classes.get('FileSystemChain')
    if cls is None:
        tr.err(tr.tree, 'FileSystemChain not found')
    out = []
    # add_sys
    fn = tr.method(cls, 'add_sys')
    stmts = [s for s in fn.body if not (isinstance(s, ast.Expr) and isinstance(s.value, ast.Constant))]
    ok = (len(stmts) == 1 and isinstance(stmts[0], ast.If) and _name(stmts[0].test) == 'priority'
          and len(stmts[0].body) == 1 and len(stmts[0].orelse) == 1)
    if not ok:
        tr.err(fn, 'add_sys: unrecognised shape')
    def action(st):
        """self.systems.insert(<n>, (sys, prefix)) -> InsertAt n;  self.systems.append((sys, prefix)) -> Append."""
        if not (isinstance(st, ast.Expr) and isinstance(st.value, ast.Call) and not st.value.keywords
                and st.value.args and ast.unparse(st.value.args[-1]) == '(sys, prefix)'):
            tr.err(st, 'add_sys: branch does not add (sys, prefix) to self.systems')
        fd = _dotted(st.value.func)
        if fd == 'self.systems.append' and len(st.value.args) == 1:
            return 'Append', 'append'
        if fd == 'self.systems.insert' and len(st.value.args) == 2 and isinstance(st.value.args[0], ast.Constant) \
                and isinstance(st.value.args[0].value, int) and st.value.args[0].value >= 0:
            return f'(InsertAt {st.value.args[0].value})', f'insert({st.value.args[0].value})'
        tr.err(st, 'add_sys: branch is neither self.systems.insert(<n>, (sys, prefix)) nor self.systems.append((sys, prefix))')

    pa, pa_s = action(stmts[0].body[0])
    na, na_s = action(stmts[0].orelse[0])
    out.append(f'Definition chain_prio_action : ins_action := {pa}.')
    out.append(f'Definition chain_plain_action : ins_action := {na}.')
    side['chain_add_sys'] = {'priority': pa_s, 'plain': na_s}

    def systems_loop(fn):
        loops = [s for s in fn.body if isinstance(s, ast.For)]
        if len(loops) != 1:
            tr.err(fn, f'{fn.name}: expected one loop over self.systems')
        lp = loops[0]
        if ast.unparse(lp.target) != '(sys, prefix)':
            tr.err(lp, f'{fn.name}: loop target is not (sys, prefix)')
        if _dotted(lp.iter) == 'self.systems':
            fwd = True
        elif isinstance(lp.iter, ast.Call) and _name(lp.iter.func) == 'reversed' and _dotted(lp.iter.args[0]) == 'self.systems':
            fwd = False
        else:
            tr.err(lp, f'{fn.name}: does not iterate self.systems')
        return lp, fwd

    def join_ops(st, var, arg):
        # var = os.path.join(prefix, arg).replace('\\', '/')
        if not (isinstance(st, ast.Assign) and _name(st.targets[0]) == var):
            tr.err(st, f'expected assignment to {var}')
        base, ops = tr.expr(st.value, {'JOIN': ('JOIN', [])}) if False else _join_expr(tr, st.value, arg)
        return ops

    # _get_file
    fn = tr.method(cls, '_get_file')
    lp, fwd = systems_loop(fn)
    b = lp.body
    shape = (len(b) == 3 and isinstance(b[1], ast.Try) and isinstance(b[2], ast.Return)
             and len(b[1].body) == 1 and len(b[1].handlers) == 1 and not b[1].orelse and not b[1].finalbody
             and _name(b[1].handlers[0].type) == 'FileNotFoundError' and len(b[1].handlers[0].body) == 1
             and isinstance(b[1].handlers[0].body[0], ast.Continue)
             and isinstance(b[1].body[0], ast.Assign)
             and ast.unparse(b[1].body[0].value) == 'sys._get_file(full_name)'
             and isinstance(b[2].value, ast.Call) and _name(b[2].value.func) == 'File'
             and len(b[2].value.args) == 3 and ast.unparse(b[2].value.args[2]) == ast.unparse(b[1].body[0].targets[0]))
    if not shape:
        tr.err(lp, '_get_file: loop body is not `full_name = ...; try: f = sys._get_file(full_name) except FileNotFoundError: continue; return File(.., f)`')
    jops = join_ops(b[0], 'full_name', 'name')
    last = fn.body[-1]
    if not (isinstance(last, ast.Raise) and 'FileNotFoundError' in ast.unparse(last)):
        tr.err(fn, '_get_file: does not end by raising FileNotFoundError')
    out.append(f'Definition chain_get_forward : bool := {"true" if fwd else "false"}.')
    out.append(f'Definition chain_get_join_ops : list sop := {_coq_ops(jops)}.')
    side['chain_get'] = {'forward': fwd, 'join_ops': jops, 'line': lp.lineno}

    # walk_folder (dedup)
    kops, dmode, dshape = _dedup(tr, tr.method(cls, 'walk_folder'))
    out.append(f'Definition chain_dedup_ops : list sop := {_coq_ops(kops)}.')
    out.append(f'Definition chain_dedup_mode : dedup_mode := {dmode}.')
    side['chain_dedup_ops'] = kops
    side['chain_dedup'] = {'mode': dmode, 'shape': dshape}

    # walk_folder_repeat
    fn = tr.method(cls, 'walk_folder_repeat')
    lp, fwd = systems_loop(fn)
    b = list(lp.body)
    if len(b) < 2 or not isinstance(b[-1], ast.For):
        tr.err(lp, 'walk_folder_repeat: unrecognised loop body')
    jops2 = join_ops(b[0], 'full_folder', 'folder')
    inner = b[-1]
    if not (ast.unparse(inner.iter) == 'sys.walk_folder(full_folder)' and _name(inner.target) == 'file'
            and len(inner.body) == 1 and isinstance(inner.body[0], ast.Expr) and isinstance(inner.body[0].value, ast.Yield)
            and isinstance(inner.body[0].value.value, ast.Call) and _name(inner.body[0].value.value.func) == 'File'
            and len(inner.body[0].value.value.args) == 3 and _name(inner.body[0].value.value.args[2]) == 'file'):
        tr.err(inner, 'walk_folder_repeat: inner loop is not `for file in sys.walk_folder(full_folder): yield File(self, <rel>, file)`')
    rel = ast.unparse(inner.body[0].value.value.args[1])
    mid = b[1:-1]
    if rel == "os.path.relpath(file.path, prefix).replace('\\\\', '/')" and not mid:
        mode = 'RelPath'
    elif (rel == "'/'.join(file.path.replace('\\\\', '/').split('/')[depth:])" and len(mid) == 1
          and ast.unparse(mid[0]) == "depth = len([part for part in prefix.replace('\\\\', '/').split('/') if part not in ('', '.')])"):
        mode = 'RelDropSegs'
    else:
        tr.err(inner, f'walk_folder_repeat: unrecognised relative-path expression {rel[:80]}')
    out.append(f'Definition chain_walk_forward : bool := {"true" if fwd else "false"}.')
    out.append(f'Definition chain_walk_join_ops : list sop := {_coq_ops(jops2)}.')
    out.append(f'Definition chain_relmode : relmode := {mode}.')
    side['chain_walk'] = {'forward': fwd, 'join_ops': jops2, 'relmode': mode, 'line': lp.lineno}
    return out


def _dedup(tr: Tr, fn: ast.FunctionDef):
    """Shape of FileSystemChain.walk_folder: (ops of the de-duplication key, DedupSkip | DedupOverwrite, description).

    Recognised, over `for file in self.walk_folder_repeat(folder)`:
      visited set:   [k = K]; if K in done: continue; done.add(K); yield file          -> DedupSkip
                     [k = K]; if K not in done: done.add(K); yield file                -> DedupSkip
      dict, then `return iter(d.values())` / `return d.values()` / `yield from d.values()`:
                     d.setdefault(K, file)   |   if K not in d: d[K] = file            -> DedupSkip
                     d[K] = file  (later members overwrite the File of a name)         -> DedupOverwrite
    where K is a normalisation of file.path.  Anything else fails closed."""
    stmts = [s for s in fn.body if not (isinstance(s, ast.Expr) and isinstance(s.value, ast.Constant))]
    if not (len(stmts) in (2, 3) and isinstance(stmts[0], (ast.Assign, ast.AnnAssign)) and isinstance(stmts[1], ast.For)
            and ast.unparse(stmts[1].iter) == 'self.walk_folder_repeat(folder)' and _name(stmts[1].target) == 'file'
            and not stmts[1].orelse):
        tr.err(fn, 'FileSystemChain.walk_folder: unrecognised shape')
    coll = _name(stmts[0].target if isinstance(stmts[0], ast.AnnAssign) else stmts[0].targets[0])
    init = ast.unparse(stmts[0].value) if stmts[0].value is not None else ''
    if coll is None or init not in ('set()', '{}', 'dict()'):
        tr.err(stmts[0], 'walk_folder: the visited collection is neither set() nor {} / dict()')
    is_set = init == 'set()'
    body = list(stmts[1].body)
    env: dict = {}
    if body and isinstance(body[0], ast.Assign) and len(body[0].targets) == 1 and isinstance(body[0].targets[0], ast.Name):
        kbase, kops0 = tr.expr(body[0].value, {})
        env[body[0].targets[0].id] = (kbase, kops0)
        body = body[1:]
    keys: list[tuple[str, list[str]]] = []

    def key_of(e):
        k = tr.expr(e, env)
        keys.append(k)
        return k

    def is_yield_file(st):
        return isinstance(st, ast.Expr) and isinstance(st.value, ast.Yield) and _name(st.value.value) == 'file'

    def is_call(st, meth, nargs):
        return (isinstance(st, ast.Expr) and isinstance(st.value, ast.Call) and isinstance(st.value.func, ast.Attribute)
                and _name(st.value.func.value) == coll and st.value.func.attr == meth and len(st.value.args) == nargs
                and not st.value.keywords)

    def membership(test, op):
        return (isinstance(test, ast.Compare) and len(test.ops) == 1 and isinstance(test.ops[0], op)
                and _name(test.comparators[0]) == coll)

    def is_store(st):
        return (isinstance(st, ast.Assign) and len(st.targets) == 1 and isinstance(st.targets[0], ast.Subscript)
                and _name(st.targets[0].value) == coll and _name(st.value) == 'file')

    mode = shape = None
    if is_set:
        if len(stmts) != 2:
            tr.err(fn, 'walk_folder: statements after the visited-set loop')
        if (len(body) == 3 and isinstance(body[0], ast.If) and not body[0].orelse and membership(body[0].test, ast.In)
                and len(body[0].body) == 1 and isinstance(body[0].body[0], ast.Continue)
                and is_call(body[1], 'add', 1) and is_yield_file(body[2])):
            key_of(body[0].test.left); key_of(body[1].value.args[0])
            mode, shape = 'DedupSkip', 'visited set: if key in done: continue; done.add(key); yield file'
        elif (len(body) == 1 and isinstance(body[0], ast.If) and not body[0].orelse and membership(body[0].test, ast.NotIn)
              and len(body[0].body) == 2 and is_call(body[0].body[0], 'add', 1) and is_yield_file(body[0].body[1])):
            key_of(body[0].test.left); key_of(body[0].body[0].value.args[0])
            mode, shape = 'DedupSkip', 'visited set: if key not in done: done.add(key); yield file'
    else:
        tail = ast.unparse(stmts[2]) if len(stmts) == 3 else ''
        if tail not in (f'return iter({coll}.values())', f'return {coll}.values()', f'yield from {coll}.values()'):
            tr.err(fn, 'walk_folder: a dict is filled but its values are not returned')
        if len(body) == 1 and is_call(body[0], 'setdefault', 2) and _name(body[0].value.args[1]) == 'file':
            key_of(body[0].value.args[0])
            mode, shape = 'DedupSkip', 'dict.setdefault(key, file)'
        elif (len(body) == 1 and isinstance(body[0], ast.If) and not body[0].orelse and membership(body[0].test, ast.NotIn)
              and len(body[0].body) == 1 and is_store(body[0].body[0])):
            key_of(body[0].test.left); key_of(body[0].body[0].targets[0].slice)
            mode, shape = 'DedupSkip', 'if key not in d: d[key] = file'
        elif len(body) == 1 and is_store(body[0]):
            key_of(body[0].targets[0].slice)
            mode, shape = 'DedupOverwrite', 'd[key] = file (a later member overwrites the File kept for a name)'
    if mode is None:
        tr.err(stmts[1], 'walk_folder: loop body is not a recognised de-duplication')
    for kb, _ in keys:
        if kb != 'file.path':
            tr.err(stmts[1], f'walk_folder: de-duplication key derived from {kb}, not from file.path')
    for _, ko in keys[1:]:
        if ko != keys[0][1]:
            tr.err(stmts[1], 'walk_folder: the membership test and the store use different keys')
    return keys[0][1], mode, shape


def _join_expr(tr: Tr, e, arg: str):
    """os.path.join(prefix, <arg>) followed by string operations -> ('JOIN', ops)."""
    ops: list[str] = []
    cur = e
    chain = []
    while isinstance(cur, ast.Call) and isinstance(cur.func, ast.Attribute) and _dotted(cur.func) not in ('os.path.join',):
        chain.append(cur)
        cur = cur.func.value
    if not (isinstance(cur, ast.Call) and _dotted(cur.func) == 'os.path.join' and len(cur.args) == 2
            and _name(cur.args[0]) == 'prefix' and _name(cur.args[1]) == arg):
        tr.err(e, f'expected os.path.join(prefix, {arg})...')
    for c in reversed(chain):
        f = c.func
        if f.attr == 'replace' and len(c.args) == 2 and _is_const(c.args[0], '\\') and _is_const(c.args[1], '/'):
            ops.append('OSlash')
        elif f.attr == 'casefold' and not c.args:
            ops.append('OFold')
        else:
            tr.err(c, 'unrecognised operation after os.path.join')
    return 'JOIN', ops


def _raw(tr: Tr, side: dict) -> list[str]:
    """RawFileSystem: which normalisation of the name / folder reaches `self._resolve_path(...)` in each entry point
    (the directory itself is the OS's business: os.path.isfile / open / os.walk on the resolved path)."""
    cls = tr.classes.get('RawFileSystem')
    if cls is None:
        tr.err(tr.tree, 'RawFileSystem not found')

    def resolve_ops(mname: str, param: str, os_call: str) -> list[str]:
        fn = tr.method(cls, mname)
        env = {param: (param, [])}
        found: list[list[str]] = []
        os_seen = False

        def visit(stmts):
            nonlocal os_seen
            for st in stmts:
                if isinstance(st, ast.Expr) and isinstance(st.value, ast.Constant):
                    continue
                if isinstance(st, ast.If) and ast.unparse(st.test) == f'isinstance({param}, File)' and not st.orelse \
                        and len(st.body) == 1 and ast.unparse(st.body[0]) == f'{param} = self._get_data({param})':
                    continue      # a File of this system carries its own (already listed) path
                own = [v for f, v in ast.iter_fields(st) if f not in ('body', 'orelse', 'finalbody', 'handlers')]
                for v in own:
                    for node in (ast.walk(v) if isinstance(v, ast.AST) else
                                 [n for x in v if isinstance(x, ast.AST) for n in ast.walk(x)] if isinstance(v, list) else ()):
                        if isinstance(node, ast.Call) and _dotted(node.func) == 'self._resolve_path':
                            if len(node.args) != 1 or node.keywords:
                                tr.err(node, f'RawFileSystem.{mname}: unrecognised _resolve_path call')
                            base, ops = tr.expr(node.args[0], env)
                            if base != param:
                                tr.err(node, f'RawFileSystem.{mname}: resolves {base}, not the {param} argument')
                            found.append(ops)
                        if isinstance(node, ast.Call) and _dotted(node.func) == os_call:
                            os_seen = True
                if isinstance(st, (ast.Assign, ast.AnnAssign)):
                    tr._stmt(st, env)
                for fld in ('body', 'orelse', 'finalbody'):
                    sub = getattr(st, fld, None)
                    if isinstance(sub, list):
                        visit(sub)

        visit(fn.body)
        if not found or not os_seen:
            tr.err(fn, f'RawFileSystem.{mname} does not pass self._resolve_path(...) to {os_call}')
        for o in found[1:]:
            if o != found[0]:
                tr.err(fn, f'RawFileSystem.{mname}: different normalisations reach _resolve_path')
        return found[0]

    g = resolve_ops('_get_file', 'name', 'os.path.isfile')
    e = resolve_ops('_file_exists', 'name', 'os.path.isfile')
    o = resolve_ops('open_bin', 'name', 'open')
    ostr = resolve_ops('open_str', 'name', 'open')
    if ostr != o:
        tr.err(cls, f'RawFileSystem: open_str and open_bin normalise differently: {ostr} vs {o}')
    w = resolve_ops('walk_folder', 'folder', 'os.walk')
    src = ast.unparse(tr.method(cls, 'walk_folder'))
    for n in ['os.walk(path)', "os.path.relpath(os.path.join(dirpath, file), self.path).replace('\\\\', '/')",
              'yield File(self, rel_path, rel_path)']:
        if n not in src:
            tr.err(cls, f'RawFileSystem.walk_folder: missing {n}')
    side['raw'] = {'get': g, 'exists': e, 'open': o, 'walk_folder': w,
                   'os': 'os.path.isfile / open / os.walk on self._resolve_path(...); listed names relative to self.path'}
    return ['Definition raw_is_os_exact : bool := true.',
            f'Definition raw_get_ops : list sop := {_coq_ops(g)}.',
            f'Definition raw_exists_ops : list sop := {_coq_ops(e)}.',
            f'Definition raw_open_ops : list sop := {_coq_ops(o)}.',
            f'Definition raw_walk_ops : list sop := {_coq_ops(w)}.']


def translate() -> tuple[str, dict]:
    tree = ast.parse(src_text('filesys.py'))
    tr = Tr(tree, 'filesys.py')
    side: dict = {'backends': {}}
    lines = ['(* generated by translate/c19_walk.py from src/srctools/filesys.py - do not edit *)',
             'From Coq Require Import List NArith.', 'From SV Require Import SM.FsChain.', 'Import ListNotations.', '']
    for cname, dattr in DICTS.items():
        cls = tr.classes.get(cname)
        if cls is None:
            tr.err(tree, f'class {cname} not found')
        tr.cls = cls
        store, store_base = _store_ops(tr, cls, dattr)
        get = _key_uses(tr, tr.method(cls, '_get_file'), dattr, 'name')
        ex = _key_uses(tr, tr.method(cls, '_file_exists'), dattr, 'name')
        op = _key_uses(tr, tr.method(cls, 'open_bin'), dattr, 'name')
        if 'self.open_bin(name)' in ast.unparse(tr.method(cls, 'open_str')):
            ops_str = op      # delegates to open_bin
        else:
            ops_str = _key_uses(tr, tr.method(cls, 'open_str'), dattr, 'name')
        if ops_str != op:
            tr.err(cls, f'{cname}: open_str and open_bin normalise differently: {ops_str} vs {op}')
        wf, subj, sops, line, wsrc = _walk(tr, cls, dattr)
        lines.append(f'Definition {CFG[cname]} : backend := {{|')
        lines.append(f'  b_store := {_coq_ops(store)}; b_get := {_coq_ops(get)}; b_exists := {_coq_ops(ex)}; b_open := {_coq_ops(op)};')
        lines.append(f'  b_wsrc := {wsrc}; b_wfolder := {_coq_ops(wf)}; b_wsubj := {subj}; b_wsubj_ops := {_coq_ops(sops)} |}}.')
        side['backends'][cname] = {'store': store, 'get': get, 'exists': ex, 'open': op, 'walk_folder': wf,
                                   'walk_source': wsrc, 'walk_subject': subj, 'walk_subject_ops': sops, 'walk_line': line,
                                   'digest': ast_digest(cls)}
    lines.append('')
    lines += _raw(tr, side)
    lines += _chain(tr, side)
    lines.append('')
    return '\n'.join(lines), side


GEN = {'FsWalk_gen': translate}
