"""C19 translator: name normalisation and folder matching of the filesystem backends -> Gen/FsWalk_gen.v.

Reads src/srctools/filesys.py with `ast` and emits, for VirtualFileSystem, ZipFileSystem and VPKFileSystem, a
`backend` record (rocq/SM/FsChain.v): the list of normalisation operations applied to stored names (dictionary
comprehension in __init__), to the query in _get_file / _file_exists / open_bin, to the folder argument of
walk_folder, and what walk_folder compares with `.startswith(folder)`.  For FileSystemChain it emits the insertion
index of priority members, the shape of the _get_file loop, the de-duplication key of walk_folder and how
walk_folder_repeat makes member paths relative.  RawFileSystem is only checked to delegate to os.path.isfile/os.walk.

Fail-closed: any expression outside the small language below raises TranslateError.
    X.replace('\\\\', '/') -> OSlash      X.casefold() -> OFold      os.path.normpath(X) -> ONorm
    X.rstrip('/') -> ORStrip              `if X == '.': X = ''` -> ODotEmpty
    X + '/' if X else '' -> OAddSlash     self.<helper>(X), module-level helper(X) -> their translated bodies
Round 3: everything is matched on a canonical form of the module (see `canonical_module`, `normalise`, `_paths`), so that
behaviour-preserving spellings of the same code give the same generated file; what cannot be classified still fails closed.
"""
from __future__ import annotations

import ast

from harness.common import TranslateError, src_text, ast_digest

DICTS = {'VirtualFileSystem': '_mapping', 'ZipFileSystem': '_name_to_info', 'VPKFileSystem': '_name_to_file'}
CONTAINERS = {'VPKFileSystem': 'vpk'}     # attribute holding a container that can be iterated directly
CFG = {'VirtualFileSystem': 'virtual_cfg', 'ZipFileSystem': 'zip_cfg', 'VPKFileSystem': 'vpk_cfg'}


def _is_const(n, v) -> bool:
    return isinstance(n, ast.Constant) and n.value == v


def _name(n) -> str | None:
    return n.id if isinstance(n, ast.Name) else None


def _dotted(n) -> str | None:
    if isinstance(n, ast.Name):
        return n.id
    if isinstance(n, ast.Attribute):
        b = _dotted(n.value)
        return None if b is None else f'{b}.{n.attr}'
    return None


def _nonempty_test(t):
    """(X, True) for `X`, `X != ''`, `len(X) > 0`, `len(X) != 0`, `len(X)`, `bool(X)`; (X, False) for `not X`, `X == ''`,
    `len(X) == 0`; None otherwise.  (X a string: all of these say whether X is non-empty.)"""
    pol = True
    while isinstance(t, ast.UnaryOp) and isinstance(t.op, ast.Not):
        t, pol = t.operand, not pol
    if isinstance(t, ast.Call) and _name(t.func) in ('len', 'bool') and len(t.args) == 1 and not t.keywords:
        return t.args[0], pol
    if isinstance(t, ast.Compare) and len(t.ops) == 1:
        l, o, r = t.left, t.ops[0], t.comparators[0]
        if _is_const(r, '') and isinstance(o, (ast.NotEq, ast.Eq)):
            return l, pol == isinstance(o, ast.NotEq)
        if isinstance(l, ast.Call) and _name(l.func) == 'len' and len(l.args) == 1 and _is_const(r, 0):
            if isinstance(o, (ast.Gt, ast.NotEq)):
                return l.args[0], pol
            if isinstance(o, ast.Eq):
                return l.args[0], not pol
        return None
    if isinstance(t, (ast.Name, ast.Attribute)):
        return t, pol
    return None


class _FStrConcat(ast.NodeTransformer):
    """f'{A}text{B}' -> A + 'text' + B  (plain replacement fields only; used where A, B are strings being normalised)."""

    def visit_JoinedStr(self, node):
        cur = None
        for part in node.values:
            if isinstance(part, ast.FormattedValue) and part.conversion == -1 and part.format_spec is None:
                piece = self.visit(part.value)
            elif isinstance(part, ast.Constant) and isinstance(part.value, str):
                piece = part
            else:
                return node
            cur = piece if cur is None else ast.copy_location(ast.BinOp(left=cur, op=ast.Add(), right=piece), node)
        return node if cur is None or isinstance(cur, ast.Constant) else cur


def _tail_ifexp(stmts):
    """`...; if c: return A` followed by (or with an else of) statements that end in `return B`  ->  `...; return A if c
    else B`, from the end backwards (only where both sides are a bare return)."""
    stmts = list(stmts)
    for i, st in enumerate(stmts):
        if isinstance(st, ast.If) and len(st.body) == 1 and isinstance(st.body[0], ast.Return) and st.body[0].value is not None:
            tail = _tail_ifexp(list(st.orelse) + stmts[i + 1:])
            if len(tail) == 1 and isinstance(tail[0], ast.Return) and tail[0].value is not None:
                new = ast.Return(value=ast.IfExp(test=st.test, body=st.body[0].value, orelse=tail[0].value))
                return stmts[:i] + [ast.fix_missing_locations(ast.copy_location(new, st))]
            return stmts
    return stmts


class Tr:
    """Symbolic evaluation of string-normalising expressions to (base, [ops])."""

    def __init__(self, tree: ast.Module, where: str) -> None:
        self.tree = tree
        self.where = where
        self.funcs = {n.name: n for n in tree.body if isinstance(n, ast.FunctionDef)}
        self.classes = {n.name: n for n in tree.body if isinstance(n, ast.ClassDef)}
        self.cls: ast.ClassDef | None = None

    def err(self, node, msg):
        raise TranslateError(f'{self.where}:{getattr(node, "lineno", "?")}: {msg}')

    def method(self, cls: ast.ClassDef, name: str) -> ast.FunctionDef:
        for n in cls.body:
            if isinstance(n, ast.FunctionDef) and n.name == name:
                return n
        self.err(cls, f'{cls.name}.{name} not found')

    # -- helper functions: a function of one string parameter whose body is straight-line normalisation
    def helper_ops(self, fn: ast.FunctionDef, depth: int = 0) -> list[str]:
        if depth > 3:
            self.err(fn, 'helper recursion')
        params = [a.arg for a in fn.args.args if a.arg not in ('self', 'cls')]
        if len(params) != 1:
            self.err(fn, f'helper {fn.name} must take one argument')
        p = params[0]
        env = {p: (p, [])}
        for st in _tail_ifexp(fn.body):
            if isinstance(st, ast.Expr) and isinstance(st.value, ast.Constant):
                continue   # docstring
            if isinstance(st, ast.If) and self._is_file_unwrap(st, p):
                continue   # `if isinstance(path, File): path = path.path`
            if self._stmt(st, env, depth):
                continue
            if isinstance(st, ast.Return) and st.value is not None:
                base, ops = self.expr(st.value, env, depth)
                if base != p:
                    self.err(st, f'helper {fn.name} returns something not derived from its argument')
                return ops
            self.err(st, f'unrecognised statement in helper {fn.name}')
        self.err(fn, f'helper {fn.name} has no return')

    @staticmethod
    def _is_file_unwrap(st: ast.If, p: str) -> bool:
        t = st.test
        return (isinstance(t, ast.Call) and _name(t.func) == 'isinstance' and len(t.args) == 2 and _name(t.args[0]) == p
                and _name(t.args[1]) == 'File' and not st.orelse and len(st.body) == 1
                and isinstance(st.body[0], ast.Assign) and _name(st.body[0].targets[0]) == p
                and _dotted(st.body[0].value) == f'{p}.path')

    def _stmt(self, st, env, depth=0) -> bool:
        """Straight-line statements that update the environment. Returns True if consumed."""
        if isinstance(st, ast.Assign) and len(st.targets) == 1 and isinstance(st.targets[0], ast.Name):
            tgt = st.targets[0].id
            try:
                env[tgt] = self.expr(st.value, env, depth)
            except TranslateError:
                env[tgt] = None      # not a normalised string (ZipInfo, FileInfo, ...): unusable as a key
            return True
        if isinstance(st, ast.AnnAssign) and isinstance(st.target, ast.Name) and st.value is not None:
            try:
                env[st.target.id] = self.expr(st.value, env, depth)
            except TranslateError:
                env[st.target.id] = None
            return True
        # if X == '.': X = ''
        if isinstance(st, ast.If) and isinstance(st.test, ast.Compare) and len(st.test.ops) == 1 \
                and isinstance(st.test.ops[0], ast.Eq) and _is_const(st.test.comparators[0], '.') \
                and _name(st.test.left) in env and not st.orelse and len(st.body) == 1 \
                and isinstance(st.body[0], ast.Assign) and _name(st.body[0].targets[0]) == _name(st.test.left) \
                and _is_const(st.body[0].value, ''):
            v = _name(st.test.left)
            if env[v] is None:
                self.err(st, 'dot test on unknown value')
            env[v] = (env[v][0], env[v][1] + ['ODotEmpty'])
            return True
        return False

    def expr(self, e, env, depth=0) -> tuple[str, list[str]]:
        # variable
        if isinstance(e, ast.Name):
            if e.id in env:
                if env[e.id] is None:
                    self.err(e, f'{e.id} is not a recognised normalised string')
                return env[e.id][0], list(env[e.id][1])
            return e.id, []
        if isinstance(e, ast.Attribute):
            d = _dotted(e)
            if d is None:
                self.err(e, 'unrecognised attribute expression')
            return d, []
        # f'{X}/' is X + '/' for a string X
        if any(isinstance(n, ast.JoinedStr) for n in ast.walk(e)):
            import copy
            e = _FStrConcat().visit(copy.deepcopy(e))
            if any(isinstance(n, ast.JoinedStr) for n in ast.walk(e)):
                self.err(e, 'unrecognised f-string')
        # '' if X == '.' else X
        if isinstance(e, ast.IfExp) and isinstance(e.test, ast.Compare) and len(e.test.ops) == 1 \
                and isinstance(e.test.ops[0], (ast.Eq, ast.NotEq)) and _is_const(e.test.comparators[0], '.'):
            a, b = (e.body, e.orelse) if isinstance(e.test.ops[0], ast.Eq) else (e.orelse, e.body)
            if _is_const(a, '') and ast.dump(b) == ast.dump(e.test.left):
                base, ops = self.expr(b, env, depth)
                return base, ops + ['ODotEmpty']
            self.err(e, 'unrecognised conditional expression')
        # X + '/' if X else ''   (the test in any spelling of "X is not empty", either polarity)
        if isinstance(e, ast.IfExp):
            t = _nonempty_test(e.test)
            if t is not None:
                subject, a, b = (t[0], e.body, e.orelse) if t[1] else (t[0], e.orelse, e.body)
                if isinstance(a, ast.BinOp) and isinstance(a.op, ast.Add) and _is_const(a.right, '/') \
                        and _is_const(b, '') and ast.dump(subject) == ast.dump(a.left):
                    base, ops = self.expr(subject, env, depth)
                    return base, ops + ['OAddSlash']
            self.err(e, 'unrecognised conditional expression')
        if isinstance(e, ast.Call):
            f = e.func
            fd = _dotted(f)
            if fd in ('os.path.normpath', 'posixpath.normpath') and len(e.args) == 1 and not e.keywords:
                base, ops = self.expr(e.args[0], env, depth)
                return base, ops + ['ONorm']
            if isinstance(f, ast.Attribute) and isinstance(f.value, ast.Name) and self.cls is not None \
                    and f.value.id in ('self', 'cls', self.cls.name) and len(e.args) == 1 and not e.keywords \
                    and any(isinstance(n, ast.FunctionDef) and n.name == f.attr for n in self.cls.body):
                # a string helper of the same class (e.g. _clean_path): its translated body
                base, ops = self.expr(e.args[0], env, depth)
                return base, ops + self.helper_ops(self.method(self.cls, f.attr), depth + 1)
            if isinstance(f, ast.Name) and f.id in self.funcs and len(e.args) == 1 and not e.keywords:
                base, ops = self.expr(e.args[0], env, depth)
                return base, ops + self.helper_ops(self.funcs[f.id], depth + 1)
            if isinstance(f, ast.Attribute) and not e.keywords:
                if f.attr == 'replace' and len(e.args) == 2 and _is_const(e.args[0], '\\') and _is_const(e.args[1], '/'):
                    base, ops = self.expr(f.value, env, depth)
                    return base, ops + ['OSlash']
                if f.attr == 'casefold' and not e.args:
                    base, ops = self.expr(f.value, env, depth)
                    return base, ops + ['OFold']
                if f.attr == 'rstrip' and len(e.args) == 1 and _is_const(e.args[0], '/'):
                    base, ops = self.expr(f.value, env, depth)
                    return base, ops + ['ORStrip']
            self.err(e, f'unrecognised call {ast.unparse(e)[:60]}')
        self.err(e, f'unrecognised expression {ast.unparse(e)[:60]}')



# ------------------------------------------------------------------------------------------------ normalisation
# Before a method is matched it is rewritten into a canonical form, so that behaviour-preserving spellings are
# recognised:  (1) calls of module-level helpers / methods of the same class whose body is a single `return E` are
# replaced by E;  (2) locals that are assigned exactly once a pure string expression are replaced by that expression;
# (3) variables bound by comprehensions are renamed _C0, _C1, ...   Everything else is left alone, and what cannot be
# matched afterwards still fails closed.
PURE_METHODS = {'replace', 'casefold', 'lower', 'upper', 'rstrip', 'lstrip', 'strip', 'split', 'rsplit', 'join',
                'startswith', 'endswith', 'removeprefix', 'removesuffix', 'count'}
PURE_FUNCS = {'os.path.join', 'os.path.normpath', 'posixpath.join', 'posixpath.normpath', 'len', 'str', 'tuple', 'list',
              'sum', 'bool'}


def _is_doc(st) -> bool:
    return isinstance(st, ast.Expr) and isinstance(st.value, ast.Constant) and isinstance(st.value.value, str)


def _body(fn) -> list:
    return [st for st in fn.body if not _is_doc(st)]


def _pure(e) -> bool:
    """An expression without side effects whose value depends only on the variables it mentions."""
    for n in ast.walk(e):
        if isinstance(n, ast.Call):
            f = n.func
            if isinstance(f, ast.Attribute) and f.attr in PURE_METHODS:
                continue
            if _dotted(f) in PURE_FUNCS:
                continue
            return False
        if isinstance(n, (ast.Await, ast.Yield, ast.YieldFrom, ast.NamedExpr, ast.Lambda, ast.Starred)):
            return False
    return True


def _bound_in_comps(e) -> set:
    return {n.id for c in ast.walk(e) if isinstance(c, ast.comprehension) for n in ast.walk(c.target) if isinstance(n, ast.Name)}


class _Subst(ast.NodeTransformer):
    def __init__(self, mp):
        self.mp = mp

    def visit_Name(self, node):
        if isinstance(node.ctx, ast.Load) and node.id in self.mp:
            import copy
            return copy.deepcopy(self.mp[node.id])
        return node


def _helper_expr(fn: ast.FunctionDef):
    """(parameter names, defaults, E) if the helper is `def f(p...): [doc]; return E`, else None."""
    b = _body(fn)
    if len(b) != 1 or not isinstance(b[0], ast.Return) or b[0].value is None:
        return None
    a = fn.args
    if a.vararg or a.kwarg or a.posonlyargs:
        return None
    params = [x.arg for x in a.args]
    deco = {_dotted(d) for d in fn.decorator_list}
    if params and params[0] in ('self', 'cls') and 'staticmethod' not in deco:
        params = params[1:]
    defaults = dict(zip(params[len(params) - len(a.defaults):], a.defaults)) if a.defaults else {}
    for k, d in zip(a.kwonlyargs, a.kw_defaults):
        params.append(k.arg)
        if d is not None:
            defaults[k.arg] = d
    return params, defaults, b[0].value


class _Inline(ast.NodeTransformer):
    """(1): replace calls of single-expression helpers by their bodies."""

    def __init__(self, tr, cls, depth=0):
        self.tr, self.cls, self.depth = tr, cls, depth

    def _resolve(self, f):
        if isinstance(f, ast.Name) and f.id in self.tr.funcs:
            return self.tr.funcs[f.id]
        if isinstance(f, ast.Attribute) and isinstance(f.value, ast.Name) and self.cls is not None \
                and f.value.id in ('self', 'cls', self.cls.name):
            for n in self.cls.body:
                if isinstance(n, ast.FunctionDef) and n.name == f.attr:
                    return n
        return None

    def visit_Call(self, node):
        self.generic_visit(node)
        fn = self._resolve(node.func)
        if fn is None or self.depth > 3:
            return node
        h = _helper_expr(fn)
        if h is None:
            return node
        params, defaults, e = h
        if any(isinstance(a, ast.Starred) for a in node.args) or any(k.arg is None for k in node.keywords):
            return node
        if len(node.args) > len(params):
            return node
        mp = dict(zip(params, node.args))
        for k in node.keywords:
            if k.arg not in params or k.arg in mp:
                return node
            mp[k.arg] = k.value
        for p_ in params:
            if p_ not in mp:
                if p_ not in defaults:
                    return node
                mp[p_] = defaults[p_]
        # only pure arguments may be duplicated or dropped; no capture by the helper's comprehension variables
        free = {n.id for a in mp.values() for n in ast.walk(a) if isinstance(n, ast.Name)}
        if not all(_pure(a) for a in mp.values()) or (free & _bound_in_comps(e)):
            return node
        import copy
        body = _Subst(mp).visit(copy.deepcopy(e))
        return _Inline(self.tr, self.cls, self.depth + 1).visit(body)


def _binding_counts(fn: ast.FunctionDef) -> dict:
    cnt: dict[str, int] = {}
    for a in fn.args.args + fn.args.kwonlyargs:
        cnt[a.arg] = cnt.get(a.arg, 0) + 1
    for n in ast.walk(fn):
        if isinstance(n, ast.Name) and isinstance(n.ctx, (ast.Store, ast.Del)):
            cnt[n.id] = cnt.get(n.id, 0) + 1
        elif isinstance(n, ast.ExceptHandler) and n.name:
            cnt[n.name] = cnt.get(n.name, 0) + 1
    return cnt


def _loads(node, name) -> int:
    return sum(1 for n in ast.walk(node) if isinstance(n, ast.Name) and n.id == name and isinstance(n.ctx, ast.Load))


def _inline_locals(fn: ast.FunctionDef) -> None:
    """(2): `v = E` (v bound once, E pure over variables bound once, every use of v later in the same block) -> E."""
    changed = True
    while changed:
        changed = False
        cnt = _binding_counts(fn)
        for holder in ast.walk(fn):
            for fld in ('body', 'orelse', 'finalbody'):
                blk = getattr(holder, fld, None)
                if not isinstance(blk, list):
                    continue
                for i, st in enumerate(blk):
                    tgt = val = None
                    if isinstance(st, ast.Assign) and len(st.targets) == 1 and isinstance(st.targets[0], ast.Name):
                        tgt, val = st.targets[0].id, st.value
                    elif isinstance(st, ast.AnnAssign) and isinstance(st.target, ast.Name) and st.value is not None:
                        tgt, val = st.target.id, st.value
                    if tgt is None or cnt.get(tgt, 0) != 1 or not _pure(val):
                        continue
                    if isinstance(val, (ast.Dict, ast.List, ast.Set, ast.ListComp, ast.SetComp, ast.DictComp, ast.GeneratorExp)) \
                            or (isinstance(val, ast.Call) and _dotted(val.func) in ('list', 'dict', 'set')):
                        # a fresh mutable object: its identity matters, unless its only use is one evaluation by the
                        # simple statement that follows (then there is nothing to alias it)
                        nxt = blk[i + 1] if i + 1 < len(blk) else None
                        once = (isinstance(nxt, (ast.Assign, ast.AnnAssign, ast.Return, ast.Expr)) and _loads(nxt, tgt) == 1
                                and _loads(fn, tgt) == 1
                                and not any(isinstance(c, (ast.ListComp, ast.SetComp, ast.DictComp, ast.GeneratorExp, ast.Lambda)) and _loads(c, tgt)
                                            for c in ast.walk(nxt)))
                        if not once:
                            continue
                    free = {n.id for n in ast.walk(val) if isinstance(n, ast.Name)} - _bound_in_comps(val)
                    if any(cnt.get(v, 0) > 1 for v in free) or tgt in free:
                        continue
                    rest = blk[i + 1:]
                    if sum(_loads(r, tgt) for r in rest) != _loads(fn, tgt) or not rest:
                        continue
                    if any(tgt in _bound_in_comps(r) or (free & _bound_in_comps(r)) for r in rest):
                        continue
                    sub = _Subst({tgt: val})
                    blk[i + 1:] = [sub.visit(r) for r in rest]
                    del blk[i]
                    changed = True
                    break
                if changed:
                    break
            if changed:
                break


def _rename_comps(fn: ast.FunctionDef) -> None:
    """(3): comprehension variables -> _C0, _C1, ... (per comprehension, in order of appearance)."""
    k = 0
    for n in ast.walk(fn):
        if isinstance(n, (ast.ListComp, ast.SetComp, ast.GeneratorExp, ast.DictComp)):
            names = []
            for c in n.generators:
                for t in ast.walk(c.target):
                    if isinstance(t, ast.Name) and t.id not in names and not t.id.startswith('_C'):
                        names.append(t.id)
            mp = {}
            for nm in names:
                mp[nm] = f'_C{k}'
                k += 1
            for t in ast.walk(n):
                if isinstance(t, ast.Name) and t.id in mp:
                    t.id = mp[t.id]


def normalise(tr, cls, fn: ast.FunctionDef) -> ast.FunctionDef:
    import copy
    out = copy.deepcopy(fn)
    out.body = [_Inline(tr, cls).visit(st) for st in out.body]
    _inline_locals(out)
    _rename_comps(out)
    ast.fix_missing_locations(out)
    return out


# ------------------------------------------------------------------------------------------------ canonical module
# Behaviour-preserving rewrites applied once to the whole parsed module before anything is matched (every one is an
# equivalence of Python programs, none depends on what the code is about):
#   (4) module-level constants (a name bound once at module level to a literal, never declared global) are inlined;
#   (5) in a loop body `if c: continue` followed by R  ->  `if not c: R`  (`not` pushed into comparisons);
#   (6) `yield from (E for T in I if C)` / `yield from [E for ...]`  ->  `for T in I: if C: yield E`;
#   (7) `for t in I: a, b = t; ...` (t not used otherwise)  ->  `for a, b in I: ...`;
#   (8) `D = {}` followed by `for T in I: [if C:] D[K] = V`  ->  `D = {K: V for T in I [if C]}`;
#   (9) `try: A except E: <continue/break/return/raise> else: B`  ->  the same try followed by B;
#   (10) keyword arguments of calls to functions / classes defined in the module -> positional, by their own signature;
#   (11) a local re-assigned by plain statements of one block (never read before the first, nor outside the block) gets
#        one name per assignment (`v = A; v = f(v)` -> `v = A; v_1 = f(v)`), so that rule (2) can inline it;
#   (12) `for k in self.<backend dict>: ... self.<backend dict>[k] ...`  ->  `for k, v in self.<backend dict>.items(): ... v ...`;
#   (13) `for ...: body else: E` without a break in the body  ->  the loop followed by E;
#   (14) `sum(1 for T in I if C)`  ->  `len([T for T in I if C])`;
#   (15) `except E: pass` of a try that ends a loop body  ->  `except E: continue`.
# Matching-time equivalences: `if not c: A else: B` = `if c: B else: A` and straight-line locals folded into the returned
# expression (_paths), `if c: return A` + `return B` in a string helper = `return A if c else B` (_tail_ifexp), every spelling
# of "X is not empty" (_nonempty_test), key uses / FileInfo sources inside helpers of the same class that are handed the name.
_NEG = {ast.In: ast.NotIn, ast.NotIn: ast.In, ast.Eq: ast.NotEq, ast.NotEq: ast.Eq, ast.Is: ast.IsNot, ast.IsNot: ast.Is}


def _negate(t):
    if isinstance(t, ast.UnaryOp) and isinstance(t.op, ast.Not):
        return t.operand
    if isinstance(t, ast.Compare) and len(t.ops) == 1 and type(t.ops[0]) in _NEG:
        return ast.copy_location(ast.Compare(left=t.left, ops=[_NEG[type(t.ops[0])]()], comparators=t.comparators), t)
    return ast.copy_location(ast.UnaryOp(op=ast.Not(), operand=t), t)


def _fn_bound(fn) -> set:
    out = {a.arg for a in fn.args.args + fn.args.kwonlyargs + fn.args.posonlyargs}
    for a in (fn.args.vararg, fn.args.kwarg):
        if a is not None:
            out.add(a.arg)
    for n in ast.walk(fn):
        if isinstance(n, ast.Name) and isinstance(n.ctx, (ast.Store, ast.Del)):
            out.add(n.id)
        elif isinstance(n, ast.ExceptHandler) and n.name:
            out.add(n.name)
        elif isinstance(n, (ast.Import, ast.ImportFrom)):
            out.update((a.asname or a.name).split('.')[0] for a in n.names)
        elif isinstance(n, (ast.FunctionDef, ast.ClassDef)) and n is not fn:
            out.add(n.name)
    return out


def _module_consts(tree: ast.Module) -> dict:
    cnt: dict[str, int] = {}
    val: dict[str, ast.AST] = {}

    def scan(stmts):
        for st in stmts:
            if isinstance(st, (ast.FunctionDef, ast.AsyncFunctionDef, ast.ClassDef)):
                cnt[st.name] = cnt.get(st.name, 0) + 2
                continue
            for n in ast.walk(st):
                if isinstance(n, ast.Name) and isinstance(n.ctx, (ast.Store, ast.Del)):
                    cnt[n.id] = cnt.get(n.id, 0) + 1
                elif isinstance(n, (ast.Import, ast.ImportFrom)):
                    for a in n.names:
                        k = (a.asname or a.name).split('.')[0]
                        cnt[k] = cnt.get(k, 0) + 2
            tgt = v = None
            if isinstance(st, ast.Assign) and len(st.targets) == 1 and isinstance(st.targets[0], ast.Name):
                tgt, v = st.targets[0].id, st.value
            elif isinstance(st, ast.AnnAssign) and isinstance(st.target, ast.Name) and st.value is not None:
                tgt, v = st.target.id, st.value
            if tgt is not None and isinstance(v, ast.Constant) and isinstance(v.value, (str, bytes, int, bool, type(None))):
                val[tgt] = v
    scan(tree.body)      # only top-level statements: a conditional definition is not a constant
    for n in ast.walk(tree):
        if isinstance(n, (ast.Global, ast.Nonlocal)):
            for k in n.names:
                cnt[k] = cnt.get(k, 0) + 2
    return {k: v for k, v in val.items() if cnt.get(k, 0) == 1}


def _loads_outside(fn, name: str, inside) -> int:
    ins = {id(n) for n in ast.walk(inside)}
    return sum(1 for n in ast.walk(fn) if isinstance(n, ast.Name) and n.id == name and id(n) not in ins)


def _mentions(e, dumped: str) -> bool:
    return any(ast.dump(n) == dumped for n in ast.walk(e))


def _has_break(stmts) -> bool:
    for st in stmts:
        if isinstance(st, ast.Break):
            return True
        if isinstance(st, (ast.For, ast.While, ast.FunctionDef, ast.ClassDef)):
            if _has_break(getattr(st, 'orelse', [])):
                return True
            continue            # a break inside a nested loop belongs to that loop
        for fld in ('body', 'orelse', 'finalbody'):
            if _has_break(getattr(st, fld, []) or []):
                return True
        if isinstance(st, ast.Try) and any(_has_break(h.body) for h in st.handlers):
            return True
    return False


class _CountToLen(ast.NodeTransformer):
    """(14) sum(1 for T in I if C)  ->  len([T for T in I if C])   (counting the elements that pass a filter)."""

    def visit_Call(self, node):
        self.generic_visit(node)
        if _name(node.func) == 'sum' and len(node.args) == 1 and not node.keywords and isinstance(node.args[0], (ast.GeneratorExp, ast.ListComp)) \
                and _is_const(node.args[0].elt, 1) and len(node.args[0].generators) == 1 and isinstance(node.args[0].generators[0].target, ast.Name):
            g = node.args[0].generators[0]
            lc = ast.ListComp(elt=ast.Name(id=g.target.id, ctx=ast.Load()), generators=node.args[0].generators)
            return ast.copy_location(ast.Call(func=ast.Name(id='len', ctx=ast.Load()), args=[lc], keywords=[]), node)
        return node


def _canon_block(fn, blk: list, in_loop: bool) -> list:
    """One block of statements, rewritten (recursively)."""
    import copy
    out: list = []
    i = 0
    blk = list(blk)
    while i < len(blk):
        st = blk[i]
        # (6) yield from <comprehension>
        if isinstance(st, ast.Expr) and isinstance(st.value, ast.YieldFrom) and isinstance(st.value.value, (ast.GeneratorExp, ast.ListComp)):
            comp = st.value.value
            names = {n.id for g in comp.generators for n in ast.walk(g.target) if isinstance(n, ast.Name)}
            if not any(g.is_async for g in comp.generators) and all(_loads_outside(fn, nm, comp) == 0 for nm in names):
                inner: ast.stmt = ast.Expr(value=ast.Yield(value=comp.elt))
                for g in reversed(comp.generators):
                    for c in reversed(g.ifs):
                        inner = ast.If(test=c, body=[inner], orelse=[])
                    inner = ast.For(target=copy.deepcopy(g.target), iter=g.iter, body=[inner], orelse=[])
                    for n in ast.walk(inner.target):
                        if isinstance(n, ast.Name):
                            n.ctx = ast.Store()
                blk[i] = st = ast.copy_location(inner, st)
        # (8) D = {} ; for T in I: [if C:] D[K] = V
        if isinstance(st, (ast.Assign, ast.AnnAssign)) and i + 1 < len(blk) and isinstance(blk[i + 1], ast.For):
            tgt = st.targets[0] if isinstance(st, ast.Assign) and len(st.targets) == 1 else getattr(st, 'target', None)
            lp = blk[i + 1]
            v = st.value
            empty = v is not None and ((isinstance(v, ast.Dict) and not v.keys) or (isinstance(v, ast.Call) and _name(v.func) == 'dict' and not v.args and not v.keywords))
            if tgt is not None and _dotted(tgt) is not None and empty and not lp.orelse and len(lp.body) == 1:
                b0 = lp.body[0]
                cond = None
                if isinstance(b0, ast.If) and not b0.orelse and len(b0.body) == 1:
                    cond, b0 = b0.test, b0.body[0]
                td = ast.dump(ast.parse(_dotted(tgt), mode='eval').body)
                lnames = {n.id for n in ast.walk(lp.target) if isinstance(n, ast.Name)}
                if (isinstance(b0, ast.Assign) and len(b0.targets) == 1 and isinstance(b0.targets[0], ast.Subscript)
                        and _dotted(b0.targets[0].value) == _dotted(tgt)
                        and not any(_mentions(x, td) for x in (b0.targets[0].slice, b0.value, lp.iter) + ((cond,) if cond is not None else ()))
                        and all(_loads_outside(fn, nm, lp) == 0 for nm in lnames)):
                    tcopy = copy.deepcopy(lp.target)
                    comp = ast.DictComp(key=b0.targets[0].slice, value=b0.value,
                                        generators=[ast.comprehension(target=tcopy, iter=lp.iter, ifs=[cond] if cond is not None else [], is_async=0)])
                    new = copy.copy(st)
                    new.value = ast.copy_location(comp, lp)
                    out.append(new)
                    i += 2
                    continue
        # (7) for t in I: a, b = t
        if isinstance(st, ast.For) and isinstance(st.target, ast.Name) and st.body:
            b0 = st.body[0]
            t = st.target.id
            if (isinstance(b0, ast.Assign) and len(b0.targets) == 1 and isinstance(b0.targets[0], ast.Tuple)
                    and all(isinstance(x, ast.Name) for x in b0.targets[0].elts) and _name(b0.value) == t
                    and _loads(fn, t) == 1 and len(st.body) > 1):
                st = ast.copy_location(ast.For(target=b0.targets[0], iter=st.iter, body=st.body[1:], orelse=st.orelse), st)
                blk[i] = st
        # (5) if c: continue ; R   (only directly in a loop body)
        if in_loop and isinstance(st, ast.If) and not st.orelse and len(st.body) == 1 and isinstance(st.body[0], ast.Continue) and blk[i + 1:]:
            rest = _canon_block(fn, blk[i + 1:], True)
            out.append(ast.copy_location(ast.If(test=_negate(st.test), body=rest, orelse=[]), st))
            return out
        # (15) `except E: pass` of a try that is the last statement of a loop body  ->  `except E: continue`
        if in_loop and isinstance(st, ast.Try) and i == len(blk) - 1 and not st.finalbody:
            for h in st.handlers:
                if len(h.body) == 1 and isinstance(h.body[0], ast.Pass):
                    h.body = [ast.copy_location(ast.Continue(), h.body[0])]
        # (13) for ...: body else: E   (no break in the body: the else always runs)   ->   for ...: body; E
        if isinstance(st, (ast.For, ast.While)) and st.orelse and not _has_break(st.body):
            moved = list(st.orelse)
            st.orelse = []
            blk[i + 1:i + 1] = moved
        # (9) try: A except E: <leaves> else: B   ->   try: A except E: <leaves>; B
        if isinstance(st, ast.Try) and st.orelse and not st.finalbody and st.handlers \
                and all(h.body and isinstance(h.body[-1], (ast.Continue, ast.Break, ast.Return, ast.Raise)) for h in st.handlers):
            moved = list(st.orelse)
            st.orelse = []
            blk[i + 1:i + 1] = moved
        # (12) for k in self.<dict>: ... self.<dict>[k] ...   ->   for k, v in self.<dict>.items(): ... v ...
        if isinstance(st, ast.For) and isinstance(st.target, ast.Name):
            it = st.iter
            if isinstance(it, ast.Call) and isinstance(it.func, ast.Attribute) and it.func.attr == 'keys' and not it.args and not it.keywords:
                it = it.func.value
            d = _dotted(it)
            if d is not None and d.startswith('self.') and d[5:] in DICTS.values():
                k = st.target.id
                is_sub = lambda n: isinstance(n, ast.Subscript) and _dotted(n.value) == d and _name(n.slice) == k and isinstance(n.ctx, ast.Load)
                stores = any((isinstance(n, ast.Subscript) and _dotted(n.value) == d and not isinstance(n.ctx, ast.Load))
                             or (isinstance(n, ast.Name) and n.id == k and isinstance(n.ctx, ast.Store)) for b in st.body for n in ast.walk(b))
                if not stores and any(is_sub(n) for b in st.body for n in ast.walk(b)):
                    vname = f'_V{st.lineno}'

                    class _S(ast.NodeTransformer):
                        def visit_Subscript(self, node):
                            if is_sub(node):
                                return ast.copy_location(ast.Name(id=vname, ctx=ast.Load()), node)
                            return self.generic_visit(node)
                    body = [_S().visit(b) for b in st.body]
                    tgt2: ast.expr = ast.Name(id=vname, ctx=ast.Store())
                    # `a, b = v` / `x = v` as the first use: bind it in the loop target
                    holder = body
                    while len(holder) == 1 and isinstance(holder[0], ast.If) and not holder[0].orelse and not _loads(holder[0].test, vname):
                        holder = holder[0].body
                    if holder and isinstance(holder[0], ast.Assign) and len(holder[0].targets) == 1 and _name(holder[0].value) == vname \
                            and sum(_loads(b, vname) for b in body) == 1 \
                            and all(isinstance(n, (ast.Name, ast.Tuple, ast.Store)) for n in ast.walk(holder[0].targets[0])) \
                            and all(_loads_outside(fn, n.id, st) == 0 and sum(1 for m in ast.walk(fn) if isinstance(m, ast.Name) and m.id == n.id and isinstance(m.ctx, ast.Store)) == 1
                                    for n in ast.walk(holder[0].targets[0]) if isinstance(n, ast.Name)) and len(holder) > 1:
                        tgt2 = holder[0].targets[0]
                        del holder[0]
                    new_it = ast.Call(func=ast.Attribute(value=it, attr='items', ctx=ast.Load()), args=[], keywords=[])
                    st = ast.copy_location(ast.For(target=ast.Tuple(elts=[ast.Name(id=k, ctx=ast.Store()), tgt2], ctx=ast.Store()),
                                                   iter=new_it, body=body, orelse=st.orelse), st)
                    blk[i] = st
        # recurse
        if not isinstance(st, (ast.FunctionDef, ast.AsyncFunctionDef, ast.ClassDef)):
            loop = isinstance(st, (ast.For, ast.While))
            for fld in ('body', 'orelse', 'finalbody'):
                sub = getattr(st, fld, None)
                if isinstance(sub, list) and sub and isinstance(sub[0], ast.stmt):
                    setattr(st, fld, _canon_block(fn, sub, loop and fld == 'body'))
            if isinstance(st, ast.Try):
                for h in st.handlers:
                    h.body = _canon_block(fn, h.body, False)
        out.append(st)
        i += 1
    return out


def _ssa(fn) -> None:
    """(11) A local that is only ever assigned by plain statements of one block, never read before the first of them in
    that block nor outside the block, gets a fresh name per assignment (`v = A; v = f(v)` -> `v = A; v_1 = f(v)`)."""
    params = {a.arg for a in fn.args.args + fn.args.kwonlyargs + fn.args.posonlyargs} | {a.arg for a in (fn.args.vararg, fn.args.kwarg) if a}
    stores: dict[str, int] = {}
    for n in ast.walk(fn):
        if isinstance(n, ast.Name) and isinstance(n.ctx, (ast.Store, ast.Del)):
            stores[n.id] = stores.get(n.id, 0) + 1
    for holder in ast.walk(fn):
        for fld in ('body', 'orelse', 'finalbody'):
            blk = getattr(holder, fld, None)
            if not isinstance(blk, list) or not blk or not isinstance(blk[0], ast.stmt):
                continue
            tops: dict[str, list[int]] = {}
            for i, st in enumerate(blk):
                if isinstance(st, ast.Assign) and len(st.targets) == 1 and isinstance(st.targets[0], ast.Name):
                    tops.setdefault(st.targets[0].id, []).append(i)
            for v, idxs in tops.items():
                if len(idxs) < 2 or stores.get(v, 0) != len(idxs) or v in params:
                    continue
                inside = sum(_loads(st, v) for st in blk)
                if inside != _loads(fn, v) or any(_loads(st, v) for st in blk[:idxs[0]]) or _loads(blk[idxs[0]].value, v):
                    continue
                if any(v in _bound_in_comps(st) for st in blk):
                    continue
                ver = 0
                for i, st in enumerate(blk):
                    cur = v if ver == 0 else f'{v}_{ver}'
                    if i in idxs:
                        for n in ast.walk(st.value):
                            if isinstance(n, ast.Name) and n.id == v:
                                n.id = cur
                        if i != idxs[0]:
                            ver += 1
                        st.targets[0].id = v if ver == 0 else f'{v}_{ver}'
                    else:
                        for n in ast.walk(st):
                            if isinstance(n, ast.Name) and n.id == v:
                                n.id = cur
                stores[v] = 1


class _KwToPos(ast.NodeTransformer):
    """(10) f(a, q=b) -> f(a, b) for functions / classes defined in this module (by their own signature)."""

    def __init__(self, tree):
        self.sig = {}
        for n in tree.body:
            fn = None
            if isinstance(n, ast.FunctionDef):
                fn, skip = n, 0
            elif isinstance(n, ast.ClassDef):
                fn = next((m for m in n.body if isinstance(m, ast.FunctionDef) and m.name == '__init__'), None)
                skip = 1
            if fn is not None and not fn.args.vararg and not fn.args.posonlyargs and not fn.decorator_list:
                self.sig[n.name] = [a.arg for a in fn.args.args][skip:]

    def visit_Call(self, node):
        self.generic_visit(node)
        ps = self.sig.get(_name(node.func) or '')
        if ps and node.keywords and all(k.arg is not None for k in node.keywords) and not any(isinstance(a, ast.Starred) for a in node.args):
            args = list(node.args)
            kws = {k.arg: k.value for k in node.keywords}
            while len(args) < len(ps) and ps[len(args)] in kws:
                args.append(kws.pop(ps[len(args)]))
            if not kws:      # keyword arguments are evaluated in the order written: only reorder pure ones
                if all(_pure(k.value) for k in node.keywords):
                    node.args, node.keywords = args, []
        return node


def canonical_module(tree: ast.Module) -> ast.Module:
    tree = _CountToLen().visit(_KwToPos(tree).visit(tree))
    for fn in [n for n in ast.walk(tree) if isinstance(n, ast.FunctionDef)]:
        _ssa(fn)
    consts = _module_consts(tree)
    for fn in [n for n in ast.walk(tree) if isinstance(n, ast.FunctionDef)]:
        if consts:
            bound = _fn_bound(fn)
            mp = {k: v for k, v in consts.items() if k not in bound}
            if mp:
                sub = _Subst(mp)
                fn.body = [sub.visit(st) for st in fn.body]
                fn.args.defaults = [sub.visit(d) for d in fn.args.defaults]
        fn.body = _canon_block(fn, fn.body, False)
    ast.fix_missing_locations(tree)
    return tree


def _params(fn: ast.FunctionDef) -> list:
    return [a.arg for a in fn.args.args if a.arg not in ('self', 'cls')]


def _paths(stmts, conds=(), env=None, raw=None):
    """Symbolic paths of a straight-line / if / try body: [(conditions, returned expression)], where locals assigned on
    the way are substituted into the returned expression.  `if c: return A` + fall-through is an if/else; a `try` whose
    handlers only re-raise is its body; a path that ends in `raise` is dropped.  None for any other statement."""
    import copy
    env = dict(env or {})
    raw = dict(raw or {})
    out = []
    stmts = list(stmts)
    for i, st in enumerate(stmts):
        if _is_doc(st) or isinstance(st, ast.Pass):
            continue
        if isinstance(st, ast.Return):
            v = None if st.value is None else _Subst(env).visit(copy.deepcopy(st.value))
            # a call whose result is thrown away is not part of any recognised shape
            used = set() if st.value is None else {n.id for n in ast.walk(st.value) if isinstance(n, ast.Name)}
            for c, _ in conds:
                used |= {n.id for n in ast.walk(c) if isinstance(n, ast.Name)}
            if any(impure and k not in used for k, impure in raw.items()):
                return None
            out.append((conds, v))
            return out
        if isinstance(st, ast.Raise):
            return out
        if isinstance(st, (ast.Assign, ast.AnnAssign)):
            tgt = st.targets[0] if isinstance(st, ast.Assign) and len(st.targets) == 1 else getattr(st, 'target', None)
            if isinstance(tgt, ast.Name) and st.value is not None:
                # `raw`: per local, does its value involve a call that is not known to be pure?  A local consumed by
                # another local hands that on to the consumer.
                impure = not _pure(st.value)
                for n in ast.walk(st.value):
                    if isinstance(n, ast.Name) and n.id in raw:
                        impure = impure or raw[n.id]
                        if n.id != tgt.id:
                            raw[n.id] = False
                if raw.get(tgt.id):
                    return None                  # an unused impure value is overwritten
                env[tgt.id] = _Subst(env).visit(copy.deepcopy(st.value))
                raw[tgt.id] = impure
                continue
            return None
        if isinstance(st, ast.If):
            test = _Subst(env).visit(copy.deepcopy(st.test))
            rest = stmts[i + 1:]
            yes, no = True, False
            while isinstance(test, ast.UnaryOp) and isinstance(test.op, ast.Not):     # `if not c: A else: B` = `if c: B else: A`
                test, yes, no = test.operand, no, yes
            a = _paths(list(st.body) + rest, conds + ((test, yes),), env, raw)
            b = _paths(list(st.orelse) + rest, conds + ((test, no),), env, raw)
            if a is None or b is None:
                return None
            return out + a + b
        if isinstance(st, ast.Try):
            if st.finalbody or not all(h.body and isinstance(h.body[-1], ast.Raise) for h in st.handlers):
                return None
            r = _paths(list(st.body) + list(st.orelse) + stmts[i + 1:], conds, env, raw)
            return None if r is None else out + r
        return None
    out.append((conds, None))
    return out


def _else_after_return(stmts):
    """`if c: A; return` followed by B  ->  `if c: A else: B` (for bodies made of plain statements, e.g. add_sys)."""
    stmts = [st for st in stmts if not _is_doc(st)]
    for i, st in enumerate(stmts):
        if isinstance(st, ast.If) and not st.orelse and st.body and isinstance(st.body[-1], ast.Return) and st.body[-1].value is None \
                and stmts[i + 1:]:
            new = ast.If(test=st.test, body=st.body[:-1], orelse=_else_after_return(stmts[i + 1:]))
            return stmts[:i] + [ast.copy_location(new, st)]
    while stmts and isinstance(stmts[-1], ast.Return) and stmts[-1].value is None:
        stmts = stmts[:-1]
    return stmts


def _flat(stmts):
    """All statements in order, descending into if/try/with/for bodies (both branches)."""
    for st in stmts:
        yield st
        for fld in ('body', 'orelse', 'finalbody'):
            sub = getattr(st, fld, None)
            if isinstance(sub, list) and not isinstance(st, (ast.FunctionDef, ast.ClassDef)):
                yield from _flat(sub)
        if isinstance(st, ast.Try):
            for h in st.handlers:
                yield from _flat(h.body)


def _key_uses(tr: Tr, fn: ast.FunctionDef, dict_attr: str, param: str):
    """Ops applied to `param` wherever it is used as a key of self.<dict_attr> in fn (subscript or `in`), also inside
    methods of the same class / module-level functions that fn hands the (possibly normalised) name to."""
    found = []
    _key_uses_into(tr, fn, dict_attr, {param: (param, [])}, found, 0)
    if not found:
        tr.err(fn, f'{fn.name}: no use of self.{dict_attr} as a lookup')
    for base, ops in found:
        if base != param:
            tr.err(fn, f'{fn.name}: dictionary key derived from {base}, not from {param}')
    first = found[0][1]
    for _, ops in found[1:]:
        if ops != first:
            tr.err(fn, f'{fn.name}: different key normalisations in one function: {first} vs {ops}')
    return first


def _key_uses_into(tr: Tr, fn: ast.FunctionDef, dict_attr: str, env: dict, found: list, depth: int) -> None:
    for st in _flat(fn.body):
        consumed = False
        if isinstance(st, (ast.Assign, ast.AnnAssign)):
            # look for key uses inside the value first (with the environment before the assignment)
            for node in ast.walk(st.value) if st.value is not None else ():
                _collect(tr, node, dict_attr, env, found, depth, fn)
            consumed = tr._stmt(st, env)
        if not consumed:
            # only the statement's own expressions, bodies are visited by _flat
            for fld, val in ast.iter_fields(st):
                if fld in ('body', 'orelse', 'finalbody', 'handlers'):
                    continue
                vals = val if isinstance(val, list) else [val]
                for v in vals:
                    if isinstance(v, ast.AST):
                        for node in ast.walk(v):
                            _collect(tr, node, dict_attr, env, found, depth, fn)


def _collect(tr, node, dict_attr, env, found, depth=0, owner=None):
    if isinstance(node, ast.Subscript) and _dotted(node.value) == f'self.{dict_attr}':
        found.append(tr.expr(node.slice, env))
    if isinstance(node, ast.Compare) and len(node.ops) == 1 and isinstance(node.ops[0], (ast.In, ast.NotIn)) \
            and _dotted(node.comparators[0]) == f'self.{dict_attr}':
        found.append(tr.expr(node.left, env))
    if isinstance(node, ast.Call) and isinstance(node.func, ast.Attribute) and node.func.attr in ('get', '__getitem__', '__contains__') \
            and _dotted(node.func.value) == f'self.{dict_attr}' and node.args and not node.keywords:
        found.append(tr.expr(node.args[0], env))         # self.<dict>.get(key[, default])
    # a helper that is handed a value derived from the name: its own key uses count, with its parameter bound to that value
    if isinstance(node, ast.Call) and depth < 3 and not any(isinstance(a, ast.Starred) for a in node.args) \
            and all(k.arg is not None for k in node.keywords):
        helper = _Inline(tr, tr.cls)._resolve(node.func)
        if helper is not None and helper is not owner and helper.name not in LOOKUP_METHODS:
            ps = [a.arg for a in helper.args.args]
            deco = {_dotted(d) for d in helper.decorator_list}
            if ps and ps[0] in ('self', 'cls') and 'staticmethod' not in deco:
                ps = ps[1:]
            bind = dict(zip(ps, node.args))
            bind.update({k.arg: k.value for k in node.keywords if k.arg in ps})
            env2 = {}
            derived = False
            for k, a in bind.items():
                try:
                    v = tr.expr(a, env)
                except TranslateError:
                    v = None
                if v is not None and any(e is not None and e[0] == v[0] for e in env.values()):
                    env2[k] = v          # derived from the name the caller was given
                    derived = True
                else:
                    env2[k] = None
            if derived:
                _key_uses_into(tr, helper, dict_attr, env2, found, depth + 1)


def _store_ops(tr: Tr, cls: ast.ClassDef, dict_attr: str):
    init = tr.method(cls, '__init__')
    for st in _flat(init.body):
        tgt = None
        if isinstance(st, ast.Assign) and len(st.targets) == 1:
            tgt, val = st.targets[0], st.value
        elif isinstance(st, ast.AnnAssign):
            tgt, val = st.target, st.value
        if tgt is not None and _dotted(tgt) == f'self.{dict_attr}':
            if not isinstance(val, ast.DictComp) or len(val.generators) != 1:
                tr.err(st, f'self.{dict_attr} is not built by one dict comprehension')
            g = val.generators[0]
            # every stored file takes part: the source is enumerated as it is, the only filter drops directory entries
            for n in ast.walk(g.iter):
                if isinstance(n, (ast.Subscript, ast.BinOp, ast.Compare, ast.Lambda, ast.IfExp, ast.BoolOp, ast.comprehension)) \
                        or (isinstance(n, ast.Call) and (n.keywords or (n.args and _dotted(n.func) not in ('dict', 'list', 'tuple', 'iter')))):
                    tr.err(st, f'self.{dict_attr}: the files are not enumerated as they are stored ({ast.unparse(g.iter)[:60]})')
            for c in g.ifs:
                t = c.operand if isinstance(c, ast.UnaryOp) and isinstance(c.op, ast.Not) else None
                if not (isinstance(t, ast.Call) and isinstance(t.func, ast.Attribute) and t.func.attr == 'endswith' and len(t.args) == 1
                        and _is_const(t.args[0], '/') and (_dotted(t.func.value) or '').split('.')[-1] == 'filename'):
                    tr.err(st, f'self.{dict_attr}: unrecognised filter {ast.unparse(c)[:60]} on the stored files')
            base, ops = tr.expr(val.key, {})
            # the stored name: Virtual `filename`, Zip `info.filename`, VPK `file.filename`
            if base.split('.')[-1] != 'filename':
                tr.err(st, f'dictionary key derived from {base}, expected the stored filename')
            return ops, base
    tr.err(init, f'no assignment to self.{dict_attr}')


def _comp_as_loop(st):
    """`return iter([E for T in I if C])`, `return (E for ...)`, `yield from (E for ...)` / `[E for ...]` as the loop
    `for T in I: if C: yield E` (the table is never changed after the constructor: listing it eagerly or lazily is the same)."""
    e = None
    if isinstance(st, ast.Return) and st.value is not None:
        e = st.value
    elif isinstance(st, ast.Expr) and isinstance(st.value, ast.YieldFrom):
        e = st.value.value
    if e is None:
        return None
    if isinstance(e, ast.Call) and _name(e.func) == 'iter' and len(e.args) == 1 and not e.keywords:
        e = e.args[0]
    if isinstance(e, (ast.ListComp, ast.GeneratorExp)) and len(e.generators) == 1 and not e.generators[0].is_async \
            and len(e.generators[0].ifs) == 1:
        g = e.generators[0]
        loop = ast.For(target=g.target, iter=g.iter, orelse=[],
                       body=[ast.If(test=g.ifs[0], orelse=[], body=[ast.Expr(value=ast.Yield(value=e.elt))])])
        return ast.fix_missing_locations(ast.copy_location(loop, st))
    return None


def _walk(tr: Tr, cls: ast.ClassDef, dict_attr: str):
    fn = tr.method(cls, 'walk_folder')
    env = {'folder': ('folder', [])}
    loop = None
    stmts = list(fn.body)
    if stmts and _comp_as_loop(stmts[-1]) is not None:
        stmts[-1] = _comp_as_loop(stmts[-1])
    for st in stmts:
        if isinstance(st, ast.Expr) and isinstance(st.value, ast.Constant):
            continue
        if tr._stmt(st, env):
            continue
        if isinstance(st, ast.For) and loop is None:
            loop = st
            continue
        tr.err(st, f'{cls.name}.walk_folder: unrecognised statement')
    if loop is None:
        tr.err(fn, f'{cls.name}.walk_folder: no loop')
    it = loop.iter
    src = 'WDict'
    container = CONTAINERS.get(cls.name)

    def obj(node):
        # a local that was bound (once, before the loop) to an attribute of self names the same object
        if isinstance(node, ast.Name) and env.get(node.id) is not None and not env[node.id][1] and env[node.id][0].startswith('self.'):
            return env[node.id][0]
        return _dotted(node)
    if (isinstance(it, ast.Call) and isinstance(it.func, ast.Attribute) and it.func.attr in ('items', 'values')
            and obj(it.func.value) == f'self.{dict_attr}' and not it.args and not it.keywords):
        mode = it.func.attr
    elif container is not None and obj(it) == f'self.{container}':
        # `for file in self.vpk`: every file of the container, case-duplicates included
        src, mode = 'WCont None', 'values'
    elif (container is not None and isinstance(it, ast.Call) and _dotted(it.func) == f'self.{container}.fileinfos'
          and not it.args):
        # `for file in self.vpk.fileinfos(folder=<expr>)`: the container's own (exact-case) directory pre-filter
        pre = None
        for kw in it.keywords:
            if kw.arg == 'folder':
                pbase, pops = tr.expr(kw.value, env)
                if pbase != 'folder':
                    tr.err(it, 'fileinfos(folder=...) argument is not derived from the folder parameter')
                pre = pops
            elif kw.arg == 'ext' and _is_const(kw.value, None):
                pass
            else:
                tr.err(it, f'unrecognised argument {kw.arg} of fileinfos()')
        if pre is None:
            src = 'WCont None'
        else:
            _check_fileinfos_prefilter(tr)
            src = f'WCont (Some {_coq_ops(pre)})'
        mode = 'values'
    else:
        tr.err(loop, f'{cls.name}.walk_folder iterates {ast.unparse(it)[:60]}: neither self.{dict_attr}.items()/.values() '
                     f'nor a recognised container iteration')
    # classify loop variables
    kinds: dict[str, str] = {}     # dotted expression -> subject
    def value_target(t):
        if isinstance(t, ast.Name):            # ZipInfo / VPK FileInfo
            kinds[f'{t.id}.filename'] = 'SOrig'
            if cls.name == 'VPKFileSystem':
                kinds[f'{t.id}.dir'] = 'SDir'
        elif isinstance(t, ast.Tuple) and len(t.elts) == 2 and all(isinstance(x, ast.Name) for x in t.elts):
            kinds[t.elts[0].id] = 'SOrig'      # Virtual: (filename, data)
        else:
            tr.err(loop, 'unrecognised loop target')
    if mode == 'items':
        t = loop.target
        if not (isinstance(t, ast.Tuple) and len(t.elts) == 2 and isinstance(t.elts[0], ast.Name)):
            tr.err(loop, 'unrecognised items() loop target')
        kinds[t.elts[0].id] = 'SKey'
        value_target(t.elts[1])
    else:
        value_target(loop.target)
    if len(loop.body) != 1 or not isinstance(loop.body[0], ast.If) or loop.body[0].orelse:
        tr.err(loop, f'{cls.name}.walk_folder: loop body is not a single `if`')
    test = loop.body[0].test
    if not (isinstance(test, ast.Call) and isinstance(test.func, ast.Attribute) and test.func.attr == 'startswith'
            and len(test.args) == 1 and not test.keywords):
        tr.err(test, f'{cls.name}.walk_folder: folder test is not X.startswith(folder)')
    fbase, fops = tr.expr(test.args[0], env)
    if fbase != 'folder':
        tr.err(test, 'folder test argument is not derived from the folder parameter')
    sbase, sops = tr.expr(test.func.value, {})
    if sbase not in kinds:
        tr.err(test, f'folder test subject {sbase} is not a loop variable')
    body = loop.body[0].body
    if not (len(body) == 1 and isinstance(body[0], ast.Expr) and isinstance(body[0].value, ast.Yield)
            and isinstance(body[0].value.value, ast.Call) and _name(body[0].value.value.func) == 'File'
            and len(body[0].value.value.args) == 3):
        tr.err(loop, f'{cls.name}.walk_folder: does not yield File(self, path, data)')
    pbase, pops = tr.expr(body[0].value.value.args[1], {})
    if kinds.get(pbase) != 'SOrig' or pops:
        tr.err(loop, f'{cls.name}.walk_folder yields path {pbase}, expected the stored filename')
    return fops, kinds[sbase], sops, loop.lineno, src


def _check_fileinfos_prefilter(tr: Tr) -> None:
    """vpk.py VPK.fileinfos: the `folder` argument must be the test `subfolder.startswith(folder)` on the directory
    names as stored (the model's WCont (Some ...) means exactly that).  Anything else fails closed."""
    tree = ast.parse(src_text('vpk.py'))
    fn = None
    for n in tree.body:
        if isinstance(n, ast.ClassDef) and n.name == 'VPK':
            for m in n.body:
                if isinstance(m, ast.FunctionDef) and m.name == 'fileinfos':
                    fn = m
    if fn is None:
        tr.err(tree, 'vpk.py: VPK.fileinfos not found')
    body = [st for st in fn.body if not (isinstance(st, ast.Expr) and isinstance(st.value, ast.Constant))]
    ok = (len(body) == 1 and isinstance(body[0], ast.For)
          and ast.unparse(body[0].iter) == 'self._iter_folders(ext)' and len(body[0].body) == 1
          and isinstance(body[0].body[0], ast.For)
          and ast.unparse(body[0].body[0].target) == '(subfolder, files)'
          and ast.unparse(body[0].body[0].iter) == f'{ast.unparse(body[0].target)}.items()')
    if ok:
        inner = body[0].body[0].body
        ok = (len(inner) == 2 and isinstance(inner[0], ast.If) and not inner[0].orelse
              and ast.unparse(inner[0].test) == 'not subfolder.startswith(folder)'
              and len(inner[0].body) == 1 and isinstance(inner[0].body[0], ast.Continue)
              and ast.unparse(inner[1]) == 'yield from files.values()')
    if not ok:
        tr.err(fn, 'vpk.py: VPK.fileinfos is not `for folders in ...: for subfolder, files in folders.items(): '
                   'if not subfolder.startswith(folder): continue; yield from files.values()`')


def _coq_ops(ops) -> str:
    return '[' + '; '.join(ops) + ']'


LOOKUP_METHODS = ('__getitem__', '__contains__', '__iter__', '_get_file', '_file_exists', 'open_bin', 'open_str',
                  'walk_folder', 'walk_folder_repeat')


def _methods(cls: ast.ClassDef) -> dict:
    return {n.name: n for n in cls.body if isinstance(n, ast.FunctionDef)}


def _join_of(tr: Tr, e, pfx: str):
    """os.path.join(<pfx>, <Name X>) followed by .replace('\\', '/') / .casefold() -> (X, ops); None if e is not that."""
    ops: list[str] = []
    cur = e
    chain = []
    while isinstance(cur, ast.Call) and isinstance(cur.func, ast.Attribute) and _dotted(cur.func) not in ('os.path.join', 'posixpath.join'):
        chain.append(cur)
        cur = cur.func.value
    if not (isinstance(cur, ast.Call) and _dotted(cur.func) in ('os.path.join', 'posixpath.join') and len(cur.args) == 2
            and not cur.keywords and _name(cur.args[0]) == pfx and isinstance(cur.args[1], ast.Name)):
        return None
    for c in reversed(chain):
        f = c.func
        if f.attr == 'replace' and len(c.args) == 2 and not c.keywords and _is_const(c.args[0], '\\') and _is_const(c.args[1], '/'):
            ops.append('OSlash')
        elif f.attr == 'casefold' and not c.args and not c.keywords:
            ops.append('OFold')
        else:
            tr.err(c, 'unrecognised operation after os.path.join')
    return cur.args[1].id, ops


def _systems_loop(tr: Tr, fn, stmts):
    """The single `for S, P in self.systems` of a method -> (loop, S, P, forward)."""
    loops = [s for s in stmts if isinstance(s, ast.For)]
    if len(loops) != 1:
        tr.err(fn, f'{fn.name}: expected one loop over self.systems')
    lp = loops[0]
    t = lp.target
    if not (isinstance(t, ast.Tuple) and len(t.elts) == 2 and all(isinstance(x, ast.Name) for x in t.elts)) or lp.orelse:
        tr.err(lp, f'{fn.name}: loop target is not a (system, prefix) pair')
    if _dotted(lp.iter) == 'self.systems':
        fwd = True
    elif isinstance(lp.iter, ast.Call) and _name(lp.iter.func) == 'reversed' and len(lp.iter.args) == 1 \
            and _dotted(lp.iter.args[0]) == 'self.systems':
        fwd = False
    else:
        tr.err(lp, f'{fn.name}: does not iterate self.systems')
    return lp, t.elts[0].id, t.elts[1].id, fwd


def _is_fnf(h: ast.ExceptHandler) -> bool:
    return _name(h.type) == 'FileNotFoundError'


def _base_and_dunders(tr: Tr, side: dict) -> None:
    """FileSystem.__getitem__/__contains__/__iter__/_file_exists and File.open_bin/open_str must be the plain delegations
    the model assumes; no filesystem class may override the three dunder methods with anything else."""
    base = tr.classes.get('FileSystem')
    if base is None:
        tr.err(tr.tree, 'FileSystem not found')

    def delegation(cls, mname, target, args_ok):
        fn = normalise(tr, cls, tr.method(cls, mname))
        b = _body(fn)
        ps = _params(fn)
        ok = False
        pth = _paths(b)
        if pth is not None and len(pth) == 1 and not pth[0][0] and pth[0][1] is not None:
            b = [ast.Return(value=pth[0][1])]       # straight-line locals folded into the returned expression
        if len(b) == 1 and isinstance(b[0], (ast.Return, ast.Expr)):
            v = b[0].value
            if isinstance(v, ast.YieldFrom):
                v = v.value
            if isinstance(v, ast.Call) and _name(v.func) == 'iter' and len(v.args) == 1:
                v = v.args[0]
            if isinstance(v, ast.Call) and _dotted(v.func) == target and not v.keywords and args_ok(v.args, ps):
                ok = True
        if not ok:
            tr.err(fn, f'{cls.name}.{mname} is not a plain delegation to {target}')

    one = lambda a, ps: len(a) == 1 and len(ps) == 1 and _name(a[0]) == ps[0]
    for cls in [base] + [tr.classes[c] for c in list(DICTS) + ['RawFileSystem', 'FileSystemChain'] if c in tr.classes]:
        ms = _methods(cls)
        if '__getitem__' in ms:
            delegation(cls, '__getitem__', 'self._get_file', one)
        if '__contains__' in ms:
            delegation(cls, '__contains__', 'self._file_exists', one)
        if '__iter__' in ms:
            delegation(cls, '__iter__', 'self.walk_folder', lambda a, ps: len(a) == 1 and _is_const(a[0], '') and not ps)
    for m in ('__getitem__', '__contains__', '__iter__', '_file_exists'):
        if m not in _methods(base):
            tr.err(base, f'FileSystem.{m} not found')
    if _exists_via_get(tr, base, tr.method(base, '_file_exists')) is None:
        tr.err(base, 'FileSystem._file_exists is not `try: self._get_file(name); return True except FileNotFoundError: return False`')
    fcls = tr.classes.get('File')
    if fcls is None:
        tr.err(tr.tree, 'File not found')
    delegation(fcls, 'open_bin', 'self.sys.open_bin', lambda a, ps: len(a) == 1 and _name(a[0]) == 'self' and not ps)
    delegation(fcls, 'open_str', 'self.sys.open_str',
               lambda a, ps: len(a) == 2 and _name(a[0]) == 'self' and len(ps) == 1 and _name(a[1]) == ps[0])
    side['delegations'] = 'FileSystem.__getitem__/__contains__/__iter__ -> _get_file/_file_exists/walk_folder(\'\'); File.open_* -> sys.open_*(self)'


def _exists_via_get(tr: Tr, cls, fn0):
    """`try: self._get_file(name) [; return True] except FileNotFoundError: return False [else: return True]` -> True."""
    fn = normalise(tr, cls, fn0)
    b = _body(fn)
    ps = _params(fn)
    if len(ps) != 1:
        return None
    call = f'self._get_file({ps[0]})'
    if len(b) in (1, 2) and isinstance(b[0], ast.Try) and len(b[0].handlers) == 1 and _is_fnf(b[0].handlers[0]) \
            and not b[0].finalbody and ast.unparse(b[0].handlers[0].body[0]) == 'return False' and len(b[0].handlers[0].body) == 1:
        t = b[0]
        seq = [ast.unparse(x) for x in t.body] + [ast.unparse(x) for x in t.orelse] + [ast.unparse(x) for x in b[1:]]
        if seq == [call, 'return True']:
            return True
    if len(b) == 1 and ast.unparse(b[0]) in (f'return self._get_file({ps[0]}) is not None',):
        return None
    return None


def _chain_exists(tr: Tr, cls, side: dict) -> str:
    """FileSystemChain._file_exists: inherited / try-_get_file -> ExViaGet; a loop over the members that asks each
    member's own _file_exists for a joined name -> ExLoop carry cond ops.  Anything else fails closed."""
    ms = _methods(cls)
    if '_file_exists' not in ms:
        side['chain_exists'] = {'mode': 'ExViaGet', 'shape': 'inherited FileSystem._file_exists (try self._get_file)'}
        return 'ExViaGet'
    if _exists_via_get(tr, cls, ms['_file_exists']):
        side['chain_exists'] = {'mode': 'ExViaGet', 'shape': 'own try self._get_file'}
        return 'ExViaGet'
    fn = normalise(tr, cls, ms['_file_exists'])
    ps = _params(fn)
    if len(ps) != 1:
        tr.err(fn, 'FileSystemChain._file_exists: expected one parameter')
    A = ps[0]
    b = _body(fn)
    # return any(S._file_exists(join(P, A)...) for S, P in self.systems)
    if len(b) == 1 and isinstance(b[0], ast.Return) and isinstance(b[0].value, ast.Call) and _name(b[0].value.func) == 'any' \
            and len(b[0].value.args) == 1 and isinstance(b[0].value.args[0], ast.GeneratorExp):
        g = b[0].value.args[0]
        if len(g.generators) == 1 and not g.generators[0].ifs and _dotted(g.generators[0].iter) == 'self.systems' \
                and isinstance(g.generators[0].target, ast.Tuple) and len(g.generators[0].target.elts) == 2:
            S, P = (_name(x) for x in g.generators[0].target.elts)
            e = g.elt
            if isinstance(e, ast.Call) and _dotted(e.func) == f'{S}._file_exists' and len(e.args) == 1 and not e.keywords:
                j = _join_of(tr, e.args[0], P)
                if j is not None and j[0] == A:
                    side['chain_exists'] = {'mode': f'ExLoop false false {_coq_ops(j[1])}', 'shape': 'any(member._file_exists(join(prefix, name)))'}
                    return f'(ExLoop false false {_coq_ops(j[1])})'
        tr.err(fn, 'FileSystemChain._file_exists: unrecognised any(...)')
    lp, S, P, fwd = _systems_loop(tr, fn, b)
    if not fwd or b[0] is not lp or len(b) != 2 or ast.unparse(b[1]) != 'return False':
        tr.err(fn, 'FileSystemChain._file_exists: not `for member in self.systems: ...; return False`')
    body = list(lp.body)
    if not body:
        tr.err(lp, 'empty loop')
    last = body[-1]
    if not (isinstance(last, ast.If) and not last.orelse and len(last.body) == 1 and ast.unparse(last.body[0]) == 'return True'
            and isinstance(last.test, ast.Call) and _dotted(last.test.func) == f'{S}._file_exists' and len(last.test.args) == 1
            and not last.test.keywords):
        tr.err(lp, 'FileSystemChain._file_exists: loop does not end with `if member._file_exists(n): return True`')
    asked = last.test.args[0]
    pre = body[:-1]
    carry = cond = False
    if not pre:
        j = _join_of(tr, asked, P)
        if j is None:
            tr.err(asked, 'FileSystemChain._file_exists: the name asked is not os.path.join(prefix, ...)')
        X, ops = j
        if X != A:
            tr.err(asked, f'FileSystemChain._file_exists: joins {X}, not the parameter {A}')
    elif len(pre) == 1 and isinstance(asked, ast.Name):
        V = asked.id
        st = pre[0]
        asg = None
        if isinstance(st, ast.Assign) and len(st.targets) == 1 and _name(st.targets[0]) == V:
            asg = st
        elif isinstance(st, ast.If) and _name(st.test) == P and len(st.body) == 1 and isinstance(st.body[0], ast.Assign) \
                and len(st.body[0].targets) == 1 and _name(st.body[0].targets[0]) == V:
            asg, cond = st.body[0], True
            if st.orelse:
                # else: V = A   (a fresh variable that is the bare name for an unrestricted member)
                if not (len(st.orelse) == 1 and isinstance(st.orelse[0], ast.Assign) and _name(st.orelse[0].targets[0]) == V
                        and _name(st.orelse[0].value) == A and V != A):
                    tr.err(st, 'FileSystemChain._file_exists: unrecognised else branch')
            elif V != A:
                tr.err(st, f'FileSystemChain._file_exists: {V} keeps the value of an earlier member when the prefix is empty')
        if asg is None:
            tr.err(st, 'FileSystemChain._file_exists: unrecognised statement before the member test')
        j = _join_of(tr, asg.value, P)
        if j is None:
            tr.err(asg, 'FileSystemChain._file_exists: the name asked is not os.path.join(prefix, ...)')
        X, ops = j
        if X == V:
            carry = True           # the joined name is assigned to the variable it was joined from: it accumulates prefixes
            if V != A:
                tr.err(asg, f'FileSystemChain._file_exists: {V} is used before it is assigned')
        elif X != A:
            tr.err(asg, f'FileSystemChain._file_exists: joins {X}, not the parameter {A}')
    else:
        tr.err(lp, 'FileSystemChain._file_exists: unrecognised loop body')
    mode = f'(ExLoop {"true" if carry else "false"} {"true" if cond else "false"} {_coq_ops(ops)})'
    side['chain_exists'] = {'mode': mode, 'shape': 'loop over the members asking member._file_exists('
                            + ('the re-assigned name' if carry else 'join(prefix, name)') + ')', 'line': lp.lineno}
    return mode


def _chain_open(tr: Tr, cls, side: dict) -> None:
    """FileSystemChain.open_bin / open_str: `File -> self._get_data(name).open_X(...)`, `str -> self._get_file(name).open_X(...)`."""
    for mname in ('open_bin', 'open_str'):
        fn = normalise(tr, cls, tr.method(cls, mname))
        ps = _params(fn)
        paths = _paths(_body(fn))
        if not ps or paths is None or len(paths) != 2:
            tr.err(fn, f'FileSystemChain.{mname}: not an isinstance(name, File) dispatch with two returns')
        A = ps[0]
        extra = ps[1:]
        seen = set()
        for conds, e in paths:
            if len(conds) != 1 or ast.unparse(conds[0][0]) != f'isinstance({A}, File)':
                tr.err(fn, f'FileSystemChain.{mname}: unrecognised condition')
            if not (isinstance(e, ast.Call) and isinstance(e.func, ast.Attribute) and e.func.attr == mname
                    and [ast.unparse(a) for a in e.args] + [ast.unparse(k.value) for k in e.keywords] == extra):
                tr.err(fn, f'FileSystemChain.{mname}: does not return <file>.{mname}({", ".join(extra)})')
            src = ast.unparse(e.func.value)
            want = f'self._get_data({A})' if conds[0][1] else None
            if conds[0][1]:
                if src not in (f'self._get_data({A})', f'{A}._data'):
                    tr.err(fn, f'FileSystemChain.{mname}: a File of the chain is not opened through its member File')
            elif src not in (f'self._get_file({A})', f'self[{A}]'):
                tr.err(fn, f'FileSystemChain.{mname}: a name is not opened through self._get_file(name)')
            seen.add(conds[0][1])
        if seen != {True, False}:
            tr.err(fn, f'FileSystemChain.{mname}: missing branch')
    side['chain_open'] = 'open_bin/open_str(name) = self._get_file(name).open_*()'


def _mounted_test(t, pair: str) -> bool:
    """The test says that the pair (sys, prefix) is already among self.systems."""
    if isinstance(t, ast.Compare) and len(t.ops) == 1 and isinstance(t.ops[0], ast.In) \
            and ast.unparse(t.left) == pair and _dotted(t.comparators[0]) == 'self.systems':
        return True
    if isinstance(t, ast.Call) and _dotted(t.func) == 'self.systems.count' and len(t.args) == 1 and not t.keywords \
            and ast.unparse(t.args[0]) == pair:
        return True       # truth value of count(...)
    if isinstance(t, ast.Compare) and len(t.ops) == 1 and isinstance(t.left, ast.Call) and _dotted(t.left.func) == 'self.systems.count' \
            and len(t.left.args) == 1 and ast.unparse(t.left.args[0]) == pair and isinstance(t.comparators[0], ast.Constant):
        c = t.comparators[0].value
        return (isinstance(t.ops[0], (ast.Gt, ast.NotEq)) and c == 0) or (isinstance(t.ops[0], ast.GtE) and c == 1)
    if isinstance(t, ast.Call) and _name(t.func) == 'any' and len(t.args) == 1 and isinstance(t.args[0], (ast.GeneratorExp, ast.ListComp)) \
            and len(t.args[0].generators) == 1 and _dotted(t.args[0].generators[0].iter) == 'self.systems' \
            and not t.args[0].generators[0].ifs and isinstance(t.args[0].elt, ast.Compare) and len(t.args[0].elt.ops) == 1 \
            and isinstance(t.args[0].elt.ops[0], ast.Eq):
        e = t.args[0].elt
        v = ast.unparse(t.args[0].generators[0].target)
        sides = {ast.unparse(e.left), ast.unparse(e.comparators[0])}
        return sides == {v, pair} or sides == {f'({v})', pair}
    return False


def _chain(tr: Tr, side: dict) -> list[str]:
    cls = tr.classes.get('FileSystemChain')
    if cls is None:
        tr.err(tr.tree, 'FileSystemChain not found')
    tr.cls = cls
    out = []
    _base_and_dunders(tr, side)
    # add_sys
    fn = normalise(tr, cls, tr.method(cls, 'add_sys'))
    stmts = _else_after_return(_body(fn))
    if len(stmts) == 1 and isinstance(stmts[0], ast.Expr):
        # one statement with a conditional expression on a flag  ->  the statement once per branch
        ifx = [n for n in ast.walk(stmts[0]) if isinstance(n, ast.IfExp)]
        if len(ifx) == 1 and isinstance(ifx[0].test, ast.Name):
            import copy

            def pick(which):
                class _P(ast.NodeTransformer):
                    def visit_IfExp(self, node):
                        return self.visit(node.body if which else node.orelse)
                return _P().visit(copy.deepcopy(stmts[0]))
            stmts = [ast.copy_location(ast.If(test=ifx[0].test, body=[pick(True)], orelse=[pick(False)]), stmts[0])]
    aps = _params(fn)
    if len(aps) < 2:
        tr.err(fn, 'add_sys: unrecognised signature')
    pair = f'({aps[0]}, {aps[1]})'
    prio = [a.arg for a in fn.args.kwonlyargs] + aps[2:]
    # may the method return before it inserts?  `if <(sys, prefix) is among self.systems>: return` in front of the
    # insertion (the membership test uses FileSystem.__eq__: type and path label) -> AddSkipMounted; any other
    # condition under which nothing is inserted fails closed
    guard = 'AddAlways'
    if len(stmts) == 1 and isinstance(stmts[0], ast.If) and not stmts[0].body and stmts[0].orelse:
        if not _mounted_test(stmts[0].test, pair):
            tr.err(stmts[0], 'add_sys: returns without inserting under an unrecognised condition '
                             f'{ast.unparse(stmts[0].test)[:80]}')
        guard = 'AddSkipMounted'
        stmts = stmts[0].orelse
    elif len(stmts) == 1 and isinstance(stmts[0], ast.If) and not stmts[0].orelse and _mounted_test(_negate(stmts[0].test), pair):
        # `if (sys, prefix) not in self.systems: <insert>`
        guard = 'AddSkipMounted'
        stmts = stmts[0].body
    if len(stmts) == 1 and isinstance(stmts[0], ast.If) and isinstance(stmts[0].test, ast.UnaryOp) \
            and isinstance(stmts[0].test.op, ast.Not) and stmts[0].body and stmts[0].orelse:
        # `if not flag: A else: B`  ->  `if flag: B else: A`
        stmts = [ast.copy_location(ast.If(test=stmts[0].test.operand, body=stmts[0].orelse, orelse=stmts[0].body), stmts[0])]
    ok = (len(stmts) == 1 and isinstance(stmts[0], ast.If) and _name(stmts[0].test) in prio
          and len(stmts[0].body) == 1 and len(stmts[0].orelse) == 1)
    if not ok:
        tr.err(fn, 'add_sys: unrecognised shape')

    def action(st):
        """self.systems.insert(<n>, (sys, prefix)) -> InsertAt n;  self.systems.append((sys, prefix)) -> Append."""
        if not (isinstance(st, ast.Expr) and isinstance(st.value, ast.Call) and not st.value.keywords
                and st.value.args and ast.unparse(st.value.args[-1]) == pair):
            tr.err(st, 'add_sys: branch does not add (sys, prefix) to self.systems')
        fd = _dotted(st.value.func)
        if fd == 'self.systems.append' and len(st.value.args) == 1:
            return 'Append', 'append'
        if fd == 'self.systems.insert' and len(st.value.args) == 2 and ast.unparse(st.value.args[0]) == 'len(self.systems)':
            return 'Append', 'insert(len(self.systems))'
        if fd == 'self.systems.insert' and len(st.value.args) == 2 and isinstance(st.value.args[0], ast.Constant) \
                and isinstance(st.value.args[0].value, int) and st.value.args[0].value >= 0:
            return f'(InsertAt {st.value.args[0].value})', f'insert({st.value.args[0].value})'
        tr.err(st, 'add_sys: branch is neither self.systems.insert(<n>, (sys, prefix)) nor self.systems.append((sys, prefix))')

    pa, pa_s = action(stmts[0].body[0])
    na, na_s = action(stmts[0].orelse[0])
    out.append(f'Definition chain_prio_action : ins_action := {pa}.')
    out.append(f'Definition chain_plain_action : ins_action := {na}.')
    out.append(f'Definition chain_add_guard : add_guard := {guard}.')
    side['chain_add_sys'] = {'priority': pa_s, 'plain': na_s, 'guard': guard}

    # _get_file
    fn = normalise(tr, cls, tr.method(cls, '_get_file'))
    ps = _params(fn)
    if len(ps) != 1:
        tr.err(fn, '_get_file: expected one parameter')
    A = ps[0]
    stmts = _body(fn)
    lp, S, P, fwd = _systems_loop(tr, fn, stmts)
    b = list(lp.body)
    asked = path = None
    if len(b) == 2 and isinstance(b[0], ast.Try) and isinstance(b[1], ast.Return):
        t = b[0]
        if (len(t.body) == 1 and len(t.handlers) == 1 and not t.orelse and not t.finalbody and _is_fnf(t.handlers[0])
                and len(t.handlers[0].body) == 1 and isinstance(t.handlers[0].body[0], ast.Continue)
                and isinstance(t.body[0], ast.Assign) and len(t.body[0].targets) == 1 and isinstance(t.body[0].targets[0], ast.Name)
                and isinstance(t.body[0].value, ast.Call) and _dotted(t.body[0].value.func) == f'{S}._get_file'
                and len(t.body[0].value.args) == 1 and not t.body[0].value.keywords
                and isinstance(b[1].value, ast.Call) and _name(b[1].value.func) == 'File' and len(b[1].value.args) == 3
                and _name(b[1].value.args[0]) == 'self' and _name(b[1].value.args[2]) == t.body[0].targets[0].id):
            asked, path = t.body[0].value.args[0], b[1].value.args[1]
    elif len(b) == 1 and isinstance(b[0], ast.Try):
        t = b[0]
        if (len(t.body) == 1 and len(t.handlers) == 1 and not t.orelse and not t.finalbody and _is_fnf(t.handlers[0])
                and len(t.handlers[0].body) == 1 and isinstance(t.handlers[0].body[0], (ast.Continue, ast.Pass))
                and isinstance(t.body[0], ast.Return) and isinstance(t.body[0].value, ast.Call) and _name(t.body[0].value.func) == 'File'
                and len(t.body[0].value.args) == 3 and _name(t.body[0].value.args[0]) == 'self'
                and isinstance(t.body[0].value.args[2], ast.Call) and _dotted(t.body[0].value.args[2].func) == f'{S}._get_file'
                and len(t.body[0].value.args[2].args) == 1):
            asked, path = t.body[0].value.args[2].args[0], t.body[0].value.args[1]
    if asked is None:
        tr.err(lp, '_get_file: loop body is not `try: f = member._get_file(join(prefix, name)) except FileNotFoundError: continue; '
                   'return File(self, .., f)`')
    j = _join_of(tr, asked, P)
    if j is None or j[0] != A:
        tr.err(asked, f'_get_file: the member is not asked for os.path.join(prefix, {A})...')
    jops = j[1]
    last = stmts[-1]
    if not (last is not lp and isinstance(last, ast.Raise) and 'FileNotFoundError' in ast.unparse(last)) or stmts[0] is not lp or len(stmts) != 2:
        tr.err(fn, '_get_file: is not one loop followed by raising FileNotFoundError')
    out.append(f'Definition chain_get_forward : bool := {"true" if fwd else "false"}.')
    out.append(f'Definition chain_get_join_ops : list sop := {_coq_ops(jops)}.')
    side['chain_get'] = {'forward': fwd, 'join_ops': jops, 'line': lp.lineno}

    # _file_exists, open_bin, open_str
    out.append(f'Definition chain_exists_mode : exists_mode := {_chain_exists(tr, cls, side)}.')
    _chain_open(tr, cls, side)
    out.append('Definition chain_open_via_get : bool := true.')
    out.append('Definition fs_dunders_delegate : bool := true.')

    # walk_folder (dedup)
    kops, dmode, dshape = _dedup(tr, normalise(tr, cls, tr.method(cls, 'walk_folder')))
    out.append(f'Definition chain_dedup_ops : list sop := {_coq_ops(kops)}.')
    out.append(f'Definition chain_dedup_mode : dedup_mode := {dmode}.')
    side['chain_dedup_ops'] = kops
    side['chain_dedup'] = {'mode': dmode, 'shape': dshape}

    # walk_folder_repeat
    fn = normalise(tr, cls, tr.method(cls, 'walk_folder_repeat'))
    ps = _params(fn)
    if len(ps) != 1:
        tr.err(fn, 'walk_folder_repeat: expected one parameter')
    A = ps[0]
    stmts = _body(fn)
    lp, S, P, fwd = _systems_loop(tr, fn, stmts)
    if len(stmts) != 1:
        tr.err(fn, 'walk_folder_repeat: statements besides the loop over self.systems')
    b = list(lp.body)
    if len(b) != 1 or not isinstance(b[0], ast.For) or b[0].orelse:
        tr.err(lp, 'walk_folder_repeat: unrecognised loop body')
    inner = b[0]
    F = _name(inner.target)
    if not (F and isinstance(inner.iter, ast.Call) and _dotted(inner.iter.func) == f'{S}.walk_folder' and len(inner.iter.args) == 1
            and not inner.iter.keywords
            and len(inner.body) == 1 and isinstance(inner.body[0], ast.Expr) and isinstance(inner.body[0].value, ast.Yield)
            and isinstance(inner.body[0].value.value, ast.Call) and _name(inner.body[0].value.value.func) == 'File'
            and len(inner.body[0].value.value.args) == 3 and _name(inner.body[0].value.value.args[0]) == 'self'
            and _name(inner.body[0].value.value.args[2]) == F):
        tr.err(inner, 'walk_folder_repeat: inner loop is not `for file in member.walk_folder(join(prefix, folder)): yield File(self, <rel>, file)`')
    j = _join_of(tr, inner.iter.args[0], P)
    if j is None or j[0] != A:
        tr.err(inner, f'walk_folder_repeat: the member is not asked for os.path.join(prefix, {A})...')
    jops2 = j[1]
    rel_e = inner.body[0].value.value.args[1]
    rel = ast.unparse(rel_e)
    if rel == f"os.path.relpath({F}.path, {P}).replace('\\\\', '/')":
        mode = 'RelPath'
    elif _is_drop_segs(rel_e, F, P):
        mode = 'RelDropSegs'
    else:
        tr.err(inner, f'walk_folder_repeat: unrecognised relative-path expression {rel[:120]}')
    out.append(f'Definition chain_walk_forward : bool := {"true" if fwd else "false"}.')
    out.append(f'Definition chain_walk_join_ops : list sop := {_coq_ops(jops2)}.')
    out.append(f'Definition chain_relmode : relmode := {mode}.')
    side['chain_walk'] = {'forward': fwd, 'join_ops': jops2, 'relmode': mode, 'line': lp.lineno}
    return out


def _slash_split(e, base: str) -> bool:
    """<base>.replace('\\', '/').split('/')"""
    return (isinstance(e, ast.Call) and isinstance(e.func, ast.Attribute) and e.func.attr == 'split' and len(e.args) == 1
            and not e.keywords and _is_const(e.args[0], '/') and isinstance(e.func.value, ast.Call)
            and isinstance(e.func.value.func, ast.Attribute) and e.func.value.func.attr == 'replace'
            and len(e.func.value.args) == 2 and not e.func.value.keywords and _is_const(e.func.value.args[0], '\\')
            and _is_const(e.func.value.args[1], '/') and _dotted(e.func.value.func.value) == base)


def _pred_is(test, var: str, ref, ref_consts=('', '.')) -> bool:
    """Does the test (built from the truth value of the string `var`, comparisons of `var` with string literals by == != in
    not in, and and/or/not) denote the predicate `ref`?  In that fragment the value depends only on which of the mentioned
    literals `var` equals, so evaluating both on the literals either of them mentions (`ref_consts` for the reference), the
    empty string and one fresh string decides the question."""
    consts: set = {''} | set(ref_consts)       # the literals the reference predicate itself distinguishes

    def ok(t) -> bool:
        if isinstance(t, ast.Name):
            return t.id == var
        if isinstance(t, ast.UnaryOp) and isinstance(t.op, ast.Not):
            return ok(t.operand)
        if isinstance(t, ast.BoolOp):
            return all(ok(v) for v in t.values)
        if isinstance(t, ast.Compare) and len(t.ops) == 1 and _name(t.left) == var:
            c = t.comparators[0]
            if isinstance(t.ops[0], (ast.Eq, ast.NotEq)) and isinstance(c, ast.Constant) and isinstance(c.value, str):
                consts.add(c.value)
                return True
            if isinstance(t.ops[0], (ast.In, ast.NotIn)) and isinstance(c, (ast.Tuple, ast.List, ast.Set)) \
                    and all(isinstance(x, ast.Constant) and isinstance(x.value, str) for x in c.elts):
                consts.update(x.value for x in c.elts)
                return True
        return False

    if not ok(test):
        return False
    fresh = 'x'
    while fresh in consts:
        fresh += 'x'
    code = compile(ast.Expression(body=test), '<pred>', 'eval')
    return all(bool(eval(code, {'__builtins__': {}}, {var: v})) == bool(ref(v)) for v in sorted(consts) + [fresh])


def _is_drop_segs(e, F: str, P: str) -> bool:
    """'/'.join(F.path.replace('\\', '/').split('/')[N:]) with N = len([v for v in P.replace('\\', '/').split('/') if <v is
    neither '' nor '.'>]) - the filter in any spelling (decided by _pred_is)."""
    if not (isinstance(e, ast.Call) and isinstance(e.func, ast.Attribute) and e.func.attr == 'join' and _is_const(e.func.value, '/')
            and len(e.args) == 1 and not e.keywords and isinstance(e.args[0], ast.Subscript) and isinstance(e.args[0].slice, ast.Slice)):
        return False
    sub = e.args[0]
    sl = sub.slice
    if sl.upper is not None or sl.step is not None or sl.lower is None or not _slash_split(sub.value, f'{F}.path'):
        return False
    n = sl.lower
    if not (isinstance(n, ast.Call) and _name(n.func) == 'len' and len(n.args) == 1 and not n.keywords and isinstance(n.args[0], ast.ListComp)):
        return False
    lc = n.args[0]
    if len(lc.generators) != 1 or lc.generators[0].is_async or not isinstance(lc.generators[0].target, ast.Name):
        return False
    g = lc.generators[0]
    v = g.target.id
    if not _slash_split(g.iter, P) or not g.ifs:
        return False
    test = g.ifs[0] if len(g.ifs) == 1 else ast.BoolOp(op=ast.And(), values=list(g.ifs))
    import copy
    return _pred_is(ast.fix_missing_locations(copy.deepcopy(test)), v, lambda s: s not in ('', '.'))


def _dedup(tr: Tr, fn: ast.FunctionDef):
    """Shape of FileSystemChain.walk_folder: (ops of the de-duplication key, DedupSkip | DedupOverwrite, description).

    Recognised, over `for file in self.walk_folder_repeat(folder)`:
      visited set:   [k = K]; if K in done: continue; done.add(K); yield file          -> DedupSkip
                     [k = K]; if K not in done: done.add(K); yield file                -> DedupSkip
      dict, then `return iter(d.values())` / `return d.values()` / `yield from d.values()`:
                     d.setdefault(K, file)   |   if K not in d: d[K] = file            -> DedupSkip
                     d[K] = file  (later members overwrite the File of a name)         -> DedupOverwrite
    where K is a normalisation of file.path.  Anything else fails closed."""
    stmts = [s for s in fn.body if not (isinstance(s, ast.Expr) and isinstance(s.value, ast.Constant))]
    ps = _params(fn)
    # d = {K: file for file in self.walk_folder_repeat(folder)}; return iter(d.values())  -  the same as d[K] = file in a loop
    if len(ps) == 1 and len(stmts) == 2 and isinstance(stmts[0], (ast.Assign, ast.AnnAssign)) and isinstance(stmts[0].value, ast.DictComp):
        dc = stmts[0].value
        coll = _name(stmts[0].target if isinstance(stmts[0], ast.AnnAssign) else stmts[0].targets[0])
        g = dc.generators[0]
        if (coll is not None and len(dc.generators) == 1 and not g.ifs and isinstance(g.target, ast.Name) and _name(dc.value) == g.target.id
                and ast.unparse(g.iter) in (f'self.walk_folder_repeat({ps[0]})', f'self.walk_folder_repeat(folder={ps[0]})')
                and ast.unparse(stmts[1]) in (f'return iter({coll}.values())', f'return {coll}.values()', f'yield from {coll}.values()')):
            kb, ko = tr.expr(dc.key, {})
            if kb != f'{g.target.id}.path':
                tr.err(stmts[0], f'walk_folder: de-duplication key derived from {kb}, not from {g.target.id}.path')
            return ko, 'DedupOverwrite', '{key: file for file in ...} (a later member overwrites the File kept for a name)'
        tr.err(fn, 'FileSystemChain.walk_folder: unrecognised dict comprehension')
    if not (len(ps) == 1 and len(stmts) in (2, 3) and isinstance(stmts[0], (ast.Assign, ast.AnnAssign)) and isinstance(stmts[1], ast.For)
            and ast.unparse(stmts[1].iter) in (f'self.walk_folder_repeat({ps[0]})', f'self.walk_folder_repeat(folder={ps[0]})')
            and isinstance(stmts[1].target, ast.Name) and not stmts[1].orelse):
        tr.err(fn, 'FileSystemChain.walk_folder: unrecognised shape')
    FV = stmts[1].target.id
    coll = _name(stmts[0].target if isinstance(stmts[0], ast.AnnAssign) else stmts[0].targets[0])
    init = ast.unparse(stmts[0].value) if stmts[0].value is not None else ''
    if coll is None or init not in ('set()', '{}', 'dict()'):
        tr.err(stmts[0], 'walk_folder: the visited collection is neither set() nor {} / dict()')
    is_set = init == 'set()'
    body = list(stmts[1].body)
    env: dict = {}
    if body and isinstance(body[0], ast.Assign) and len(body[0].targets) == 1 and isinstance(body[0].targets[0], ast.Name):
        kbase, kops0 = tr.expr(body[0].value, {})
        env[body[0].targets[0].id] = (kbase, kops0)
        body = body[1:]
    keys: list[tuple[str, list[str]]] = []

    def key_of(e):
        k = tr.expr(e, env)
        keys.append(k)
        return k

    def is_yield_file(st):
        return isinstance(st, ast.Expr) and isinstance(st.value, ast.Yield) and _name(st.value.value) == FV

    def is_call(st, meth, nargs):
        return (isinstance(st, ast.Expr) and isinstance(st.value, ast.Call) and isinstance(st.value.func, ast.Attribute)
                and _name(st.value.func.value) == coll and st.value.func.attr == meth and len(st.value.args) == nargs
                and not st.value.keywords)

    def membership(test, op):
        return (isinstance(test, ast.Compare) and len(test.ops) == 1 and isinstance(test.ops[0], op)
                and _name(test.comparators[0]) == coll)

    def is_store(st):
        return (isinstance(st, ast.Assign) and len(st.targets) == 1 and isinstance(st.targets[0], ast.Subscript)
                and _name(st.targets[0].value) == coll and _name(st.value) == FV)

    mode = shape = None
    if is_set:
        if len(stmts) != 2:
            tr.err(fn, 'walk_folder: statements after the visited-set loop')
        if (len(body) == 3 and isinstance(body[0], ast.If) and not body[0].orelse and membership(body[0].test, ast.In)
                and len(body[0].body) == 1 and isinstance(body[0].body[0], ast.Continue)
                and is_call(body[1], 'add', 1) and is_yield_file(body[2])):
            key_of(body[0].test.left); key_of(body[1].value.args[0])
            mode, shape = 'DedupSkip', 'visited set: if key in done: continue; done.add(key); yield file'
        elif (len(body) == 1 and isinstance(body[0], ast.If) and not body[0].orelse and membership(body[0].test, ast.NotIn)
              and len(body[0].body) == 2 and is_call(body[0].body[0], 'add', 1) and is_yield_file(body[0].body[1])):
            key_of(body[0].test.left); key_of(body[0].body[0].value.args[0])
            mode, shape = 'DedupSkip', 'visited set: if key not in done: done.add(key); yield file'
    else:
        tail = ast.unparse(stmts[2]) if len(stmts) == 3 else ''
        if tail not in (f'return iter({coll}.values())', f'return {coll}.values()', f'yield from {coll}.values()'):
            tr.err(fn, 'walk_folder: a dict is filled but its values are not returned')
        if len(body) == 1 and is_call(body[0], 'setdefault', 2) and _name(body[0].value.args[1]) == FV:
            key_of(body[0].value.args[0])
            mode, shape = 'DedupSkip', 'dict.setdefault(key, file)'
        elif (len(body) == 1 and isinstance(body[0], ast.If) and not body[0].orelse and membership(body[0].test, ast.NotIn)
              and len(body[0].body) == 1 and is_store(body[0].body[0])):
            key_of(body[0].test.left); key_of(body[0].body[0].targets[0].slice)
            mode, shape = 'DedupSkip', 'if key not in d: d[key] = file'
        elif len(body) == 1 and is_store(body[0]):
            key_of(body[0].targets[0].slice)
            mode, shape = 'DedupOverwrite', 'd[key] = file (a later member overwrites the File kept for a name)'
    if mode is None:
        tr.err(stmts[1], 'walk_folder: loop body is not a recognised de-duplication')
    for kb, _ in keys:
        if kb != f'{FV}.path':
            tr.err(stmts[1], f'walk_folder: de-duplication key derived from {kb}, not from {FV}.path')
    for _, ko in keys[1:]:
        if ko != keys[0][1]:
            tr.err(stmts[1], 'walk_folder: the membership test and the store use different keys')
    return keys[0][1], mode, shape


def _join_expr(tr: Tr, e, arg: str):
    """os.path.join(prefix, <arg>) followed by string operations -> ('JOIN', ops)."""
    ops: list[str] = []
    cur = e
    chain = []
    while isinstance(cur, ast.Call) and isinstance(cur.func, ast.Attribute) and _dotted(cur.func) not in ('os.path.join',):
        chain.append(cur)
        cur = cur.func.value
    if not (isinstance(cur, ast.Call) and _dotted(cur.func) == 'os.path.join' and len(cur.args) == 2
            and _name(cur.args[0]) == 'prefix' and _name(cur.args[1]) == arg):
        tr.err(e, f'expected os.path.join(prefix, {arg})...')
    for c in reversed(chain):
        f = c.func
        if f.attr == 'replace' and len(c.args) == 2 and _is_const(c.args[0], '\\') and _is_const(c.args[1], '/'):
            ops.append('OSlash')
        elif f.attr == 'casefold' and not c.args:
            ops.append('OFold')
        else:
            tr.err(c, 'unrecognised operation after os.path.join')
    return 'JOIN', ops


# ------------------------------------------------------------------------------------------------ what open_* reads
def _strip_wrappers(e):
    """io.TextIOWrapper(X, ...), io.BytesIO(X), io.StringIO(X, ...), cast(T, X) -> X."""
    while isinstance(e, ast.Call):
        fd = _dotted(e.func)
        if fd in ('io.TextIOWrapper', 'io.BytesIO', 'io.StringIO', 'TextIOWrapper', 'BytesIO', 'StringIO') and e.args:
            e = e.args[0]
        elif fd in ('cast', 'typing.cast') and len(e.args) == 2:
            e = e.args[1]
        else:
            break
    return e


def _cexpr(tr: Tr, cls, e, fv: str, depth: int = 0) -> str:
    """Content expression over the FileInfo variable `fv` -> Coq cexpr.  Fail-closed."""
    if depth > 4:
        tr.err(e, 'content helper recursion')
    if isinstance(e, ast.Call) and isinstance(e.func, ast.Attribute) and e.func.attr == 'read' and _name(e.func.value) == fv \
            and not e.args and not e.keywords:
        return 'CRead'
    if isinstance(e, ast.Attribute) and e.attr == 'start_data' and _name(e.value) == fv:
        return 'CPreload'
    if isinstance(e, ast.IfExp):
        return _ctest(tr, e.test, fv, _cexpr(tr, cls, e.body, fv, depth), _cexpr(tr, cls, e.orelse, fv, depth))
    if isinstance(e, ast.Call) and len(e.args) == 1 and not e.keywords and _name(e.args[0]) == fv:
        # a helper of the same class / module taking the FileInfo: if-return chains over the same little language
        fn = _Inline(tr, cls)._resolve(e.func)
        if fn is not None:
            ps = [a.arg for a in fn.args.args]
            deco = {_dotted(d) for d in fn.decorator_list}
            if ps and ps[0] in ('self', 'cls') and 'staticmethod' not in deco:
                ps = ps[1:]
            if len(ps) == 1:
                paths = _paths(_body(normalise(tr, cls, fn)))
                if paths:
                    return _cpaths(tr, cls, paths, ps[0], depth + 1)
    tr.err(e, f'unrecognised content expression {ast.unparse(e)[:80]} (expected {fv}.read())')


def _cpaths(tr: Tr, cls, paths, fv: str, depth: int) -> str:
    """[(conditions, expr)] produced by _paths (a decision tree in prefix order) -> nested cexpr."""
    def build(items, level):
        if len(items) == 1 and len(items[0][0]) == level:
            return _cexpr(tr, cls, items[0][1], fv, depth)
        test = items[0][0][level][0]
        same = lambda it: len(it[0]) > level and ast.dump(it[0][level][0]) == ast.dump(test)
        yes = [it for it in items if same(it) and it[0][level][1]]
        no = [it for it in items if same(it) and not it[0][level][1]]
        if len(yes) + len(no) != len(items) or not yes or not no:
            tr.err(test, 'unrecognised decision structure in content helper')
        return _ctest(tr, test, fv, build(yes, level + 1), build(no, level + 1))
    return build(list(paths), 0)


def _ctest(tr: Tr, t, fv: str, a: str, b: str) -> str:
    """`a if <t> else b` for the two tests on where the data lives."""
    u = ast.unparse(t)
    if u == f'{fv}.arch_index is None':
        return f'(CIfDir {a} {b})'
    if u == f'{fv}.arch_index is not None':
        return f'(CIfDir {b} {a})'
    if u in (f'not {fv}.arch_len', f'{fv}.arch_len == 0', f'{fv}.arch_len <= 0', f'0 == {fv}.arch_len'):
        return f'(CIfNoTail {a} {b})'
    if u in (f'{fv}.arch_len', f'{fv}.arch_len != 0', f'{fv}.arch_len > 0', f'{fv}.arch_len >= 1'):
        return f'(CIfNoTail {b} {a})'
    tr.err(t, f'unrecognised test {u[:60]} in a content expression')


class _FileInfoSrc(ast.NodeTransformer):
    """self._get_data(A) / A._data / self.<dict>[...]  ->  the name _FI (where the FileInfo comes from does not matter)."""

    def __init__(self, A, dict_attr, tr=None, cls=None, depth=0):
        self.A, self.dict_attr, self.n = A, dict_attr, 0
        self.tr, self.cls, self.depth = tr, cls, depth

    def _hit(self, node):
        self.n += 1
        return ast.copy_location(ast.Name(id='_FI', ctx=ast.Load()), node)

    def visit_Call(self, node):
        if _dotted(node.func) in ('self._get_data', 'cls._get_data') and len(node.args) == 1 and _name(node.args[0]) == self.A:
            return self._hit(node)
        # a helper of the same class handed the name, every path of which returns such a FileInfo source
        if self.tr is not None and self.depth < 3 and len(node.args) == 1 and not node.keywords and _name(node.args[0]) == self.A:
            helper = _Inline(self.tr, self.cls)._resolve(node.func)
            if helper is not None and helper.name not in LOOKUP_METHODS:
                ps = [a.arg for a in helper.args.args]
                deco = {_dotted(d) for d in helper.decorator_list}
                if ps and ps[0] in ('self', 'cls') and 'staticmethod' not in deco:
                    ps = ps[1:]
                paths = _paths(_body(normalise(self.tr, self.cls, helper))) if len(ps) == 1 else None
                if paths and all(e is not None for _, e in paths):
                    import copy
                    sub = _FileInfoSrc(ps[0], self.dict_attr, self.tr, self.cls, self.depth + 1)
                    if all(_name(sub.visit(copy.deepcopy(e))) == '_FI' for _, e in paths):
                        return self._hit(node)
        return self.generic_visit(node)

    def visit_Attribute(self, node):
        if node.attr == '_data' and _name(node.value) == self.A:
            return self._hit(node)
        return self.generic_visit(node)

    def visit_Subscript(self, node):
        if _dotted(node.value) == f'self.{self.dict_attr}':
            return self._hit(node)
        return self.generic_visit(node)


def _vpk_content(tr: Tr, cls, dict_attr: str, side: dict) -> list[str]:
    """VPKFileSystem.open_bin / open_str: on every path the returned stream wraps one content expression over the
    FileInfo, which comes from self._get_data(name) (a File of this system) or from the dictionary."""
    out = []
    res = {}
    for mname in ('open_bin', 'open_str'):
        fn0 = tr.method(cls, mname)
        if fn0.decorator_list:
            tr.err(fn0, f'VPKFileSystem.{mname} is decorated')
        fn = normalise(tr, cls, fn0)
        ps = _params(fn)
        paths = _paths(_body(fn))
        if not paths or any(e is None for _, e in paths):
            tr.err(fn, f'VPKFileSystem.{mname}: unrecognised control flow')
        got = set()
        for _, r in paths:
            e = _strip_wrappers(r)
            if mname == 'open_str' and isinstance(e, ast.Call) and _dotted(e.func) == 'self.open_bin' and e.args \
                    and _name(e.args[0]) == ps[0]:
                got.add(res['open_bin'])
                continue
            src = _FileInfoSrc(ps[0], dict_attr, tr, cls)
            e = src.visit(e)
            names = {n.id for n in ast.walk(e) if isinstance(n, ast.Name) and n.id not in ('self', 'cls', cls.name)}
            if names != {'_FI'}:
                tr.err(fn, f'VPKFileSystem.{mname}: the content {ast.unparse(e)[:80]} does not depend on the FileInfo alone')
            got.add(_cexpr(tr, cls, e, '_FI'))
        if len(got) != 1:
            tr.err(fn, f'VPKFileSystem.{mname}: different paths read different things: {sorted(got)}')
        res[mname] = got.pop()
        out.append(f'Definition vpk_{mname}_content : cexpr := {res[mname]}.')
    side['vpk_content'] = res
    return out


# ------------------------------------------------------------------------------------------------ the container's reader
def _lin(e):
    """Integer-linear expression over self.offset / self.arch_len -> {'offset': n, 'arch_len': n, 'const': n}, else None."""
    if isinstance(e, ast.Constant) and isinstance(e.value, int) and not isinstance(e.value, bool):
        return {'offset': 0, 'arch_len': 0, 'const': e.value}
    if isinstance(e, ast.Attribute) and _name(e.value) == 'self' and e.attr in ('offset', 'arch_len'):
        return {'offset': int(e.attr == 'offset'), 'arch_len': int(e.attr == 'arch_len'), 'const': 0}
    if isinstance(e, ast.UnaryOp) and isinstance(e.op, (ast.USub, ast.UAdd)):
        v = _lin(e.operand)
        return None if v is None else ({k: -x for k, x in v.items()} if isinstance(e.op, ast.USub) else v)
    if isinstance(e, ast.BinOp) and isinstance(e.op, (ast.Add, ast.Sub)):
        a, b = _lin(e.left), _lin(e.right)
        if a is None or b is None:
            return None
        sg = 1 if isinstance(e.op, ast.Add) else -1
        return {k: a[k] + sg * b[k] for k in a}
    return None


def _z(n: int) -> str:
    return f'({n})%Z' if n < 0 else f'{n}%Z'


def _vpk_reader(side: dict) -> list[str]:
    """vpk.py FileInfo.read() -> rexpr (rocq/SM/FsChainRead.v): the preload, slices of the directory block / of a numbered
    archive with the integer displacements found in the source, the tests on arch_len / arch_index.  Fail-closed."""
    import copy
    tree = canonical_module(ast.parse(src_text('vpk.py')))
    tr = Tr(tree, 'vpk.py')
    cls = tr.classes.get('FileInfo')
    if cls is None:
        tr.err(tree, 'vpk.py: FileInfo not found')
    tr.cls = cls
    fn0 = tr.method(cls, 'read')
    if fn0.decorator_list or _params(fn0):
        tr.err(fn0, 'FileInfo.read: unexpected signature')
    fn = normalise(tr, cls, fn0)
    ARCH_PATH = 'os.path.join(self.vpk.folder, get_arch_filename(self.vpk.file_prefix, self.arch_index))'

    def rexpr(e, reader):
        if isinstance(e, ast.Attribute) and e.attr == 'start_data' and _name(e.value) == 'self':
            return 'RPre'
        if isinstance(e, ast.BinOp) and isinstance(e.op, ast.Add):
            return f'(RCat {rexpr(e.left, reader)} {rexpr(e.right, reader)})'
        if isinstance(e, ast.Subscript) and _dotted(e.value) == 'self.vpk.footer_data' and isinstance(e.slice, ast.Slice) \
                and e.slice.step is None and e.slice.lower is not None and e.slice.upper is not None:
            lo, hi = _lin(e.slice.lower), _lin(e.slice.upper)
            if lo and hi and (lo['offset'], lo['arch_len']) == (1, 0) and (hi['offset'], hi['arch_len']) == (1, 1):
                return f'(RSlice true {_z(lo["const"])} {_z(hi["const"])})'
            tr.err(e, f'FileInfo.read: unrecognised slice bounds {ast.unparse(e.slice)[:60]}')
        if isinstance(e, ast.Call) and isinstance(e.func, ast.Attribute) and e.func.attr == 'read' and reader is not None \
                and _name(e.func.value) == reader[0] and len(e.args) == 1 and not e.keywords:
            if reader[1] is None:
                tr.err(e, 'FileInfo.read: the archive is read without a seek to the offset')
            ln = _lin(e.args[0])
            if ln and (ln['offset'], ln['arch_len']) == (0, 1):
                return f'(RSlice false {_z(reader[1])} {_z(reader[1] + ln["const"])})'
            tr.err(e, f'FileInfo.read: unrecognised length {ast.unparse(e.args[0])[:60]}')
        tr.err(e, f'FileInfo.read: unrecognised expression {ast.unparse(e)[:80]}')

    def stmts(body, env, reader):
        body = [st for st in body if not _is_doc(st) and not isinstance(st, ast.Pass)]
        if not body:
            tr.err(fn, 'FileInfo.read: a path does not return')
        st, rest = body[0], body[1:]
        sub = lambda x: _Subst(env).visit(copy.deepcopy(x))
        if isinstance(st, ast.Return) and st.value is not None:
            return rexpr(sub(st.value), reader)
        if isinstance(st, ast.Assign) and len(st.targets) == 1 and isinstance(st.targets[0], ast.Name) and _pure_or_archname(st.value):
            return stmts(rest, {**env, st.targets[0].id: sub(st.value)}, reader)
        if isinstance(st, ast.If):
            a = stmts(list(st.body) + rest, env, reader)
            b = stmts(list(st.orelse) + rest, env, reader)
            return _ctest(tr, sub(st.test), 'self', a, b).replace('(CIf', '(RIf')
        if isinstance(st, ast.Assign) and len(st.targets) == 1 and isinstance(st.targets[0], ast.Name) and reader is not None \
                and isinstance(st.value, ast.Call) and isinstance(st.value.func, ast.Attribute) and st.value.func.attr == 'read' \
                and _name(st.value.func.value) == reader[0]:
            return stmts(rest, {**env, st.targets[0].id: sub(st.value)}, reader)       # tail = data.read(n): used where it is named
        if isinstance(st, ast.With) and len(st.items) == 1 and isinstance(st.items[0].optional_vars, ast.Name) and reader is None:
            op = sub(st.items[0].context_expr)
            mode = None
            if isinstance(op, ast.Call) and _name(op.func) == 'open' and op.args:
                mode = op.args[1] if len(op.args) > 1 else next((k.value for k in op.keywords if k.arg == 'mode'), None)
            if not (mode is not None and _is_const(mode, 'rb') and ast.unparse(op.args[0]) == ARCH_PATH):
                tr.err(st, f'FileInfo.read: does not open the numbered archive of the file in binary mode: {ast.unparse(op)[:100]}')
            return stmts(list(st.body) + rest, env, (st.items[0].optional_vars.id, None))
        if isinstance(st, ast.Expr) and isinstance(st.value, ast.Call) and isinstance(st.value.func, ast.Attribute) and reader is not None \
                and st.value.func.attr == 'seek' and _name(st.value.func.value) == reader[0] and len(st.value.args) == 1 and not st.value.keywords:
            pos = _lin(sub(st.value.args[0]))
            if not pos or (pos['offset'], pos['arch_len']) != (1, 0) or reader[1] is not None:
                tr.err(st, f'FileInfo.read: unrecognised seek {ast.unparse(st.value)[:60]}')
            return stmts(rest, env, (reader[0], pos['const']))
        tr.err(st, f'FileInfo.read: unrecognised statement {ast.unparse(st)[:80]}')

    def _pure_or_archname(v):
        return all(not isinstance(n, ast.Call) or _dotted(n.func) in PURE_FUNCS | {'get_arch_filename'} or
                   (isinstance(n.func, ast.Attribute) and n.func.attr in PURE_METHODS) for n in ast.walk(v))

    e = stmts(_body(fn), {}, None)
    side['vpk_reader'] = e
    return [f'Definition vpk_reader : rexpr := {e}.']


def _raw_walk_shape(tr: Tr, cls) -> str:
    """RawFileSystem.walk_folder: `for D, _, FS in os.walk(self._resolve_path(...)): for F in FS: yield File(self, R, R)`,
    whatever the locals are called and wherever they are assigned.  How R is computed is returned:
    RawRelFile     R = os.path.relpath(os.path.join(D, F), self.path).replace('\\', '/')
    RawRelDirJoin  R = <relpath(D, self.path), slashes converted> + '/' + F  (written with +, an f-string or os.path.join):
                   the relative path of the walked root itself is '.', so its files are listed as './name'."""
    import copy
    fn = normalise(tr, cls, tr.method(cls, 'walk_folder'))
    env: dict = {}
    sub = lambda x: _Subst(env).visit(copy.deepcopy(x))
    body = _body(fn)
    while body and isinstance(body[0], (ast.Assign, ast.AnnAssign)):
        st = body.pop(0)
        tgt = st.targets[0] if isinstance(st, ast.Assign) and len(st.targets) == 1 else getattr(st, 'target', None)
        if not isinstance(tgt, ast.Name) or st.value is None:
            tr.err(st, 'RawFileSystem.walk_folder: unrecognised assignment')
        env[tgt.id] = sub(st.value)
    if len(body) != 1 or not isinstance(body[0], ast.For) or body[0].orelse:
        tr.err(fn, 'RawFileSystem.walk_folder: not one loop over os.walk(...)')
    outer = body[0]
    it = sub(outer.iter)
    if not (isinstance(it, ast.Call) and _dotted(it.func) == 'os.walk' and len(it.args) == 1 and not it.keywords
            and isinstance(it.args[0], ast.Call) and _dotted(it.args[0].func) == 'self._resolve_path'):
        tr.err(outer, 'RawFileSystem.walk_folder: does not walk self._resolve_path(folder)')
    t = outer.target
    if not (isinstance(t, ast.Tuple) and len(t.elts) == 3 and all(isinstance(x, ast.Name) for x in t.elts)):
        tr.err(outer, 'RawFileSystem.walk_folder: os.walk loop target is not (dirpath, dirnames, filenames)')
    D, FS = t.elts[0].id, t.elts[2].id
    obody = list(outer.body)
    while obody and isinstance(obody[0], (ast.Assign, ast.AnnAssign)):      # per-directory locals
        st = obody.pop(0)
        tgt = st.targets[0] if isinstance(st, ast.Assign) and len(st.targets) == 1 else getattr(st, 'target', None)
        if not isinstance(tgt, ast.Name) or st.value is None or tgt.id in (D, FS) or not all(
                not isinstance(n, ast.Call) or _dotted(n.func) in PURE_FUNCS | {'os.path.relpath'}
                or (isinstance(n.func, ast.Attribute) and n.func.attr in PURE_METHODS) for n in ast.walk(st.value)):
            tr.err(st, 'RawFileSystem.walk_folder: unrecognised assignment')
        env[tgt.id] = sub(st.value)
    if len(obody) != 1 or not isinstance(obody[0], ast.For) or obody[0].orelse \
            or _name(obody[0].iter) != FS or not isinstance(obody[0].target, ast.Name):
        tr.err(outer, 'RawFileSystem.walk_folder: inner loop is not `for file in filenames`')
    F = obody[0].target.id
    inner = list(obody[0].body)
    while inner and isinstance(inner[0], (ast.Assign, ast.AnnAssign)):
        st = inner.pop(0)
        tgt = st.targets[0] if isinstance(st, ast.Assign) and len(st.targets) == 1 else getattr(st, 'target', None)
        if not isinstance(tgt, ast.Name) or st.value is None:
            tr.err(st, 'RawFileSystem.walk_folder: unrecognised assignment')
        env[tgt.id] = sub(st.value)
    want = f"os.path.relpath(os.path.join({D}, {F}), self.path).replace('\\\\', '/')"
    rd = f"os.path.relpath({D}, self.path)"
    rds = rd + ".replace('\\\\', '/')"
    dirjoin = {f"{rds} + '/' + {F}", f"({rd} + '/' + {F}).replace('\\\\', '/')", f"os.path.join({rd}, {F}).replace('\\\\', '/')",
               f"os.path.join({rds}, {F})", f"os.path.join({rds}, {F}).replace('\\\\', '/')"}
    ok = (len(inner) == 1 and isinstance(inner[0], ast.Expr) and isinstance(inner[0].value, ast.Yield)
          and isinstance(inner[0].value.value, ast.Call) and _name(inner[0].value.value.func) == 'File'
          and len(inner[0].value.value.args) == 3 and not inner[0].value.value.keywords
          and _name(inner[0].value.value.args[0]) == 'self')
    if not ok:
        tr.err(outer, f'RawFileSystem.walk_folder: does not yield File(self, R, R) with R = {want}')
    r1, r2 = (ast.unparse(_FStrConcat().visit(sub(a))) for a in inner[0].value.value.args[1:3])
    if r1 == want and r2 == want:
        return 'RawRelFile'
    if r1 == r2 and r1 in dirjoin:
        return 'RawRelDirJoin'
    tr.err(outer, f'RawFileSystem.walk_folder: does not yield File(self, R, R) with R = {want} (found {r1[:100]})')


def _raw(tr: Tr, side: dict) -> list[str]:
    """RawFileSystem: which normalisation of the name / folder reaches `self._resolve_path(...)` in each entry point
    (the directory itself is the OS's business: os.path.isfile / open / os.walk on the resolved path)."""
    cls = tr.classes.get('RawFileSystem')
    if cls is None:
        tr.err(tr.tree, 'RawFileSystem not found')
    tr.cls = cls

    def resolve_ops(mname: str, param: str, os_call: str) -> list[str]:
        fn = tr.method(cls, mname)
        env = {param: (param, [])}
        found: list[list[str]] = []
        os_seen = False

        def visit(stmts):
            nonlocal os_seen
            for st in stmts:
                if isinstance(st, ast.Expr) and isinstance(st.value, ast.Constant):
                    continue
                if isinstance(st, ast.If) and ast.unparse(st.test) == f'isinstance({param}, File)' and not st.orelse \
                        and len(st.body) == 1 and ast.unparse(st.body[0]) == f'{param} = self._get_data({param})':
                    continue      # a File of this system carries its own (already listed) path
                own = [v for f, v in ast.iter_fields(st) if f not in ('body', 'orelse', 'finalbody', 'handlers')]
                for v in own:
                    for node in (ast.walk(v) if isinstance(v, ast.AST) else
                                 [n for x in v if isinstance(x, ast.AST) for n in ast.walk(x)] if isinstance(v, list) else ()):
                        if isinstance(node, ast.Call) and _dotted(node.func) == 'self._resolve_path':
                            if len(node.args) != 1 or node.keywords:
                                tr.err(node, f'RawFileSystem.{mname}: unrecognised _resolve_path call')
                            base, ops = tr.expr(node.args[0], env)
                            if base != param:
                                tr.err(node, f'RawFileSystem.{mname}: resolves {base}, not the {param} argument')
                            found.append(ops)
                        if isinstance(node, ast.Call) and _dotted(node.func) == os_call:
                            os_seen = True
                if isinstance(st, (ast.Assign, ast.AnnAssign)):
                    tr._stmt(st, env)
                for fld in ('body', 'orelse', 'finalbody'):
                    sub = getattr(st, fld, None)
                    if isinstance(sub, list):
                        visit(sub)

        visit(fn.body)
        if not found or not os_seen:
            tr.err(fn, f'RawFileSystem.{mname} does not pass self._resolve_path(...) to {os_call}')
        for o in found[1:]:
            if o != found[0]:
                tr.err(fn, f'RawFileSystem.{mname}: different normalisations reach _resolve_path')
        return found[0]

    g = resolve_ops('_get_file', 'name', 'os.path.isfile')
    e = resolve_ops('_file_exists', 'name', 'os.path.isfile')
    o = resolve_ops('open_bin', 'name', 'open')
    ostr = resolve_ops('open_str', 'name', 'open')
    if ostr != o:
        tr.err(cls, f'RawFileSystem: open_str and open_bin normalise differently: {ostr} vs {o}')
    w = resolve_ops('walk_folder', 'folder', 'os.walk')
    rel = _raw_walk_shape(tr, cls)
    side['raw'] = {'get': g, 'exists': e, 'open': o, 'walk_folder': w, 'walk_listed_name': rel,
                   'os': 'os.path.isfile / open / os.walk on self._resolve_path(...); listed names relative to self.path'}
    return ['Definition raw_is_os_exact : bool := true.',
            f'Definition raw_get_ops : list sop := {_coq_ops(g)}.',
            f'Definition raw_exists_ops : list sop := {_coq_ops(e)}.',
            f'Definition raw_open_ops : list sop := {_coq_ops(o)}.',
            f'Definition raw_walk_ops : list sop := {_coq_ops(w)}.',
            f'Definition raw_walk_relmode : raw_rel := {rel}.']


def translate() -> tuple[str, dict]:
    tree = canonical_module(ast.parse(src_text('filesys.py')))
    tr = Tr(tree, 'filesys.py')
    side: dict = {'backends': {}}
    lines = ['(* generated by translate/c19_walk.py from src/srctools/filesys.py - do not edit *)',
             'From Coq Require Import List NArith ZArith.', 'From SV Require Import SM.FsChain SM.FsChainForms SM.FsChainRead SM.FsChainAdd.', 'Import ListNotations.', '']
    for cname, dattr in DICTS.items():
        cls = tr.classes.get(cname)
        if cls is None:
            tr.err(tree, f'class {cname} not found')
        tr.cls = cls
        for m in _methods(cls).values():
            if m.name in LOOKUP_METHODS and m.decorator_list:
                tr.err(m, f'{cname}.{m.name} is decorated')
        try:
            store, store_base = _store_ops(tr, cls, dattr)
            get = _key_uses(tr, tr.method(cls, '_get_file'), dattr, 'name')
            ex = _key_uses(tr, tr.method(cls, '_file_exists'), dattr, 'name')
            op = _key_uses(tr, tr.method(cls, 'open_bin'), dattr, 'name')
            if 'self.open_bin(name)' in ast.unparse(tr.method(cls, 'open_str')):
                ops_str = op      # delegates to open_bin
            else:
                ops_str = _key_uses(tr, tr.method(cls, 'open_str'), dattr, 'name')
            if ops_str != op:
                tr.err(cls, f'{cname}: open_str and open_bin normalise differently: {ops_str} vs {op}')
            wf, subj, sops, line, wsrc = _walk(tr, cls, dattr)
        except TranslateError as e:
            raise TranslateError(str(e) if cname in str(e) else f'{e} [while translating {cname}]') from None
        lines.append(f'Definition {CFG[cname]} : backend := {{|')
        lines.append(f'  b_store := {_coq_ops(store)}; b_get := {_coq_ops(get)}; b_exists := {_coq_ops(ex)}; b_open := {_coq_ops(op)};')
        lines.append(f'  b_wsrc := {wsrc}; b_wfolder := {_coq_ops(wf)}; b_wsubj := {subj}; b_wsubj_ops := {_coq_ops(sops)} |}}.')
        side['backends'][cname] = {'store': store, 'get': get, 'exists': ex, 'open': op, 'walk_folder': wf,
                                   'walk_source': wsrc, 'walk_subject': subj, 'walk_subject_ops': sops, 'walk_line': line,
                                   'digest': ast_digest(cls)}
    lines.append('')
    tr.cls = tr.classes['VPKFileSystem']
    lines += _vpk_content(tr, tr.cls, DICTS['VPKFileSystem'], side)
    lines += _vpk_reader(side)
    try:
        lines += _raw(tr, side)
    except TranslateError as e:
        raise TranslateError(str(e) if 'RawFileSystem' in str(e) else f'{e} [while translating RawFileSystem]') from None
    for m in _methods(tr.classes.get('FileSystemChain') or tr.err(tree, 'FileSystemChain not found')).values():
        if m.name in LOOKUP_METHODS and m.decorator_list:
            tr.err(m, f'FileSystemChain.{m.name} is decorated')
    lines += _chain(tr, side)
    lines.append('')
    return '\n'.join(lines), side


GEN = {'FsWalk_gen': translate}
