"""C11 translator, part: the PHYSCOLLIDE block of `_lmp_write_bmodels` / `_lmp_read_bmodels` (Fmt/BspPhys.v: phys_cfg).

Read from the source:
  writer  - the four arguments of the header pack call inside the loop over the models, labelled
              HIndex  the loop's enumerate counter,
              HCount  len(S) where S is what the following `for solid in S` loop walks,
              HKvLen  len(K) where K is what is written after the solids,
              HSize   the remaining one (the reader ignores it);
            the order of the sections after the header (solids as `<i` length + bytes, then the text); whether every value
            assigned to K ends in b'\\0'; the sentinel header written after the loop (its HIndex value);
  reader  - the four targets of `struct_read(<header>)` labelled by their use: compared with a constant followed by `break`
            (HIndex, sentinel), `range(N)` of the comprehension that reads the solids (HCount), `read(N)` of the text (HKvLen),
            the remaining one (HSize); the order of the sections; whether trailing NULs are stripped from the text.
The header / length format strings themselves are sites of the format census (c11_formats.STREAMS 'physcollide*').
Fail-closed: any other shape -> TranslateError.
"""
from __future__ import annotations

import ast
from typing import Any

from harness.common import TranslateError


def _fn(tree: ast.AST, name: str) -> ast.FunctionDef:
    for n in ast.walk(tree):
        if isinstance(n, ast.FunctionDef) and n.name == name:
            return n
    raise TranslateError(f'{name} not found')


def _is_pack(e: ast.AST) -> bool:
    return isinstance(e, ast.Call) and ast.unparse(e.func) == 'struct.pack' and bool(e.args) and isinstance(e.args[0], ast.Constant)


def _write_arg(st: ast.stmt, buf: str) -> ast.AST | None:
    if isinstance(st, ast.Expr) and isinstance(st.value, ast.Call) and ast.unparse(st.value.func) == f'{buf}.write' and len(st.value.args) == 1:
        return st.value.args[0]
    return None


def _const_int(e: ast.AST) -> int | None:
    if isinstance(e, ast.Constant) and type(e.value) is int:
        return e.value
    if isinstance(e, ast.UnaryOp) and isinstance(e.op, ast.USub) and isinstance(e.operand, ast.Constant) and type(e.operand.value) is int:
        return -e.operand.value
    return None


def writer(fn: ast.FunctionDef) -> dict[str, Any]:
    w = 'writer _lmp_write_bmodels'
    # the loop over the models that contains a 4-value pack written to a buffer
    for loop in [n for n in ast.walk(fn) if isinstance(n, ast.For)]:
        hdr = None
        for i, st in enumerate(loop.body):
            a = _write_arg(st, 'phys_buf')
            if a is not None and _is_pack(a) and len(a.args) == 5:
                hdr = (i, a)
                break
        if hdr is None:
            continue
        if not (isinstance(loop.iter, ast.Call) and ast.unparse(loop.iter.func) == 'enumerate' and isinstance(loop.target, ast.Tuple)
                and isinstance(loop.target.elts[0], ast.Name)):
            raise TranslateError(f'{w}: the loop that writes the physics header does not enumerate the models')
        counter = loop.target.elts[0].id
        i, call = hdr
        rest = loop.body[i + 1:]
        segs: list[str] = []
        solids_iter = kv_name = None
        for st in rest:
            if isinstance(st, ast.For):
                if len(st.body) != 2 or not isinstance(st.target, ast.Name):
                    raise TranslateError(f'{w}: line {st.lineno}: solids loop not recognised')
                a0, a1 = _write_arg(st.body[0], 'phys_buf'), _write_arg(st.body[1], 'phys_buf')
                v = st.target.id
                if not (a0 is not None and _is_pack(a0) and len(a0.args) == 2 and ast.unparse(a0.args[1]) == f'len({v})'
                        and isinstance(a1, ast.Name) and a1.id == v):
                    raise TranslateError(f'{w}: line {st.lineno}: a solid is not written as its length followed by its bytes')
                solids_iter = ast.unparse(st.iter)
                segs.append('SSolids')
            else:
                a = _write_arg(st, 'phys_buf')
                if isinstance(a, ast.Name):
                    kv_name = a.id
                    segs.append('SKvs')
                else:
                    raise TranslateError(f'{w}: line {st.lineno}: statement after the physics header not recognised: {ast.unparse(st)[:60]}')
        if solids_iter is None or kv_name is None:
            raise TranslateError(f'{w}: solids loop or text write missing after the header')
        labels = []
        for a in call.args[1:]:
            t = ast.unparse(a)
            if isinstance(a, ast.Name) and a.id == counter:
                labels.append('HIndex')
            elif t == f'len({solids_iter})':
                labels.append('HCount')
            elif t == f'len({kv_name})':
                labels.append('HKvLen')
            else:
                labels.append('HSize')
        if sorted(labels) != ['HCount', 'HIndex', 'HKvLen', 'HSize']:
            raise TranslateError(f'{w}: header arguments not recognised: {[ast.unparse(a)[:30] for a in call.args[1:]]} -> {labels}')
        # every value the text name gets ends in NUL
        vals = [n.value for n in ast.walk(loop) if isinstance(n, ast.Assign) and len(n.targets) == 1 and isinstance(n.targets[0], ast.Name)
                and n.targets[0].id == kv_name]
        if not vals:
            raise TranslateError(f'{w}: no assignment to `{kv_name}` inside the loop')

        def nul_terminated(e: ast.AST) -> bool:
            if isinstance(e, ast.Constant) and isinstance(e.value, bytes):
                return e.value.endswith(b'\0')
            return isinstance(e, ast.BinOp) and isinstance(e.op, ast.Add) and nul_terminated(e.right)
        term = all(nul_terminated(v) for v in vals)
        # the sentinel: a 4-value pack of constants written to the buffer outside the loop
        sent = None
        for st in fn.body:
            a = _write_arg(st, 'phys_buf')
            if a is not None and _is_pack(a) and len(a.args) == 5:
                cs = [_const_int(x) for x in a.args[1:]]
                if any(c is None for c in cs):
                    raise TranslateError(f'{w}: line {st.lineno}: sentinel header is not made of integer literals')
                if a.args[0].value != call.args[0].value:
                    raise TranslateError(f'{w}: sentinel header format {a.args[0].value!r} differs from the block header {call.args[0].value!r}')
                sent = cs[labels.index('HIndex')]
        if sent is None:
            raise TranslateError(f'{w}: no sentinel header written after the loop')
        return {'order': labels, 'sentinel': sent, 'segs': segs, 'terminated': term, 'header': call.args[0].value}
    raise TranslateError(f'{w}: no loop writes a physics header')


def reader(fn: ast.FunctionDef) -> dict[str, Any]:
    w = 'reader _lmp_read_bmodels'
    for loop in [n for n in ast.walk(fn) if isinstance(n, ast.While)]:
        first = loop.body[0] if loop.body else None
        if not (isinstance(first, ast.Assign) and len(first.targets) == 1 and isinstance(first.targets[0], ast.Tuple)
                and isinstance(first.value, ast.Call) and ast.unparse(first.value.func) == 'struct_read'
                and len(first.targets[0].elts) == 4 and all(isinstance(e, ast.Name) for e in first.targets[0].elts)):
            continue
        if not (isinstance(loop.test, ast.Constant) and loop.test.value is True):
            raise TranslateError(f'{w}: the block loop is not `while True`')
        names = [e.id for e in first.targets[0].elts]       # type: ignore[attr-defined]
        # plain renames of the header values inside the loop (`a = b`, `a, b = c, d` with names assigned once inside the loop): read through them
        alias: dict[str, str] = {}
        for st in loop.body[1:]:
            if isinstance(st, ast.Assign) and len(st.targets) == 1:
                tg, val = st.targets[0], st.value
                pairs = list(zip(tg.elts, val.elts)) if isinstance(tg, ast.Tuple) and isinstance(val, ast.Tuple) and len(tg.elts) == len(val.elts) \
                    else [(tg, val)]
                if all(isinstance(a, ast.Name) and isinstance(b, ast.Name) for a, b in pairs):
                    srcs = {b.id for _, b in pairs}         # type: ignore[attr-defined]
                    for a, b in pairs:
                        if alias.get(b.id, b.id) in names and a.id not in srcs and a.id not in names and \
                                sum(1 for n in ast.walk(loop) if isinstance(n, ast.Name) and n.id == a.id and isinstance(n.ctx, ast.Store)) == 1:
                            alias[a.id] = alias.get(b.id, b.id)         # type: ignore[attr-defined]
        if alias:
            class R(ast.NodeTransformer):
                def visit_Name(self, node: ast.Name) -> ast.AST:
                    if isinstance(node.ctx, ast.Load) and node.id in alias:
                        return ast.copy_location(ast.Name(id=alias[node.id], ctx=ast.Load()), node)
                    return node
            import copy
            loop = copy.deepcopy(loop)
            loop.body = [loop.body[0]] + [R().visit(st) for st in loop.body[1:]
                                          if not (isinstance(st, ast.Assign) and all(isinstance(x, ast.Name) and x.id in alias for x in
                                                  (st.targets[0].elts if isinstance(st.targets[0], ast.Tuple) else [st.targets[0]])))]
        role: dict[str, str] = {}
        sent = None
        segs: list[tuple[tuple[int, int], str]] = []
        strip = False
        for st in loop.body[1:]:
            if isinstance(st, ast.If) and len(st.body) == 1 and isinstance(st.body[0], ast.Break) and isinstance(st.test, ast.Compare) \
                    and len(st.test.ops) == 1 and isinstance(st.test.ops[0], ast.Eq) and isinstance(st.test.left, ast.Name) \
                    and st.test.left.id in names and sent is None:
                c = _const_int(st.test.comparators[0])
                if c is None:
                    raise TranslateError(f'{w}: line {st.lineno}: the end-of-blocks test does not compare with an integer literal')
                role[st.test.left.id] = 'HIndex'
                sent = c
        for n in ast.walk(loop):
            if isinstance(n, ast.ListComp) and len(n.generators) == 1 and isinstance(n.generators[0].iter, ast.Call) \
                    and ast.unparse(n.generators[0].iter.func) == 'range' and len(n.generators[0].iter.args) == 1 \
                    and isinstance(n.generators[0].iter.args[0], ast.Name) and n.generators[0].iter.args[0].id in names:
                el = n.elt
                if not (isinstance(el, ast.Call) and ast.unparse(el.func) == 'phys_buf.read' and len(el.args) == 1
                        and isinstance(el.args[0], ast.Subscript) and isinstance(el.args[0].value, ast.Call)
                        and ast.unparse(el.args[0].value.func) == 'struct_read' and _const_int(el.args[0].slice) == 0):
                    raise TranslateError(f'{w}: line {n.lineno}: a solid is not read as struct_read(<length>)[0] bytes')
                role[n.generators[0].iter.args[0].id] = 'HCount'
                segs.append(((n.lineno, n.col_offset), 'SSolids'))
            elif isinstance(n, ast.Call) and ast.unparse(n.func) == 'phys_buf.read' and len(n.args) == 1 and isinstance(n.args[0], ast.Name) \
                    and n.args[0].id in names:
                role[n.args[0].id] = 'HKvLen'
                segs.append(((n.lineno, n.col_offset), 'SKvs'))
            elif isinstance(n, ast.Call) and isinstance(n.func, ast.Attribute) and n.func.attr == 'rstrip' and len(n.args) == 1 \
                    and isinstance(n.args[0], ast.Constant) and n.args[0].value == b'\0' \
                    and isinstance(n.func.value, ast.Call) and ast.unparse(n.func.value.func) == 'phys_buf.read':
                strip = True
        rest = [x for x in names if x not in role]
        if sent is None or sorted(role.values()) != ['HCount', 'HIndex', 'HKvLen'] or len(rest) != 1:
            raise TranslateError(f'{w}: header targets {names} not classified: {role}')
        role[rest[0]] = 'HSize'
        if any(isinstance(n, ast.Name) and n.id == rest[0] and isinstance(n.ctx, ast.Load) for n in ast.walk(loop)):
            raise TranslateError(f'{w}: the size field `{rest[0]}` is used by the reader: not modelled')
        segs.sort()
        return {'order': [role[x] for x in names], 'sentinel': sent, 'segs': [s for _, s in segs], 'strip': strip,
                'header': first.value.args[0].value if first.value.args and isinstance(first.value.args[0], ast.Constant) else None}
    raise TranslateError(f'{w}: no `while True` loop starts with a 4-value struct_read')


def generate(tree: ast.Module) -> tuple[str, dict]:
    wr = writer(_fn(tree, '_lmp_write_bmodels'))
    rd = reader(_fn(tree, '_lmp_read_bmodels'))
    if wr['header'] != rd['header']:
        raise TranslateError(f'physics header formats differ: writer {wr["header"]!r}, reader {rd["header"]!r}')
    b = lambda v: 'true' if v else 'false'      # noqa: E731
    z = lambda v: f'({v})%Z'                    # noqa: E731
    text = ('(* PHYSCOLLIDE block: writer header order, reader header order, sentinel written / compared, sections written / read, '
            'text NUL-terminated, NULs stripped *)\n'
            f'Definition phys_config : phys_cfg := ([{"; ".join(wr["order"])}], [{"; ".join(rd["order"])}], {z(wr["sentinel"])}, {z(rd["sentinel"])}, '
            f'[{"; ".join(wr["segs"])}], [{"; ".join(rd["segs"])}], {b(wr["terminated"])}, {b(rd["strip"])}).\n'
            f'Definition phys_header_fmt : string := "{wr["header"]}".')
    return text, {'phys_writer': wr, 'phys_reader': rd}
